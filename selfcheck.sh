#!/bin/sh
# setup: nothing to build or install; verify the analyser's front ends load
cd "$(dirname "$0")" || exit 2
exec /venv/bin/python -B -c "
import sys
sys.path.insert(0, '.')
from sa.model import Model
m = Model(with_pyx=True)
print('front ends ok:', len(list(m.all_funcs(('py','pyx')))), 'functions')
"
