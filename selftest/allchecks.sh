#!/bin/sh
# usage: selftest/allchecks.sh <patch.diff>   - applies the patch to a scratch copy of /repo's yarl package and runs all 20
# quick checks on it (16 jobs); prints every check that does not exit 0 with its findings. For behaviour-preserving
# patches every check must stay silent.
patch="$1"
tmp=$(mktemp -d /tmp/yarl-all-XXXXXX)
mkdir -p "$tmp/repo"
cp -r /repo/yarl "$tmp/repo/yarl"
(cd "$tmp/repo" && patch -p1 -s < "$patch") || { echo "patch does not apply"; rm -rf "$tmp"; exit 3; }
run() { p=$1; mkdir -p "$tmp/out-$p"; YARL_REPO="$tmp/repo" YARL_VERIF_OUT="$tmp/out-$p" /verif/check "$p" > "$tmp/$p.log" 2>&1; echo $? > "$tmp/$p.rc"; }
for n in 01 02 03 04 05 06 07 08 09 10 11 12 13 14 15 16 17 18 19 20; do run C$n & done; wait
bad=0
for n in 01 02 03 04 05 06 07 08 09 10 11 12 13 14 15 16 17 18 19 20; do
  rc=$(cat "$tmp/C$n.rc")
  if [ "$rc" != "0" ]; then bad=$((bad+1)); echo "## C$n exit $rc"; grep -E ": \[|ANALYSIS-ERROR|construct:" "$tmp/C$n.log" | cut -c1-260 | head -8; fi
done
echo "non-zero checks: $bad"
rm -rf "$tmp"
