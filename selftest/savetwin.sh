#!/bin/sh
# usage: selftest/savetwin.sh <seed id> <name>  -> writes benign/<name>.diff = diff of /repo/yarl vs the repaired scratch copy
d=/tmp/tw/$1
t=$(mktemp -d /tmp/twd-XXXXXX); mkdir -p $t/a $t/b; cp -r /repo/yarl $t/a/yarl; cp -r $d/repo/yarl $t/b/yarl
rm -f $t/a/yarl/*.so $t/a/yarl/*.c $t/b/yarl/*.so $t/b/yarl/*.c; rm -rf $t/a/yarl/__pycache__ $t/b/yarl/__pycache__
(cd $t && diff -ruN a/yarl b/yarl > /verif/benign/$2.diff); rm -rf $t; wc -l /verif/benign/$2.diff
