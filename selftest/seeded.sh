#!/bin/sh
# usage: selftest/seeded.sh <id-dir-under-seeded-or-/tmp/wt> <Cxx> [<Cyy> ...]
# Applies <dir>/patch.diff (or change.diff) to a scratch copy of /repo's yarl package, runs the named checks on it, cleans up.
d="$1"; shift
patch="$d/patch.diff"; [ -f "$patch" ] || patch="$d/change.diff"
tmp=$(mktemp -d /tmp/yarl-seeded-XXXXXX)
mkdir -p "$tmp/repo" "$tmp/out"
cp -r /repo/yarl "$tmp/repo/yarl"
(cd "$tmp/repo" && patch -p1 -s < "$patch") || { echo "patch does not apply"; rm -rf "$tmp"; exit 3; }
for p in "$@"; do
  YARL_REPO="$tmp/repo" YARL_VERIF_OUT="$tmp/out" /verif/check "$p" | grep -E "VIOLATION|ANALYSIS-ERROR|: \[" | cut -c1-220
  echo "== $p exit $?"
done
rm -rf "$tmp"
