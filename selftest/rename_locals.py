#!/venv/bin/python
"""Robustness variant: every local variable of every function in yarl/*.py is renamed (parameters, globals and attribute
names are kept), the modules are re-emitted with ast.unparse, and all twenty checks must stay silent.
usage: selftest/rename_locals.py [suffix]      (scratch copy under mkdtemp, removed afterwards)"""
import ast
import os
import shutil
import subprocess
import sys
import tempfile

VERIF = os.path.dirname(os.path.dirname(os.path.abspath(__file__)))
REPO = os.environ.get("YARL_REPO", "/repo")
SUFFIX = sys.argv[1] if len(sys.argv) > 1 else "_v"


class Renamer(ast.NodeTransformer):
    def __init__(self):
        self.stack = []

    def _locals(self, fn):
        params = {a.arg for a in fn.args.posonlyargs + fn.args.args + fn.args.kwonlyargs}
        if fn.args.vararg:
            params.add(fn.args.vararg.arg)
        if fn.args.kwarg:
            params.add(fn.args.kwarg.arg)
        keep = set(params)
        names = set()
        for n in ast.walk(fn):
            if isinstance(n, (ast.Global, ast.Nonlocal)):
                keep.update(n.names)
            elif isinstance(n, (ast.FunctionDef, ast.AsyncFunctionDef, ast.ClassDef)) and n is not fn:
                keep.add(n.name)
            elif isinstance(n, ast.Name) and isinstance(n.ctx, (ast.Store, ast.Del)):
                names.add(n.id)
            elif isinstance(n, ast.ExceptHandler) and n.name:
                keep.add(n.name)
            elif isinstance(n, (ast.Import, ast.ImportFrom)):
                keep.update((a.asname or a.name).split(".")[0] for a in n.names)
        return names - keep

    def visit_FunctionDef(self, node):
        self.stack.append(self._locals(node))
        self.generic_visit(node)
        self.stack.pop()
        return node

    visit_AsyncFunctionDef = visit_FunctionDef

    def visit_Name(self, node):
        if self.stack and node.id in self.stack[-1]:
            node.id = node.id + SUFFIX
        return node


def main():
    tmp = tempfile.mkdtemp(prefix="yarl-rename-")
    try:
        dst = os.path.join(tmp, "repo", "yarl")
        shutil.copytree(os.path.join(REPO, "yarl"), dst, ignore=shutil.ignore_patterns("__pycache__", "*.so", "*.c"))
        n = 0
        for f in sorted(os.listdir(dst)):
            if not f.endswith(".py"):
                continue
            p = os.path.join(dst, f)
            tree = ast.parse(open(p, encoding="utf8").read())
            r = Renamer()
            tree = r.visit(tree)
            ast.fix_missing_locations(tree)
            open(p, "w", encoding="utf8").write(ast.unparse(tree) + "\n")
            n += 1
        bad = 0
        procs = []
        for i in range(1, 21):
            prop = f"C{i:02d}"
            out = os.path.join(tmp, "out-" + prop)
            os.makedirs(out)
            env = dict(os.environ, YARL_REPO=os.path.join(tmp, "repo"), YARL_VERIF_OUT=out)
            procs.append((prop, subprocess.Popen([os.path.join(VERIF, "check"), prop], env=env, stdout=subprocess.PIPE,
                                                 stderr=subprocess.STDOUT, text=True)))
        for prop, pr in procs:
            outp, _ = pr.communicate()
            if pr.returncode != 0:
                bad += 1
                print(f"## {prop} exit {pr.returncode}")
                for line in outp.splitlines():
                    if ": [" in line or "ANALYSIS-ERROR" in line or "construct:" in line:
                        print(line[:260])
        print(f"{n} modules rewritten with every local renamed ({SUFFIX!r}); non-zero checks: {bad}")
        return 1 if bad else 0
    finally:
        shutil.rmtree(tmp, ignore_errors=True)


if __name__ == "__main__":
    sys.exit(main())
