#!/venv/bin/python
"""Mutation self-test of the checkers: every variant (one edit on a scratch copy of /repo's yarl package, which still
compiles) must be reported by the expected property check with the expected rule; the unchanged copy and every behaviour-preserving
variant (BENIGN edits, benign/*.diff refactorings) must be silent.

usage: selftest/run.py [-j N] [-k substring] [--list]
Scratch copies live under a mkdtemp() directory outside /repo and /verif and are removed after each variant."""
import argparse
import concurrent.futures as cf
import os
import py_compile
import shutil
import subprocess
import sys
import tempfile

HERE = os.path.dirname(os.path.abspath(__file__))
VERIF = os.path.dirname(HERE)
REPO = os.environ.get("YARL_REPO", "/repo")
sys.path.insert(0, HERE)
from mutants import MUTANTS, BENIGN  # noqa: E402


def seeded_variants():
    """The changes written by independent sub-agents (seeded/<id>/patch.diff): each must be reported by the checks
    recorded in its meta.json."""
    import json
    out = []
    base = os.path.join(VERIF, "seeded")
    for d in sorted(os.listdir(base)) if os.path.isdir(base) else []:
        meta = os.path.join(base, d, "meta.json")
        if os.path.exists(meta):
            m = json.load(open(meta))
            rules = {p: r.split()[0].split("/")[0] for p, r in m["detected_by"].items()}
            for prop, rule in rules.items():
                out.append((f"seeded-{d}-{prop}", [prop], rule, None, os.path.join(base, d, "patch.diff"), None))
    return out


def refactor_variants():
    """Behaviour-preserving refactorings written by independent sub-agents (benign/*.diff): every check must stay silent
    on every one of them (exit 0, no VIOLATION, no ANALYSIS-ERROR)."""
    out = []
    base = os.path.join(VERIF, "benign")
    undecided = set()
    up = os.path.join(base, "UNDECIDED.txt")
    if os.path.exists(up):
        for line in open(up):
            if line.strip() and not line.startswith("#"):
                name, props = line.split("::")[0].split()
                undecided.update((name, p) for p in props.split(","))
    for f in sorted(os.listdir(base)) if os.path.isdir(base) else []:
        if f.endswith(".diff"):
            for n in range(1, 21):
                prop = f"C{n:02d}"
                rule = "UNDECIDED-OK" if (f[:-5], prop) in undecided else None
                out.append((f"refactor-{f[:-5]}-{prop}", [prop], rule, None, os.path.join(base, f), None))
    return out


def run_variant(m):
    name, props, rule, fname, old, new = m[:6]
    tmp = tempfile.mkdtemp(prefix="yarl-selftest-")
    try:
        os.makedirs(os.path.join(tmp, "repo"))
        shutil.copytree(os.path.join(REPO, "yarl"), os.path.join(tmp, "repo", "yarl"),
                        ignore=shutil.ignore_patterns("__pycache__", "*.so", "*.c"))
        if fname is None:
            pr = subprocess.run(["patch", "-p1", "-s", "-i", old], cwd=os.path.join(tmp, "repo"), capture_output=True, text=True)
            if pr.returncode != 0:
                return name, False, "patch does not apply (selftest entry is stale)"
            fname = "__none__"
            p = None
        else:
            p = os.path.join(tmp, "repo", "yarl", fname)
            src = open(p, encoding="utf8").read()
            if src.count(old) != 1:
                return name, False, f"anchor text occurs {src.count(old)} times in {fname} (selftest entry is stale)"
            open(p, "w", encoding="utf8").write(src.replace(old, new))
        if fname.endswith(".py"):
            try:
                py_compile.compile(p, doraise=True, cfile=os.path.join(tmp, "x.pyc"))
            except py_compile.PyCompileError as e:
                return name, False, f"variant does not compile: {e}"
        out = os.path.join(tmp, "out")
        os.makedirs(out)
        env = dict(os.environ, YARL_REPO=os.path.join(tmp, "repo"), YARL_VERIF_OUT=out)
        msgs = []
        ok_all = True
        for prop in props:
            r = subprocess.run([os.path.join(VERIF, "check"), prop], env=env, capture_output=True, text=True, timeout=600)
            if rule == "UNDECIDED-OK":
                # a re-implementation listed in benign/UNDECIDED.txt: giving up (exit 2) is accepted, an alarm never is
                ok = r.returncode in (0, 2) and "VIOLATION" not in r.stdout
                if not ok:
                    msgs.append(f"{prop}: alarm on a behaviour-preserving re-implementation, exit {r.returncode}")
            elif rule is None:
                ok = r.returncode == 0 and "VIOLATION" not in r.stdout
                if not ok:
                    msgs.append(f"{prop}: expected silence, exit {r.returncode}: " + " | ".join(l for l in r.stdout.splitlines() if "[" in l or "ANALYSIS" in l)[:300])
            else:
                ok = r.returncode == 1 and f"VIOLATION property={prop}" in r.stdout and f"[{rule}]" in r.stdout
                if not ok:
                    rules = sorted({l.split("[")[1].split("]")[0] for l in r.stdout.splitlines() if ": [" in l})
                    tail = r.stdout.strip().splitlines()[-1][:200] if r.stdout.strip() else r.stderr[-200:]
                    msgs.append(f"{prop}: expected [{rule}], exit {r.returncode}, rules fired {rules}; {tail}")
            ok_all = ok_all and ok
        return name, ok_all, "; ".join(msgs)
    finally:
        shutil.rmtree(tmp, ignore_errors=True)


def main():
    ap = argparse.ArgumentParser()
    ap.add_argument("-j", type=int, default=16)
    ap.add_argument("-k", default="")
    ap.add_argument("--list", action="store_true")
    ap.add_argument("--skip-refactor", action="store_true", help="only the detection side (mutants, benign edits, seeded changes)")
    a = ap.parse_args()
    todo = [m for m in MUTANTS + BENIGN + seeded_variants() + ([] if a.skip_refactor else refactor_variants())
            if a.k in m[0] or a.k in ",".join(m[1])]
    if a.list:
        for m in todo:
            print(m[0], m[1], m[2])
        return 0
    bad = 0
    with cf.ThreadPoolExecutor(a.j) as ex:
        for name, ok, msg in ex.map(run_variant, todo):
            print(("ok   " if ok else "FAIL ") + name + ("" if ok else "  -- " + msg))
            bad += not ok
    print(f"{len(todo) - bad}/{len(todo)} variants behaved as expected")
    return 1 if bad else 0


if __name__ == "__main__":
    sys.exit(main())
