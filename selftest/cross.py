#!/venv/bin/python
"""Cross test: a behaviour-preserving refactoring (benign/*.diff) followed by a mutation from the corpus must still be
reported by the same rule. This guards the rules against becoming *blind* on refactored code (silent because they no
longer see it), the failure mode a false-alarm fix can introduce.

For every refactoring, every mutant whose anchor text still occurs exactly once in a file the refactoring touched is
applied on top of it. usage: selftest/cross.py [-j N] [-k substring] [--all-files]"""
import argparse
import concurrent.futures as cf
import os
import re
import shutil
import subprocess
import sys
import tempfile

HERE = os.path.dirname(os.path.abspath(__file__))
VERIF = os.path.dirname(HERE)
REPO = os.environ.get("YARL_REPO", "/repo")
sys.path.insert(0, HERE)
from mutants import MUTANTS  # noqa: E402
from idiom_mutants import IDIOM_MUTANTS  # noqa: E402


# refactoring + mutant combinations where the mutant no longer changes behaviour (so silence is right)
EQUIVALENT = {
    ("R20-3", "pyq-hex-regex-lower"): "R20-3 validates escapes through a table; _IS_HEX is still defined but unused",
    ("S01", "pyq-hex-regex-lower"): "table-driven variant: _IS_HEX is defined but unused",
    ("S05", "pyq-hex-regex-lower"): "table-driven variant: _IS_HEX is defined but unused",
    ("S06", "pyq-hex-regex-lower"): "table-driven variant: _IS_HEX is defined but unused",
}


def undecided_pairs():
    out = set()
    p = os.path.join(VERIF, "benign", "UNDECIDED.txt")
    if os.path.exists(p):
        for line in open(p):
            if line.strip() and not line.startswith("#"):
                name, props = line.split("::")[0].split()
                out.update((name, x) for x in props.split(","))
    return out


UNDECIDED = undecided_pairs()


def touched(diff):
    return sorted({m.group(1) for m in re.finditer(r"^\+\+\+ b/yarl/(\S+)", open(diff).read(), re.M)})


def prepare(diff, tmp):
    os.makedirs(os.path.join(tmp, "repo"))
    shutil.copytree(os.path.join(REPO, "yarl"), os.path.join(tmp, "repo", "yarl"),
                    ignore=shutil.ignore_patterns("__pycache__", "*.so", "*.c"))
    pr = subprocess.run(["patch", "-p1", "-s", "-i", diff], cwd=os.path.join(tmp, "repo"), capture_output=True, text=True)
    return pr.returncode == 0


def run(job):
    diff, m = job
    name, props, rule, fname, old, new = m[:6]
    label = f"{os.path.basename(diff)[:-5]}+{name}"
    tmp = tempfile.mkdtemp(prefix="yarl-cross-")
    try:
        if not prepare(diff, tmp):
            return label, None, "patch does not apply"
        p = os.path.join(tmp, "repo", "yarl", fname)
        src = open(p, encoding="utf8").read()
        if src.count(old) != 1:
            return label, None, "anchor text gone after the refactoring (skipped)"
        src2 = src.replace(old, new)
        if fname.endswith(".py"):
            try:
                compile(src2, p, "exec")
            except SyntaxError:
                # e.g. the anchor line matched inside a block the refactoring added (deeper indentation): a mutant must compile
                return label, None, "the mutant does not parse on top of this refactoring (skipped)"
        open(p, "w", encoding="utf8").write(src2)
        out = os.path.join(tmp, "out")
        os.makedirs(out)
        env = dict(os.environ, YARL_REPO=os.path.join(tmp, "repo"), YARL_VERIF_OUT=out)
        prop = props[0]
        r = subprocess.run([os.path.join(VERIF, "check"), prop], env=env, capture_output=True, text=True, timeout=900)
        ok = r.returncode == 1 and f"[{rule}" in r.stdout
        if ok:
            return label, True, ""
        base = os.path.basename(diff)[:-5]
        if r.returncode == 2 and (base, prop) in UNDECIDED:
            return label, None, "re-implementation listed in benign/UNDECIDED.txt: the check gives up (exit 2)"
        if r.returncode == 0 and (base, name) in EQUIVALENT:
            return label, None, "equivalent mutant: " + EQUIVALENT[(base, name)]
        rules = sorted({l.split("[")[1].split("]")[0] for l in r.stdout.splitlines() if ": [" in l})
        tail = r.stdout.strip().splitlines()[-1][:160] if r.stdout.strip() else r.stderr[-160:]
        return label, False, f"{prop}: expected [{rule}], exit {r.returncode}, fired {rules}; {tail}"
    finally:
        shutil.rmtree(tmp, ignore_errors=True)


def main():
    ap = argparse.ArgumentParser()
    ap.add_argument("-j", type=int, default=16)
    ap.add_argument("-k", default="")
    ap.add_argument("--all-files", action="store_true", help="also mutate files the refactoring did not touch")
    ap.add_argument("--idiom", action="store_true", help="run the hand-written bugs in the refactorings' own idioms (idiom_mutants.py)")
    a = ap.parse_args()
    base = os.path.join(VERIF, "benign")
    jobs = []
    if a.idiom:
        for name, ref, prop, rule, fname, old, new in IDIOM_MUTANTS:
            if a.k in name or a.k in ref:
                jobs.append((os.path.join(base, ref + ".diff"), (name, [prop], rule, fname, old, new)))
        return report(jobs, a.j, strict=True)
    for f in sorted(os.listdir(base)):
        if not f.endswith(".diff"):
            continue
        d = os.path.join(base, f)
        files = touched(d)
        for m in MUTANTS:
            if (a.all_files or m[3] in files) and (a.k in f or a.k in m[0]):
                jobs.append((d, m))
    return report(jobs, a.j)


def report(jobs, j, strict=False):
    ran = bad = skipped = 0
    with cf.ThreadPoolExecutor(j) as ex:
        for label, ok, msg in ex.map(run, jobs):
            if ok is None:
                skipped += 1
                if strict:
                    bad += 1
                    print("STALE " + label + "  -- " + msg)
                continue
            ran += 1
            if not ok:
                bad += 1
                print("MISS " + label + "  -- " + msg)
    print(f"{ran - bad}/{ran} refactoring+mutation variants still detected ({skipped} skipped: anchor text rewritten by the refactoring)")
    return 1 if bad else 0


if __name__ == "__main__":
    sys.exit(main())
