#!/venv/bin/python
"""Cross test: a behaviour-preserving refactoring (benign/*.diff) followed by a mutation from the corpus must still be
reported by the same rule. This guards the rules against becoming *blind* on refactored code (silent because they no
longer see it), the failure mode a false-alarm fix can introduce.

For every refactoring, every mutant whose anchor text still occurs exactly once in a file the refactoring touched is
applied on top of it. usage: selftest/cross.py [-j N] [-k substring] [--all-files]"""
import argparse
import concurrent.futures as cf
import os
import re
import shutil
import subprocess
import sys
import tempfile

HERE = os.path.dirname(os.path.abspath(__file__))
VERIF = os.path.dirname(HERE)
REPO = os.environ.get("YARL_REPO", "/repo")
sys.path.insert(0, HERE)
from mutants import MUTANTS  # noqa: E402


def touched(diff):
    return sorted({m.group(1) for m in re.finditer(r"^\+\+\+ b/yarl/(\S+)", open(diff).read(), re.M)})


def prepare(diff, tmp):
    os.makedirs(os.path.join(tmp, "repo"))
    shutil.copytree(os.path.join(REPO, "yarl"), os.path.join(tmp, "repo", "yarl"),
                    ignore=shutil.ignore_patterns("__pycache__", "*.so", "*.c"))
    pr = subprocess.run(["patch", "-p1", "-s", "-i", diff], cwd=os.path.join(tmp, "repo"), capture_output=True, text=True)
    return pr.returncode == 0


def run(job):
    diff, m = job
    name, props, rule, fname, old, new = m[:6]
    label = f"{os.path.basename(diff)[:-5]}+{name}"
    tmp = tempfile.mkdtemp(prefix="yarl-cross-")
    try:
        if not prepare(diff, tmp):
            return label, None, "patch does not apply"
        p = os.path.join(tmp, "repo", "yarl", fname)
        src = open(p, encoding="utf8").read()
        if src.count(old) != 1:
            return label, None, "anchor text gone after the refactoring (skipped)"
        open(p, "w", encoding="utf8").write(src.replace(old, new))
        out = os.path.join(tmp, "out")
        os.makedirs(out)
        env = dict(os.environ, YARL_REPO=os.path.join(tmp, "repo"), YARL_VERIF_OUT=out)
        prop = props[0]
        r = subprocess.run([os.path.join(VERIF, "check"), prop], env=env, capture_output=True, text=True, timeout=900)
        ok = r.returncode == 1 and f"[{rule}]" in r.stdout
        if ok:
            return label, True, ""
        rules = sorted({l.split("[")[1].split("]")[0] for l in r.stdout.splitlines() if ": [" in l})
        tail = r.stdout.strip().splitlines()[-1][:160] if r.stdout.strip() else r.stderr[-160:]
        return label, False, f"{prop}: expected [{rule}], exit {r.returncode}, fired {rules}; {tail}"
    finally:
        shutil.rmtree(tmp, ignore_errors=True)


def main():
    ap = argparse.ArgumentParser()
    ap.add_argument("-j", type=int, default=16)
    ap.add_argument("-k", default="")
    ap.add_argument("--all-files", action="store_true", help="also mutate files the refactoring did not touch")
    a = ap.parse_args()
    base = os.path.join(VERIF, "benign")
    jobs = []
    for f in sorted(os.listdir(base)):
        if not f.endswith(".diff"):
            continue
        d = os.path.join(base, f)
        files = touched(d)
        for m in MUTANTS:
            if (a.all_files or m[3] in files) and (a.k in f or a.k in m[0]):
                jobs.append((d, m))
    ran = bad = skipped = 0
    with cf.ThreadPoolExecutor(a.j) as ex:
        for label, ok, msg in ex.map(run, jobs):
            if ok is None:
                skipped += 1
                continue
            ran += 1
            if not ok:
                bad += 1
                print("MISS " + label + "  -- " + msg)
    print(f"{ran - bad}/{ran} refactoring+mutation variants still detected ({skipped} skipped: anchor text rewritten by the refactoring)")
    return 1 if bad else 0


if __name__ == "__main__":
    sys.exit(main())
