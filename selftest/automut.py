#!/venv/bin/python
"""Automatic mutation sweep: syntactic mutants of yarl/*.py that SURVIVE the package's own test suite are run through
all twenty checks. A surviving mutant that no check reports is either equivalent, irrelevant to the twenty properties,
or a gap - the list is for triage, it is not a pass/fail test.

usage: selftest/automut.py [-j N] [--files _url.py,_parse.py] [--limit N] [--seed S] [--out FILE]
       selftest/automut.py --recheck OLD.jsonl [--only-silent] --out NEW.jsonl
Everything runs in mkdtemp() scratch copies outside /repo and /verif (removed afterwards). Nothing here is part of a
registered check: the sweep *runs the test suite* only to select the mutants worth looking at."""
import argparse
import ast
import concurrent.futures as cf
import json
import os
import random
import shutil
import subprocess
import sys
import tempfile

VERIF = os.path.dirname(os.path.dirname(os.path.abspath(__file__)))
REPO = "/repo"
FILES = ["_url.py", "_parse.py", "_path.py", "_query.py", "_quoters.py", "_quoting_py.py"]
CMP = {ast.Lt: ast.LtE, ast.LtE: ast.Lt, ast.Gt: ast.GtE, ast.GtE: ast.Gt, ast.Eq: ast.NotEq, ast.NotEq: ast.Eq,
       ast.Is: ast.IsNot, ast.IsNot: ast.Is, ast.In: ast.NotIn, ast.NotIn: ast.In}
NAME_SWAP = {"QUOTER": "REQUOTER", "REQUOTER": "QUOTER", "PATH_QUOTER": "PATH_REQUOTER", "PATH_REQUOTER": "PATH_QUOTER",
             "QUERY_QUOTER": "QUERY_REQUOTER", "QUERY_REQUOTER": "QUERY_QUOTER", "FRAGMENT_QUOTER": "FRAGMENT_REQUOTER",
             "FRAGMENT_REQUOTER": "FRAGMENT_QUOTER", "UNQUOTER": "PATH_UNQUOTER", "PATH_UNQUOTER": "UNQUOTER",
             "QS_UNQUOTER": "UNQUOTER", "PATH_SAFE_UNQUOTER": "PATH_UNQUOTER", "QUERY_PART_QUOTER": "QUERY_QUOTER"}
ATTR_SWAP = {"raw_user": "user", "user": "raw_user", "raw_password": "password", "password": "raw_password",
             "raw_host": "host", "host": "raw_host", "raw_path": "path", "path": "raw_path", "raw_name": "name", "name": "raw_name",
             "raw_fragment": "fragment", "fragment": "raw_fragment", "raw_query_string": "query_string",
             "query_string": "raw_query_string", "explicit_port": "port", "port": "explicit_port",
             "host_subcomponent": "raw_host", "_query": "_fragment", "_fragment": "_query", "raw_parts": "parts", "parts": "raw_parts",
             "raw_suffix": "suffix", "suffix": "raw_suffix", "rpartition": "partition", "partition": "rpartition",
             "rfind": "find", "find": "rfind", "lstrip": "strip", "startswith": "endswith"}


OPS3 = False     # third operator set (--ops3): wrong-but-similar names / attributes / delimiter characters, first<->last element
OPS2 = False     # second operator set (--ops2): forced conditions, dropped operands / keywords / method calls, ...


def mutants_of(path, src):
    tree = ast.parse(src)
    out = []

    def seg(node):
        return ast.get_source_segment(src, node)

    def add(node, new_text, what):
        old = seg(node)
        if old is None or old == new_text:
            return
        out.append(dict(file=os.path.basename(path), line=node.lineno, col=node.col_offset, end_line=node.end_lineno,
                        end_col=node.end_col_offset, old=old, new=new_text, what=what))

    for node in ast.walk(tree):
        if isinstance(node, ast.Compare) and len(node.ops) == 1 and type(node.ops[0]) in CMP:
            n2 = ast.Compare(left=node.left, ops=[CMP[type(node.ops[0])]()], comparators=node.comparators)
            add(node, ast.unparse(n2), f"compare {type(node.ops[0]).__name__}->{CMP[type(node.ops[0])].__name__}")
        elif isinstance(node, ast.BoolOp):
            n2 = ast.BoolOp(op=ast.Or() if isinstance(node.op, ast.And) else ast.And(), values=node.values)
            add(node, ast.unparse(n2), "and<->or")
        elif isinstance(node, ast.UnaryOp) and isinstance(node.op, ast.Not):
            add(node, ast.unparse(node.operand), "drop not")
        elif isinstance(node, ast.Constant):
            v = node.value
            if isinstance(v, bool):
                add(node, repr(not v), "bool flip")
            elif isinstance(v, int) and -2 <= v <= 70000:
                add(node, repr(v + 1), "int +1")
                if v:
                    add(node, repr(v - 1), "int -1")
            elif isinstance(v, str) and 1 <= len(v) <= 12 and not getattr(node, "_doc", False):
                add(node, repr(v[:-1]), "str drop last char")
        elif isinstance(node, ast.Name) and isinstance(node.ctx, ast.Load) and node.id in NAME_SWAP:
            add(node, NAME_SWAP[node.id], f"name {node.id}->{NAME_SWAP[node.id]}")
        elif isinstance(node, ast.Attribute) and isinstance(node.ctx, ast.Load) and node.attr in ATTR_SWAP:
            n2 = ast.Attribute(value=node.value, attr=ATTR_SWAP[node.attr], ctx=ast.Load())
            add(node, ast.unparse(n2), f"attr .{node.attr}->.{ATTR_SWAP[node.attr]}")
        elif isinstance(node, ast.Call) and len(node.args) >= 2 and not any(isinstance(a, ast.Starred) for a in node.args):
            n2 = ast.Call(func=node.func, args=[node.args[1], node.args[0]] + node.args[2:], keywords=node.keywords)
            add(node, ast.unparse(n2), "swap first two arguments")
        elif isinstance(node, ast.Subscript) and isinstance(node.slice, ast.Slice):
            sl = node.slice
            if sl.lower is not None or sl.upper is not None:
                n2 = ast.Subscript(value=node.value, slice=ast.Slice(lower=None, upper=None, step=sl.step), ctx=node.ctx)
                if isinstance(node.ctx, ast.Load):
                    add(node, ast.unparse(n2), "slice bounds dropped")
        elif isinstance(node, (ast.Expr, ast.AugAssign, ast.Continue)) and not (isinstance(node, ast.Expr) and isinstance(node.value, ast.Constant)):
            add(node, "pass", "statement removed")
        elif isinstance(node, ast.IfExp):
            n2 = ast.IfExp(test=node.test, body=node.orelse, orelse=node.body)
            add(node, ast.unparse(n2), "conditional branches swapped")
    if OPS2:
        out = []
        for node in ast.walk(tree):
            if isinstance(node, ast.IfExp):
                add(node, ast.unparse(node.body), "conditional -> then-value")
                add(node, ast.unparse(node.orelse), "conditional -> else-value")
            elif isinstance(node, (ast.If, ast.While)):
                t = node.test
                add(t, "False", "condition forced False")
                if isinstance(node, ast.If):
                    add(t, "True", "condition forced True")
            elif isinstance(node, ast.BoolOp) and len(node.values) >= 2:
                for i in range(len(node.values)):
                    rest = node.values[:i] + node.values[i + 1:]
                    n2 = rest[0] if len(rest) == 1 else ast.BoolOp(op=node.op, values=rest)
                    add(node, ast.unparse(n2), f"operand {i} of {type(node.op).__name__.lower()} dropped")
            elif isinstance(node, ast.Return) and node.value is not None and not isinstance(node.value, ast.Constant):
                add(node.value, "None", "return value -> None")
            elif isinstance(node, ast.Call) and isinstance(node.func, ast.Attribute) and not node.args and not node.keywords and \
                    node.func.attr in ("lower", "upper", "strip", "lstrip", "rstrip", "isascii", "copy", "isdigit"):
                add(node, ast.unparse(node.func.value), f".{node.func.attr}() dropped")
            elif isinstance(node, ast.Call) and node.keywords:
                for i, kw in enumerate(node.keywords):
                    if kw.arg:
                        n2 = ast.Call(func=node.func, args=node.args, keywords=node.keywords[:i] + node.keywords[i + 1:])
                        add(node, ast.unparse(n2), f"keyword {kw.arg}= dropped")
            elif isinstance(node, ast.Constant) and isinstance(node.value, str) and 1 <= len(node.value) <= 12 and \
                    all(c in "/?#@:%+&=;[]!$'()*,.-_~ \t\r\n" for c in node.value):
                for extra in "/?#@:%+&=;":
                    if extra not in node.value:
                        add(node, repr(node.value + extra), f"str + {extra!r}")
                        break
                if len(node.value) > 1:
                    add(node, repr(node.value[1:]), "str drop first char")
            elif isinstance(node, ast.BinOp) and isinstance(node.op, (ast.Add, ast.Sub)):
                n2 = ast.BinOp(left=node.left, op=ast.Sub() if isinstance(node.op, ast.Add) else ast.Add(), right=node.right)
                add(node, ast.unparse(n2), "+ <-> -")
            elif isinstance(node, ast.Subscript) and isinstance(node.slice, ast.Slice) and isinstance(node.ctx, ast.Load):
                sl = node.slice
                if sl.lower is not None and sl.upper is not None:
                    add(node, ast.unparse(ast.Subscript(value=node.value, slice=ast.Slice(lower=sl.lower, upper=None, step=sl.step), ctx=node.ctx)), "slice upper dropped")
                    add(node, ast.unparse(ast.Subscript(value=node.value, slice=ast.Slice(lower=None, upper=sl.upper, step=sl.step), ctx=node.ctx)), "slice lower dropped")
            elif isinstance(node, (ast.Assign, ast.Raise, ast.Break)) and not (isinstance(node, ast.Assign) and len(node.targets) == 1 and
                                                                       isinstance(node.targets[0], ast.Name) and node.col_offset == 0):
                if isinstance(node, ast.Assign) and not all(isinstance(t, (ast.Subscript, ast.Attribute)) for t in node.targets):
                    continue        # removing a local binding gives NameError: killed trivially
                add(node, "pass", f"{type(node).__name__.lower()} removed")
    if OPS3:
        out = []
        pairs = [("user", "password"), ("raw_user", "raw_password"), ("username", "password"), ("path", "query"), ("query", "fragment"),
                 ("scheme", "netloc"), ("encoded_host", "host"), ("orig_path", "join_path"), ("name", "suffix"),
                 ("keep_query", "keep_fragment"), ("unsafe", "ignore"), ("safe", "protected"), ("idx", "start_pct"), ("host", "hostinfo"),
                 ("userinfo", "hostinfo"), ("hostname", "port_str"), ("raw_host", "host"), ("netloc", "host"), ("key", "val"), ("k", "v")]
        swap = {}
        for a, b in pairs:
            swap.setdefault(a, b)
            swap.setdefault(b, a)
        attr_pairs = {"_safe": "_protected", "_protected": "_safe", "_unsafe": "_ignore", "_ignore": "_unsafe", "_quoter": "_qs_quoter",
                      "_qs_quoter": "_quoter", "_scheme": "_netloc", "_path": "_query", "raw_user": "raw_password", "raw_password": "raw_user"}
        chars = {"/": "?", "?": "#", "#": "?", ":": "@", "@": ":", "[": "]", "]": "[", ".": "/", "%": "+", "+": "%", "&": "=", "=": "&", ";": "&"}
        for node in ast.walk(tree):
            if isinstance(node, ast.Name) and isinstance(node.ctx, ast.Load) and node.id in swap:
                add(node, swap[node.id], f"name {node.id}->{swap[node.id]}")
            elif isinstance(node, ast.Attribute) and isinstance(node.ctx, ast.Load) and node.attr in attr_pairs and \
                    isinstance(node.value, ast.Name) and node.value.id in ("self", "other", "url"):
                add(node, f"{node.value.id}.{attr_pairs[node.attr]}", f"attr .{node.attr}->.{attr_pairs[node.attr]}")
            elif isinstance(node, ast.Constant) and isinstance(node.value, str) and len(node.value) == 1 and node.value in chars:
                add(node, repr(chars[node.value]), f"char {node.value!r}->{chars[node.value]!r}")
            elif isinstance(node, ast.Subscript) and isinstance(node.ctx, ast.Load) and isinstance(node.slice, ast.Constant) and node.slice.value == 0:
                add(node, ast.unparse(ast.Subscript(value=node.value, slice=ast.UnaryOp(op=ast.USub(), operand=ast.Constant(value=1)), ctx=node.ctx)), "[0] -> [-1]")
            elif isinstance(node, ast.Subscript) and isinstance(node.ctx, ast.Load) and isinstance(node.slice, ast.UnaryOp) and \
                    isinstance(node.slice.op, ast.USub) and isinstance(node.slice.operand, ast.Constant) and node.slice.operand.value == 1:
                add(node, ast.unparse(ast.Subscript(value=node.value, slice=ast.Constant(value=0), ctx=node.ctx)), "[-1] -> [0]")
            elif isinstance(node, ast.Subscript) and isinstance(node.ctx, ast.Load) and isinstance(node.slice, ast.Slice) and node.slice.step is None:
                sl = node.slice
                one = lambda n: isinstance(n, ast.Constant) and n.value == 1
                if one(sl.lower) and sl.upper is None:
                    add(node, ast.unparse(ast.Subscript(value=node.value, slice=ast.Slice(lower=None, upper=ast.UnaryOp(op=ast.USub(), operand=ast.Constant(value=1)), step=None), ctx=node.ctx)), "[1:] -> [:-1]")
                elif sl.lower is None and isinstance(sl.upper, ast.UnaryOp) and one(sl.upper.operand):
                    add(node, ast.unparse(ast.Subscript(value=node.value, slice=ast.Slice(lower=ast.Constant(value=1), upper=None, step=None), ctx=node.ctx)), "[:-1] -> [1:]")
    # docstrings are not mutated
    doc = set()
    for node in ast.walk(tree):
        if isinstance(node, (ast.FunctionDef, ast.ClassDef, ast.Module)) and node.body and isinstance(node.body[0], ast.Expr) \
                and isinstance(node.body[0].value, ast.Constant) and isinstance(node.body[0].value.value, str):
            doc.add((node.body[0].value.lineno, node.body[0].value.col_offset))
    return [m for m in out if (m["line"], m["col"]) not in doc]


PYX_SUBS = [
    (r" <= ", " < "), (r" < ", " <= "), (r" >= ", " > "), (r" > ", " >= "), (r" == ", " != "), (r" != ", " == "),
    (r" and ", " or "), (r" or ", " and "), (r"\bnot ", ""), (r"\bTrue\b", "False"), (r"\bFalse\b", "True"),
    (r" \+ ", " - "), (r" - ", " + "), (r" \+= ", " -= "), (r" -= ", " += "), (r" \| ", " & "), (r" & ", " | "),
    (r" << ", " >> "), (r" >> ", " << "), (r" is NULL", " is not NULL"), (r" is not None", " is None"), (r" is None", " is not None"),
]


def pyx_mutants(path, src):
    """Token-level mutants of the Cython source (no Python ast for it): operators, integer and character literals,
    continue/break/return statements, single-call statements."""
    import re
    out = []
    in_doc = False
    for ln, line in enumerate(src.split("\n"), 1):
        code = line.split("#", 1)[0] if "'#'" not in line and '"#"' not in line else line
        st = code.strip()
        if st.count('"""') == 1:
            in_doc = not in_doc
            continue
        if in_doc or not st or st.startswith(("cimport", "from ", "import ", "cdef extern", "#", "@", '"""')):
            continue

        def add(a, b, new, what):
            out.append(dict(file=os.path.basename(path), line=ln, col=a, end_line=ln, end_col=b, old=line[a:b], new=new, what=what))
        for pat, rep in PYX_SUBS:
            for m in re.finditer(pat, code):
                add(m.start(), m.end(), rep, f"{m.group().strip() or m.group()} -> {rep.strip()}")
        for m in re.finditer(r"(?<![\w.])(0x[0-9A-Fa-f]+|\d+)(?![\w.])", code):
            v = int(m.group(), 0)
            for nv in (v + 1, v - 1):
                if nv >= 0:
                    add(m.start(), m.end(), hex(nv) if m.group().startswith("0x") else str(nv), f"int {m.group()} -> {nv}")
        for m in re.finditer(r"(?<![\w])(b?)'(.)'", code):
            if m.group(2) not in "\\":
                alt = "!" if m.group(2) != "!" else "?"
                add(m.start(), m.end(), f"{m.group(1)}'{alt}'", f"char {m.group()} -> {alt!r}")
        ind = line[:len(line) - len(line.lstrip())]
        if st in ("continue", "break"):
            add(len(ind), len(line), "pass", f"{st} removed")
        elif re.fullmatch(r"return -1", st):
            add(len(ind), len(line), "return 0", "return -1 -> return 0")
        elif re.fullmatch(r"[\w.]+\(.*\)", st) and not st.startswith(("if", "while", "for", "return", "raise", "def", "cdef", "cpdef")):
            add(len(ind), len(line), "pass", "call statement removed")
        elif re.fullmatch(r"[\w.\[\]]+ [+\-|&]?= .+", st) and not st.startswith(("cdef", "cpdef")) and "," not in st.split("=")[0]:
            add(len(ind), len(line), "pass", "assignment removed")
    return out


def build_pyx(tmp):
    """Regenerate and compile the extension of a scratch copy (cython + gcc, ~3 s)."""
    import sysconfig
    for f in os.listdir(os.path.join(tmp, "yarl")):
        if f.endswith((".so", ".c")):
            os.unlink(os.path.join(tmp, "yarl", f))
    r = subprocess.run(["/venv/bin/python", "-m", "cython", "-3", "yarl/_quoting_c.pyx", "-o", "yarl/_quoting_c.c"], cwd=tmp,
                       capture_output=True, text=True)
    if r.returncode != 0:
        return False
    so = "yarl/_quoting_c" + sysconfig.get_config_var("EXT_SUFFIX")
    so = "yarl/_quoting_c.cpython-312-x86_64-linux-gnu.so"
    inc = subprocess.run(["/venv/bin/python", "-c", "import sysconfig;print(sysconfig.get_paths()['include'])"], capture_output=True,
                         text=True).stdout.strip()
    r = subprocess.run(["gcc", "-shared", "-fPIC", "-O1", "-w", "-I" + inc, "yarl/_quoting_c.c", "-o", so], cwd=tmp, capture_output=True, text=True)
    return r.returncode == 0


def apply(src, m):
    lines = src.split("\n")
    # positions are in utf8 bytes for col offsets; files are ASCII except comments - handle via encode
    def off(line, col):
        return len(lines[line - 1].encode("utf8")[:col].decode("utf8"))
    if m["line"] == m["end_line"]:
        ln = lines[m["line"] - 1]
        a, b = off(m["line"], m["col"]), off(m["end_line"], m["end_col"])
        lines[m["line"] - 1] = ln[:a] + m["new"] + ln[b:]
    else:
        first = lines[m["line"] - 1][:off(m["line"], m["col"])]
        last = lines[m["end_line"] - 1][off(m["end_line"], m["end_col"]):]
        lines[m["line"] - 1:m["end_line"]] = [first + m["new"] + last]
    return "\n".join(lines)


SKIP_TESTS = False


def run_one(m):
    tmp = tempfile.mkdtemp(prefix="yarl-automut-")
    try:
        for d in ("yarl", "tests"):
            shutil.copytree(os.path.join(REPO, d), os.path.join(tmp, d), ignore=shutil.ignore_patterns("__pycache__"))
        for f in ("pytest.ini", "setup.cfg", "pyproject.toml"):
            if os.path.exists(os.path.join(REPO, f)):
                shutil.copy(os.path.join(REPO, f), tmp)
        p = os.path.join(tmp, "yarl", m["file"])
        src = open(p, encoding="utf8").read()
        new = apply(src, m)
        pyx = m["file"].endswith(".pyx")
        if not pyx:
            try:
                ast.parse(new)
            except SyntaxError:
                return m, "invalid", ""
        open(p, "w", encoding="utf8").write(new)
        if pyx and not build_pyx(tmp):
            return m, "invalid", ""
        # the pinned suite, single process, benchmarks executed once instead of timed (same test bodies, same assertions)
        base = ["/venv/bin/python", "-m", "pytest", "-p", "no:cacheprovider", "-p", "no:pytest_cov", "-p", "no:xdist", "-x", "-q",
                "-o", "addopts=", "--benchmark-disable", "--doctest-modules", "tests", "yarl"]
        for env_extra in () if SKIP_TESTS else ({},) if pyx else ({}, {"YARL_NO_EXTENSIONS": "1"}):
            env = dict(os.environ, **env_extra)
            try:
                r = subprocess.run(base, cwd=tmp, env=env, capture_output=True, text=True, timeout=600)
            except subprocess.TimeoutExpired:
                return m, "killed", "timeout"
            if r.returncode != 0:
                return m, "killed", ""
        # survived both runs: ask the checks
        fired = {}
        for i in range(1, 21):
            prop = f"C{i:02d}"
            out = os.path.join(tmp, "out-" + prop)
            os.makedirs(out, exist_ok=True)
            env = dict(os.environ, YARL_REPO=tmp, YARL_VERIF_OUT=out)
            r = subprocess.run([os.path.join(VERIF, "check"), prop], env=env, capture_output=True, text=True, timeout=900)
            if r.returncode != 0:
                rules = sorted({l.split("[")[1].split("]")[0] for l in r.stdout.splitlines() if ": [" in l})
                fired[prop] = (r.returncode, rules or [l[:120] for l in r.stdout.splitlines() if "ANALYSIS-ERROR" in l][:1])
        return m, "survived", fired
    finally:
        shutil.rmtree(tmp, ignore_errors=True)


def main():
    ap = argparse.ArgumentParser()
    ap.add_argument("-j", type=int, default=16)
    ap.add_argument("--files", default=",".join(FILES))
    ap.add_argument("--limit", type=int, default=0)
    ap.add_argument("--seed", type=int, default=1)
    ap.add_argument("--out", default="/tmp/automut.jsonl")
    ap.add_argument("--ops2", action="store_true", help="second operator set instead of the first")
    ap.add_argument("--ops3", action="store_true", help="third operator set instead of the first")
    ap.add_argument("--recheck", help="jsonl of an earlier sweep: re-run only the checks on its survivors (no test runs)")
    ap.add_argument("--only-silent", action="store_true", help="with --recheck: only the survivors no check reported then")
    a = ap.parse_args()
    allm = []
    global OPS2, OPS3
    OPS2 = a.ops2
    OPS3 = a.ops3
    if a.recheck:
        global SKIP_TESTS
        SKIP_TESTS = True
        for l in open(a.recheck):
            d = json.loads(l)
            if a.only_silent and any(v[0] == 1 for v in d["fired"].values()):
                continue
            d.pop("fired")
            allm.append(d)
    else:
        for f in a.files.split(","):
            p = os.path.join(REPO, "yarl", f)
            allm.extend((pyx_mutants if f.endswith(".pyx") else mutants_of)(p, open(p, encoding="utf8").read()))
        random.Random(a.seed).shuffle(allm)
    if a.limit:
        allm = allm[:a.limit]
    print(f"{len(allm)} mutants", flush=True)
    n = {"killed": 0, "invalid": 0, "survived": 0, "reported": 0}
    with open(a.out, "w") as fh, cf.ThreadPoolExecutor(a.j) as ex:
        for m, status, fired in ex.map(run_one, allm):
            n[status] += 1
            if status == "survived":
                rep = {p: v for p, v in fired.items() if v[0] == 1}
                n["reported"] += bool(rep)
                fh.write(json.dumps(dict(m, fired=fired)) + "\n")
                fh.flush()
                tag = "REPORTED" if rep else ("exit2" if fired else "SILENT")
                print(f"{tag} {m['file']}:{m['line']} {m['what']}: {m['old'][:50]!r} -> {m['new'][:50]!r} {rep if rep else ''}", flush=True)
    print(n)


if __name__ == "__main__":
    sys.exit(main())
