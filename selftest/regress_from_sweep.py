#!/venv/bin/python
"""Turn the survivors of a mutation sweep that the checks now report into regression entries of selftest/automut_regress.json.
usage: selftest/regress_from_sweep.py SWEEP.jsonl [...]   (records with a `fired` entry of exit code 1 are added; idempotent)"""
import json
import os
import sys

sys.path.insert(0, os.path.dirname(os.path.abspath(__file__)))
import automut  # noqa: E402

OUT = os.path.join(os.path.dirname(os.path.abspath(__file__)), "automut_regress.json")
# rules of the shared quoter audit are claimed by several properties: keep the ones the rule is a condition of
from_common = {}


def main():
    out = json.load(open(OUT)) if os.path.exists(OUT) else []
    have = {(e[3], e[4], e[5]) for e in out}
    names = {e[0] for e in out}
    added = 0
    for path in sys.argv[1:]:
        for l in open(path):
            d = json.loads(l)
            rep = {p: v for p, v in d["fired"].items() if v[0] == 1}
            if not rep:
                continue
            src = open("/repo/yarl/" + d["file"], encoding="utf8").read()
            new = automut.apply(src, d)
            a, b = src.split("\n"), new.split("\n")
            lo, hi = d["line"] - 1, d["end_line"]
            nb = len(b) - len(a) + (hi - lo)
            up = 0
            while True:
                old_t, new_t = "\n".join(a[lo - up:hi]), "\n".join(b[lo - up:lo + nb])
                if src.count(old_t) == 1:
                    break
                up += 1
            if (d["file"], old_t, new_t) in have:
                continue
            rules = sorted({r for v in rep.values() for r in v[1] if r not in ("py", "pyx")})
            if not rules:
                continue
            # one rule per entry: the properties that reported it with that rule
            rule = rules[0]
            props = sorted(p for p, v in rep.items() if rule in v[1])
            stem = d["file"].strip("_").split(".")[0].replace("quoting_c", "pyx").replace("quoting_py", "pyq")
            what = d["what"].split(":")[0].replace(" ", "-").replace("<->", "-").replace(">", "").replace("<", "lt").replace("=", "eq")
            name = f"auto-{stem}-{d['line']}-{what[:28]}"
            k, i = name, 2
            while k in names:
                k, i = f"{name}-{i}", i + 1
            names.add(k)
            have.add((d["file"], old_t, new_t))
            out.append([k, props, rule, d["file"], old_t, new_t])
            added += 1
    json.dump(out, open(OUT, "w"), indent=1)
    print(f"{added} added, {len(out)} entries")


if __name__ == "__main__":
    main()
