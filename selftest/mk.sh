#!/bin/sh
# usage: selftest/mk.sh <name>   - scratch copy of /repo/yarl with benign/<name>.diff applied at /tmp/bn/<name>/repo (caller removes it)
d=/tmp/bn/$1; rm -rf $d; mkdir -p $d/repo $d/out; cp -r /repo/yarl $d/repo/yarl
(cd $d/repo && patch -p1 -s < /verif/benign/$1.diff) && echo $d
