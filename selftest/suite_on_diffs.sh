#!/bin/sh
# usage: selftest/suite_on_diffs.sh <diff> [...]  - applies each diff to a scratch copy of /repo (outside /repo and /verif), runs the
# pinned test suite on both back ends (the .pyx is rebuilt when the diff touches it) and prints the pass counts. Used to confirm
# the sub-agents' claim that a refactoring keeps the suite green; not part of any check.
for d in "$@"; do
  tmp=$(mktemp -d /tmp/yarl-suite-XXXXXX)
  cp -r /repo/yarl /repo/tests "$tmp"/ ; for f in pytest.ini setup.cfg pyproject.toml; do [ -f /repo/$f ] && cp /repo/$f "$tmp"/; done
  (cd "$tmp" && patch -p1 -s < "$d") || { echo "$(basename $d): patch does not apply"; rm -rf "$tmp"; continue; }
  if grep -q "_quoting_c.pyx" "$d"; then
    (cd "$tmp" && rm -f yarl/*.so yarl/_quoting_c.c && /venv/bin/python -m cython -3 yarl/_quoting_c.pyx -o yarl/_quoting_c.c >/dev/null 2>&1 && \
      gcc -shared -fPIC -O1 -w -I$(/venv/bin/python -c "import sysconfig;print(sysconfig.get_paths()['include'])") yarl/_quoting_c.c -o yarl/_quoting_c.cpython-312-x86_64-linux-gnu.so) || echo "$(basename $d): extension build failed"
  fi
  a=$(cd "$tmp" && /venv/bin/python -m pytest -p no:cacheprovider -p no:pytest_cov -p no:xdist -q -o addopts= --benchmark-disable tests 2>&1 | tail -1)
  b=$(cd "$tmp" && YARL_NO_EXTENSIONS=1 /venv/bin/python -m pytest -p no:cacheprovider -p no:pytest_cov -p no:xdist -q -o addopts= --benchmark-disable tests 2>&1 | tail -1)
  echo "$(basename $d): [ext] $a | [py] $b"
  rm -rf "$tmp"
done
