#!/bin/sh
# usage: selftest/mktwin.sh <seed id, e.g. C03-r3>  -> scratch copy /tmp/tw/<id>/repo with the seed applied (for writing the repaired twin)
d=/tmp/tw/$1; rm -rf $d; mkdir -p $d/repo; cp -r /repo/yarl $d/repo/yarl; rm -f $d/repo/yarl/*.so $d/repo/yarl/*.c; rm -rf $d/repo/yarl/__pycache__
(cd $d/repo && patch -p1 -s < /verif/seeded/$1/patch.diff) && echo $d
