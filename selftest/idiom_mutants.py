"""Bugs written in the *new* idioms of the refactoring corpus: (name, refactoring, property, expected rule, file, old, new).
Each is applied on top of benign/<refactoring>.diff; the named check must report it with the named rule. They guard the
generalised rules (tables, partial/factory-built quoters, min() idioms, helpers that pass containers, EAFP, ...) against
having become tolerant of defects spelled the new way."""

U, P, Q, QP, QC, PA, QU = "_url.py", "_parse.py", "_quoters.py", "_quoting_py.py", "_quoting_c.pyx", "_path.py", "_query.py"

IDIOM_MUTANTS = [
    ("table-escape-lowercase", "R17-1", "C01", "EM-PYQ", QP, '_PCT_ENCODED = tuple(f"%{i:02X}".encode("ascii") for i in range(256))', '_PCT_ENCODED = tuple(f"%{i:02x}".encode("ascii") for i in range(256))'),
    ("table-decode-wrong-char", "R20-3", "C02", "EM-PYQ", QP, "_PCT_TO_CHAR = {escape: chr(i) for i, escape in enumerate(_PCT_ENCODED)}", "_PCT_TO_CHAR = {escape: chr(i | 1) for i, escape in enumerate(_PCT_ENCODED)}"),
    ("partial-path-safe-pipe", "R19-2", "C01", "T3-upper", Q, '_make_path_quoter = partial(_Quoter, safe="@:", protected="/+")', '_make_path_quoter = partial(_Quoter, safe="@:|", protected="/+")'),
    ("partial-query-unprotect-amp", "R19-2", "C02", "T5", Q, '_make_query_quoter = partial(_Quoter, safe="?/:@", protected="=+&;", qs=True)', '_make_query_quoter = partial(_Quoter, safe="?/:@", protected="=+;", qs=True)'),
    ("factory-quoter-requotes", "R19-3", "C02", "K2", Q, "    quoter = _Quoter(safe=safe, protected=protected, qs=qs, requote=False)", "    quoter = _Quoter(safe=safe, protected=protected, qs=qs, requote=True)"),
    ("factory-drops-protected", "R19-3", "C02", "T5", Q, "    requoter = _Quoter(safe=safe, protected=protected, qs=qs, requote=True)", "    requoter = _Quoter(safe=safe + protected, qs=qs, requote=True)"),
    ("min-keeps-not-found", "R16-1", "C07", "B2-URL", P, "    return min((pos for pos in candidates if pos >= 0), default=len(url))", "    return min((pos for pos in candidates), default=len(url))"),
    ("min-forgets-hash", "R16-1", "C07", "B2-URL", P, '    if has_hash:\n        candidates.append(url.find("#", 2))\n', ""),
    ("max-port-constant", "R16-1", "C17", "PRT3", P, "_MAX_PORT = 65535", "_MAX_PORT = 65536"),
    ("valid-ports-range", "R16-3", "C17", "PRT3", P, "_VALID_PORTS = range(65536)", "_VALID_PORTS = range(65537)"),
    ("translate-table-keeps-lf", "R16-3", "C07", "T11", P, "_UNSAFE_URL_BYTES_TABLE = dict.fromkeys(map(ord, UNSAFE_URL_BYTES_TO_REMOVE))", "_UNSAFE_URL_BYTES_TABLE = dict.fromkeys(map(ord, UNSAFE_URL_BYTES_TO_REMOVE[:2]))"),
    ("partition-query-before-fragment", "R16-3", "C07", "ORD4", P, '    url, _, fragment = url.partition("#")\n    url, _, query = url.partition("?")', '    url, _, query = url.partition("?")\n    url, _, fragment = url.partition("#")'),
    ("min-tree-unguarded-find", "R16-2", "C07", "B2-URL", P, '        if has_question_mark:\n            delim = min(delim, url.find("?", 2))', '        delim = min(delim, url.find("?", 2))'),
    ("reverse-resolver-keeps-dot", "R13-3", "C14", "EM-NORM", PA, '        elif seg == ".":\n            continue\n', ""),
    ("segment-rootedness-empty-path", "R13-3", "C14", "EM-NORM", PA, '    if len(segments) > 1 and segments[0] == "":', '    if segments[0] == "":'),
    ("eq-early-return-ignores-fragment", "R14-3", "C10", "CMP1", U, "            and self._query == other._query\n            and self._fragment == other._fragment\n        ):\n            return False", "            and self._query == other._query\n        ):\n            return False"),
    ("operator-le-uses-lt", "R14-3", "C10", "CMP4", U, "        return self._compare(other, operator.le)", "        return self._compare(other, operator.lt)"),
    ("update-forgets-raw-host", "R14-3", "C19", "SH3", U, "            raw_user=user, raw_password=password, raw_host=host, explicit_port=port", "            raw_user=user, raw_password=password, explicit_port=port"),
    ("replace-swaps-query-fragment", "R12-3", "C11", "F1", U, "            self._query if query is UNDEFINED else query,\n            self._fragment if fragment is UNDEFINED else fragment,", "            self._fragment if fragment is UNDEFINED else fragment,\n            self._query if query is UNDEFINED else query,"),
    ("helper-netloc-stores-raw-user", "R11-1", "C01", "K1", U, "    raw_user = (REQUOTER(username) or None) if username else username\n", "    raw_user = username or None\n"),
    ("utf8-loop-short-shift", "R18-1", "C05", "EM-UTF8", QC, "        shift = 12\n", "        shift = 6\n"),
    ("is-safe-no-ascii-bound", "R18-2", "C01", "CH1-SKIP", QC, "        return ch < 128 and bit_at(self._safe_table, ch)", "        return bit_at(self._safe_table, ch)"),
    ("keep-or-requote-forgets-ignore", "R18-3", "C06", "EM-CU", QC, "        if unquoted in self._unsafe or unquoted in self._ignore:\n            return self._quoter(unquoted)", "        if unquoted in self._unsafe:\n            return self._quoter(unquoted)"),
    ("emit-decoded-forgets-unsafe", "R01-3", "C06", "EM-PYU", QP, "        elif unquoted in self._unsafe or unquoted in self._ignore:\n            quoter = self._quoter", "        elif unquoted in self._ignore:\n            quoter = self._quoter"),
    ("quote-pair-skips-str-values", "R09-3", "C12", "K-PAIR", QU, '    return f"{quoter(key)}={quoter(value if type(value) is str else query_var(value))}"', '    return f"{quoter(key)}={value if type(value) is str else quoter(query_var(value))}"'),
    ("helper-cache-raw-host-unencoded", "R05-1", "C09", "SH4", U, '    cache["raw_host"] = encoded_host[1:-1] if "[" in encoded_host else encoded_host', '    cache["raw_host"] = hostname'),
    ("format-escape-lowercase", "R10-2", "C18", "T12", Q, 's = s.replace(c, "%{:02X}".format(ord(c)))', 's = s.replace(c, "%{:02x}".format(ord(c)))'),
    ("flag-if-form-overwrites", "R07-1", "C13", "FLAG-ACC", U, '            if "." in path:\n                needs_normalize = True', '            needs_normalize = "." in path'),
    ("flag-or-form-overwrites", "R13-2", "C13", "FLAG-ACC", U, "            needs_normalize = needs_normalize or has_dot", "            needs_normalize = has_dot"),
    ("hoisted-bracket-wrong-test", "R08-3", "C16", "H2", U, '        host = f"[{raw}]" if ":" in raw else raw', '        host = f"[{raw}]" if "." in raw else raw'),
    ("ip-helper-no-zone-validation", "R10-1", "C16", "ORD5c", U, "    if validate_host:\n        invalid = NOT_REG_NAME.search(zone.lower())", "    if False:\n        invalid = NOT_REG_NAME.search(zone.lower())"),
    ("find-first-at", "R03-2", "C07", "B2-NETLOC", P, '        at_pos = netloc.rfind("@")', '        at_pos = netloc.find("@")'),
    ("grow-writer-no-null-check", "R02-1", "C19", "PX3", QC, "    if buf == NULL:\n        PyErr_NoMemory()\n        return -1\n    if writer.buf == BUFFER:", "    if writer.buf == BUFFER:"),
    ("new-url-helper-shares-cache", "R11-1", "C08", "IM11", U, "    return _new_url(*split_url(url_str), {})", "    return _new_url(*split_url(url_str), encode_url(url_str)._cache)"),
    ("hash-eafp-raw-path", "R14-3", "C10", "CMP1", U, "        ret = hash((self._scheme, self._netloc, path, self._query, self._fragment))", "        ret = hash((self._scheme, self._netloc, self._path, self._query, self._fragment))"),
]
