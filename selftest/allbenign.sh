#!/bin/sh
# usage: selftest/allbenign.sh [pattern]  - runs all 20 checks on every behaviour-preserving refactoring in /verif/benign;
# every one must give "non-zero checks: 0".
for f in /verif/benign/${1:-R}*.diff; do
  echo "== $(basename $f)"
  /verif/selftest/allchecks.sh "$f" 2>&1
done
