"""C14 - join() is RFC 3986 section 5.2 reference resolution."""
from ..rules import flow, order
from ..rules.kindrules import k1, make_kinds

META = {}


def run(ctx):
    ctx.explanation = (
        "Static analysis. Decided: (F3) for every path of join() the source of each result component against the RFC 3986 "
        "5.2.2 table - the reference unchanged only for another scheme or one without relative resolution; a reference "
        "authority brings its own path/query/fragment; otherwise base authority, fragment always from the reference, query "
        "from the reference unless it has neither path nor query, path by the empty/rooted/rootless cases with the 5.2.3 "
        "merge ('/' prepended only under an authority with an empty base path), dot segments removed from the merged path "
        "exactly when it contains '.'; (K1) the merge splices encoded base parts; (EM-NORM) the resolver never emits a dot "
        "segment. Not decided: the merge's string arithmetic and RFC equality for all pairs.")
    K = make_kinds(ctx.model)
    flow.f3_join(ctx)
    flow.f_sink(ctx)        # the components F3 reads off the constructor call are the components of the result
    k1(ctx, K, only={"_url.URL.join"})
    order.ord1(ctx, K)
    order.em_norm(ctx)
