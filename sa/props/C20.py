"""C20 - URLs and caches are safe to share between threads (necessary structure under the GIL)."""
from ..rules import immut
from ..rules.pyxres import px5

META = {"note": "decides necessary structural conditions under the GIL (no GIL release / Python-level operation while the "
                "static buffer is live; racing cache fills store equal values; no shared mutable module state); actual "
                "interleavings, free-threaded builds and lru_cache/propcache internals are not decided"}


def run(ctx):
    ctx.explanation = (
        "Static analysis of the necessary structure, not of schedules. Decided: (PX5) every function reachable from the "
        "compiled quoter's critical section is a cdef function that neither releases the GIL nor performs a Python-level "
        "call/operation while the process-global static buffer is live (the copy-out is the returned value); (IM4) every memoised function/property is a pure function of its key, so racing "
        "cache fills store equal values; (IM5) cache_configure only re-wraps the same functions; (IM8) no module-level "
        "container is mutated; (IM1) no slot of a live URL is ever assigned. (IM15) no cache dict is iterated in Python code (another thread's first accessor read would change its size mid-iteration). Not decided: the interleavings themselves.")
    px5(ctx)        # the writer's memory discipline (PX1-PX4, PX6/PX7) is crash-safety: C19, not claimed here
    immut.im1_im2(ctx)
    immut.im4(ctx)
    immut.im5(ctx)
    immut.im8(ctx)
    immut.im9(ctx)
    immut.im10(ctx)
    immut.im11(ctx)
    immut.im13(ctx)     # nobody writes into the cache of a URL it did not create (shared, memoised objects)
    immut.im15(ctx)     # no Python-level iteration over a cache dict that other threads fill concurrently
    immut.im18(ctx)     # a URL's cache only grows: no entry is removed while other threads may be between a fill and its use
