"""C19 - failures are reported only as ValueError/TypeError; nothing crashes."""
from ..rules import shape_rules as sr
from ..rules.pyxres import px8, px_rules
from ..rules.quoter_pyx import CQuoter
from ..rules.unquoters import Unquoter, read_bounds
from ..shape import Shapes

META = {}


def run(ctx):
    ctx.explanation = (
        "Static analysis. Decided for all inputs: (SH1) no constant-index subscript on a str/list/tuple that can be "
        "empty on some path; (SH2) no dereference of a value known to be Optional outside a non-None fact; (SH3) no "
        "cache-key load without a preceding store; (EX1) every reachable raise constructs ValueError/TypeError; (EX2) no "
        "run-time assert in the .py modules; (EX3) no recursion; (EX5) pop only under suppress(IndexError); (PX1-PX4) the "
        "compiled writer releases its heap buffer exactly once in a finally, never frees the static buffer, NULL-checks "
        "allocations before touching the writer, and stores through the buffer only after the growth check; (LA) scanner "
        "reads stay inside the string. Not decided: exceptions raised inside third-party code; the `assert buflen < 4` "
        "arithmetic of the compiled unquoter.")
    shapes = Shapes(ctx.model)
    sr.sh1(ctx, shapes)
    sr.sh2(ctx, shapes)
    sr.sh6(ctx, shapes)     # no text slot of a new URL ever receives None
    sr.sh7(ctx, shapes)     # no possibly-None value is handed to a parameter declared str/int
    sr.ex6(ctx)             # attributes read from a caught exception exist on the caught class
    sr.ex7(ctx)             # every name a function reads is bound somewhere
    sr.sh3(ctx)
    sr.ex_rules(ctx, shapes)
    sr.ex3_acyclic(ctx, shapes)
    px_rules(ctx)
    px8(ctx)
    m = ctx.model
    for q in ("_quoting_c._Quoter._do_quote", "_quoting_c._Quoter._do_quote_or_skip", "_quoting_c._Unquoter._do_unquote"):
        from ..interp import analyze
        read_bounds(ctx, m, m.func(q), analyze(m, m.func(q)))
    from ..rules import immut as _immut
    _immut.im5(ctx)     # cache_clear() / cache_info() / cache_configure() find lru_cache wrappers under the three names, whatever was configured before
    from ..rules import port as _port
    _port.prt6(ctx)     # "an object that build() or a modifier returned can always be turned into a string": the port is written as a number
