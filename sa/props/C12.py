"""C12 - query operations implement multi-dict algebra exactly (decided part: gate, effects, quoting)."""
from ..rules import immut, queryvar
from ..rules.tables import ROLE_OF
from .common import quoter_audits, table_checks

META = {"note": "decides the value-type gate, None handling, type dispatch, pair quoting, copy-before-update and "
                "argument immutability; the ordering/duplicate algebra is MultiDict.update semantics and is not decided"}


def roles(model):
    def role(f):
        # f: callee term; a module-level quoter instance or a local alias bound to one
        if f[0] == "global" and f[1] == "_quoters" and f[2] in ROLE_OF:
            return ROLE_OF[f[2]]
        return None
    return role


def run(ctx):
    ctx.explanation = (
        "Static analysis. Decided: (QV1) the guards of the value-type gate evaluated over a finite type lattice with the "
        "built-in subtype relation give exactly the outcomes the statement lists (bool, None, bytes, containers -> "
        "TypeError; nan/inf checked before str(float(v))); (QV2) None clears or is a no-op per method; (QV3) list/tuple "
        "expansion only for mappings, bytes-like queries rejected; (K-PAIR) every key and value passes the query-part "
        "quoter exactly once and its literal set excludes '& = + ; # %' (T3/T4/T6); (IM3/IM6) update works on a copy of the "
        "memoised pair list and no argument is mutated. Not decided: ordering/duplicate semantics of MultiDict.update.")
    queryvar.qv1(ctx)
    queryvar.qv2(ctx)
    queryvar.qv3(ctx)
    queryvar.qv4(ctx)
    queryvar.qv5(ctx)
    queryvar.qv6(ctx)
    queryvar.qv7(ctx)
    from ..rules import shape_rules as _sr
    from ..shape import Shapes as _Shapes
    _sr.sh6(ctx, _Shapes(ctx.model))     # `None clears the query`: the stored query is '' then, never None
    queryvar.pair_quoting(ctx, roles(ctx.model))
    immut.im3(ctx)
    immut.im6(ctx)
    immut.im12(ctx)     # nothing on the rendering path is memoised on a key that identifies distinct values (0.0 == -0.0, 1 == 1.0 == True)
    pols, cfgs = quoter_audits(ctx, ch2=False)
    for backend, byname in pols.items():
        from ..rules import tables
        tables.check_policy(ctx, backend, "QUERY_PART_QUOTER", cfgs["QUERY_PART_QUOTER"][1], byname["QUERY_PART_QUOTER"],
                            {"upper", "pct", "term"})
        tables.check_policy(ctx, backend, "QUERY_QUOTER", cfgs["QUERY_QUOTER"][1], byname["QUERY_QUOTER"], {"upper", "pct", "term", "protect"})
