"""C11 - every modifier changes only its own component."""
from ..rules import flow
from ..rules.kindrules import k1, k2_k3, make_kinds

META = {}


def run(ctx):
    ctx.explanation = (
        "Static analysis. Decided: (F1) for each of the twenty modifiers, on every path, each stored component of the result "
        "is the identity flow of the same slot, '' or the replaced value exactly as the statement prescribes, with "
        "keep_query/keep_fragment selecting between identity and ''; delegations to helpers are followed with the "
        "parameters bound to the caller's terms; (F2) the authority modifiers re-assemble the authority from raw_user / "
        "raw_password / host_subcomponent / explicit_port (never raw_host, port or decoded accessors) and with_user(None) "
        "drops the password; (K1/K2) the replaced component is quoted exactly once. (H2) host_subcomponent, from which every authority modifier rebuilds the authority, adds brackets exactly under `':' in host`. (IM13, keys parent/_origin) the memoised results of parent and origin() are stored only by those accessors themselves, never planted into a URL another function did not create. (SH4-BRACKET) no constructor or modifier pre-fills raw_host with the encoder's bracketed form, so the re-assembled authority keeps exactly one pair of brackets. Not decided: that make_netloc's "
        "output re-parses to its inputs for all values.")
    K = make_kinds(ctx.model)
    flow.f1(ctx)
    flow.f_sink(ctx)        # ... and the constructor stores those five components as they are
    flow.f_defaults(ctx)
    flow.f_build_args(ctx)
    flow.f2(ctx, K)
    from ..rules import host as _host
    _host.h2(ctx)           # the accessor the authority is re-assembled from brackets exactly the hosts that contain ':'
    from ..rules.pickle import sh4_bracket
    sh4_bracket(ctx)        # ... and the raw_host it reads is never pre-filled with the bracketed form (else the rebuilt authority has '[[v6]]')
    from ..rules import immut as _immut
    # `parent` / `origin()` are judged by their own bodies (F1): nobody else plants their result in a URL it did not create
    _immut.im13(ctx, only_keys=("parent", "_origin"))
    flow.f_self(ctx, K)     # `return self` short-cuts compare the canonicalised argument, never the text as supplied
    k1(ctx, K)
    k2_k3(ctx, K)
