"""C02 - canonicalisation never changes what a URL means."""
from ..rules.kindrules import k1, k2_k3, k_mix, k_req, k_roundtrip, make_kinds
from ..rules import parser, queryvar
from .C12 import roles
from .common import quoter_audits, table_checks

META = {}


def run(ctx):
    ctx.explanation = (
        "Static analysis. Decided: (EM) in both quoters an escape is decoded only under `in safe and not in protected` "
        "on a validated escape, every other escape is re-emitted as the same byte, every raw byte is copied or %XX-escaped "
        "and no loop iteration drops a unit; (T5) '/' in paths and '& = + ;' in whole queries keep their escaped and "
        "literal forms; (T4) '%' is never literal, so non-requoting quoters never reinterpret supplied text; "
        "(B3) the splitter hands on substrings of the input, unrewritten; (T-plus) space becomes '+' only in queries. Not decided: byte-exact preservation through the UTF-8 codec and "
        "the rewind arithmetic.")
    pols, cfgs = quoter_audits(ctx, ch2=False)   # the dropped-surrogate clause (CH2) belongs to C01/C05
    table_checks(ctx, pols, cfgs, {"pct", "protect", "plus", "stable"})
    K = make_kinds(ctx.model)
    k2_k3(ctx, K)
    k_req(ctx, K)
    k_mix(ctx, K)
    k_roundtrip(ctx, K)
    queryvar.pair_quoting(ctx, roles(ctx.model))    # every key and value keeps its delimiter status: quoted exactly once
    parser.split_url_verbatim(ctx, positions=(1, 2, 3, 4))   # the text that is encoded is the text that was supplied
    k1(ctx, K, only={"_url.URL.join", "_url.URL.with_name", "_url.URL.with_suffix", "_url.URL._with_raw_name", "_url.URL._make_child", "_url.URL.parent", "_url.URL.relative", "_url.URL._origin", "_url.URL.origin"})
