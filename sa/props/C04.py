"""C04 - already-canonical URLs are left untouched."""
from ..rules import order, port, template
from ..rules.kindrules import k1, k2_k3, make_kinds
from .common import quoter_audits, table_checks

META = {}


def run(ctx):
    ctx.explanation = (
        "Static analysis. Decided exhaustively: the complete 128-character policy table of every quoter configuration "
        "(which character is literal, which escape is decoded), derived from the emission guards of both backends and "
        "compared with the RFC 3986 set of the component with lower bound = upper bound for the five requoters; "
        "escapes of bytes outside safe-minus-protected and of all bytes >= 128 are re-emitted unchanged (EM); the identity "
        "fast paths return the input only when nothing changed (CH1, EM-*-RETURN). (ORD2) the parsing constructor removes dot segments only under an authority. (H4) the host encoder returns the whole registered name. Not decided: composition with host/port "
        "canonicalisation (C16/C17).")
    pols, cfgs = quoter_audits(ctx, ch2=False)   # the dropped-surrogate clause (CH2) belongs to C01/C05
    table_checks(ctx, pols, cfgs, {"upper", "lower", "pct", "protect", "keep", "stable"})
    K = make_kinds(ctx.model)
    from .common import claim_in, constructor_function
    claim_in(ctx, ("K2", "K3"), constructor_function, "the parsing constructor")
    k2_k3(ctx, K)       # the parsing constructor applies requoters (not the escaping quoters) to the text it cuts out
    k1(ctx, K, only={"_url.encode_url"})
    # a string whose dot segments stand under no authority is canonical: the constructor removes them only under one
    claim_in(ctx, ("ORD2",), constructor_function, "the parsing constructor")
    order.ord2(ctx, K)
    # the authority is re-assembled by the constructor: printer and splitter must be inverse, port 0 is not "absent"
    template.tpl2(ctx)
    port.sh5(ctx)
    ctx.extra["exhaustive_tables"] = {f"{b}:{n}": {"literal": "".join(sorted(p["literal"])), "decodable": "".join(sorted(p["decodable"]))}
                                      for b, d in pols.items() for n, p in d.items()}
    from ..rules import port as _port
    _port.prt3(ctx)        # a canonical port (0..65535, decimal) is accepted: the range check is exact
    from ..rules import host as _host
    _host.h4(ctx)          # a canonical registered name comes back whole: the encoder folds case, it does not drop characters
