"""C06 - decoded views are faithful and supplied values read back unchanged."""
from ..rules.quoters import PyQuoter, configurations, inner_quoters
from ..rules.unquoters import QS_DELIMS, Unquoter
from ..rules.kindrules import k1, k2_k3, k4, make_kinds
from ..rules import tables
from .common import quoter_audits

META = {}


def run(ctx):
    ctx.explanation = (
        "Static analysis. Decided: (EM-PYU/EM-CU) in both unquoters decoded text is appended raw only when it is not a "
        "query delimiter under qs, not in `unsafe` and not in `ignore`; '+' becomes space only under qs; everything else "
        "is a verbatim slice of the input or re-quoted; (T8) the four unquoter configurations match the accessors' "
        "contract (path: '+' unsafe; path_safe: '/' and '%' ignored; query_string: the only qs reader); (K4) each decoded "
        "accessor applies that unquoter to the raw text of its own component; (K2/T4) the write side uses non-requoting "
        "quoters that escape '%' (and '+ & = ;' for query pairs) and, in both implementations, write every character as its UTF-8 escapes (shared quoter audit); the re-quoter "
        "used for query delimiters escapes '+ = & ;'. (IM13, decoded keys) no function writes a decoded view into the cache of a URL it did not create. (PQ-TAINT) the pairs behind .query are never pre-filled with a caller-supplied query object that did not pass a serialiser. Not decided: the slice arithmetic that flushes a broken UTF-8 run.")
    model = ctx.model
    cfgs = configurations(model)
    # the write side ("supplied text reads back unchanged") goes through both quoters: the shared audit, with the rules that
    # are conditions of this property (common.AUDIT_CLAIMS)
    quoter_audits(ctx, ch2=False)
    pq = PyQuoter(ctx, model)       # policies of the pure-Python quoter for the table checks below (audited just above)
    from ..rules.unquoters import pending_flush
    pending_flush(ctx, model, "pyx")       # no emission of the compiled unquoter overtakes the pending multi-byte buffer
    for b in ("py", "pyx"):
        u = Unquoter(ctx, model, b)
        u.audit()
        inner, _ = inner_quoters(model, u.mod)
        ctx.rule("T8", floor=2, what="unquoter configurations and their inner re-quoters")
        for site in u.sites:
            if site["cls"] == "REQUOTED" and site.get("qs_branch"):
                ctx.instance("T8")
                pol = pq.policy(inner[site["quoter"]])
                bad = pol["literal"] & QS_DELIMS
                ctx.ob("T8", u.qual, f"re-quoter self.{site['quoter']} for decoded query delimiters", not bad,
                       f"decoded {''.join(sorted(bad))!r} would be written back literally by the re-quoter (changes the pair structure)",
                       sample="'+=&;' are escaped by the qs re-quoter")
    K = make_kinds(model)
    k4(ctx, K)
    k2_k3(ctx, K)
    k1(ctx, K)      # supplied decoded text reaches its slot through exactly one quoter of that role
    from ..rules import immut as _immut
    # a decoded view planted in the cache of a URL the writer did not create (the memoised constructors hand one object to every
    # caller) is not the accessor's own decoding of that URL's raw component
    _immut.im13(ctx, only_keys=("user", "password", "path", "path_safe", "parts", "name", "suffix", "query", "query_string", "fragment", "_parsed_query"))
    from ..rules.pickle import pq_taint
    pq_taint(ctx)   # .query is parsed from the stored text: nobody pre-fills its pairs with the caller's query object as supplied
    # the write side: quoters that receive decoded text escape '%' (and the pair quoter '+ & = ;')
    for name, (cls, cfg) in cfgs.items():
        if cls == "_Quoter" and not cfg["requote"]:
            tables.check_policy(ctx, "py", name, cfg, pq.policy(cfg), {"pct"})
    tables.check_policy(ctx, "py", "QUERY_PART_QUOTER", cfgs["QUERY_PART_QUOTER"][1], pq.policy(cfgs["QUERY_PART_QUOTER"][1]), {"upper", "term"})
    # T8: configurations against the statement
    want = {"PATH_UNQUOTER": dict(unsafe_has="+", qs=False), "PATH_SAFE_UNQUOTER": dict(unsafe_has="+", ignore_has="/%", qs=False),
            "UNQUOTER": dict(qs=False), "QS_UNQUOTER": dict(qs=True)}
    for name, (cls, cfg) in cfgs.items():
        if cls != "_Unquoter":
            continue
        ctx.instance("T8")
        w = want.get(name)
        if w is None:
            ctx.note(f"unquoter {name} has no oracle entry")
            continue
        # `ignore` is exactly the set of escapes the accessor promises to keep (path_safe: %2F, %25; nothing elsewhere);
        # `unsafe` re-escapes literal characters: only '+' outside queries, where it changes nothing
        ok = cfg["qs"] == w["qs"] and set(w.get("unsafe_has", "")) <= set(cfg["unsafe"]) and \
            set(cfg["ignore"]) == set(w.get("ignore_has", "")) and \
            set(cfg["unsafe"]) <= (set("+") if not cfg["qs"] and name != "UNQUOTER" else set())
        ctx.ob("T8", f"_quoters.{name}", f"configuration {cfg}", ok,
               f"unquoter configuration {cfg} does not match the accessor contract {w}", sample=str(cfg))
    from ..rules import flow
    flow.f_build_args(ctx)      # a supplied user / password / host / port is never dropped by the builders
    flow.f_sink(ctx)            # ... and what the builders and modifiers hand to the constructor is what is stored
    # a supplied value reads back unchanged only if the modifier stores it: `return self` short-cuts never rest on comparing the
    # text as supplied with an encoded component
    flow.f_self(ctx, K, methods={"with_user", "with_password", "with_path", "with_name", "with_suffix", "with_fragment", "with_query",
                                 "__truediv__", "joinpath", "_make_child"})
    from ..rules.immut import im9
    im9(ctx)        # a decoded view is a function of its raw component only: the shared unquoter instances keep no state between calls
