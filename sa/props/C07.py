"""C07 - parsing is the RFC 3986 decomposition of the input (decided part: delimiter table, strip sets, flow)."""
from ..rules import flow, parser
from ..rules.kindrules import make_kinds

META = {}


def run(ctx):
    ctx.explanation = (
        "Static analysis. Decided: (T11) exactly chr(0)..chr(0x20) are stripped, from the left only, and TAB/CR/LF removed; "
        "(B2) the search direction of every delimiter - scheme at the first ':', authority ended by the earliest of '/', "
        "'?', '#' (each terminator set contains every delimiter that is present), fragment at the first '#' before the "
        "query at the first '?', userinfo at the last '@', password at the first ':' of the userinfo, port after ']' or at "
        "the first ':' - classified semantically (partition/find/split(.,1) = first, r* = last; unknown idioms are exit 2); "
        "(B3) every component split_url returns is a substring of the cleaned input, the scheme lower-cased - no rewriting step between the cut and the return; (F1-ENC) encoded=True stores the split parts by identity. (SH5) port 0 is not treated as absent where the authority is split or assembled. Not decided: equality with the RFC decomposition for all "
        "strings; (TPL1) for every class of parts the splitter can produce, the printed form decomposes (Appendix B) into the same parts.")
    parser.t11(ctx)
    parser.split_url_table(ctx)
    parser.split_url_verbatim(ctx)
    parser.split_netloc_table(ctx)
    parser.split_netloc_verbatim(ctx)
    parser.pre_encoded_identity(ctx)
    flow.f2(ctx, make_kinds(ctx.model))     # str() re-composes the authority from the raw accessors (bracketed host, raw userinfo)
    # ... and a written port 0 is part of the authority: the helpers that split and assemble it never test a port for truthiness
    from ..rules import port
    from .common import authority_function, claim_in
    claim_in(ctx, ("SH5",), authority_function, "the functions that split and assemble the authority")
    port.sh5(ctx)
    # "the raw accessors re-compose to str(url)": what the printer emits for parts the splitter can produce decomposes into those parts
    from ..rules import template
    template.tpl1(ctx, parse_reachable_only=True)
    template.acc_pq(ctx)        # raw_path_qs is raw_path + '?' + raw_query_string for every class of parts
