"""C05 - pure-Python and compiled quoters are interchangeable."""
from ..rules import tables
from ..rules.unquoters import Unquoter
from ..rules.quoters import configurations, inner_quoters
from .common import quoter_audits

META = {}


def run(ctx):
    ctx.explanation = (
        "Static analysis (sibling cross-check). Decided: both quoters and both unquoters satisfy the same emission "
        "contract, checked by the same rule code on the .py ast and on the Cython-parsed .pyx; the per-configuration "
        "policies derived from the two implementations (literal set, decodable set, '+' handling, escape handling) are "
        "equal for all nine configurations (T7); constructor keywords/defaults agree in .py, .pyx and .pyi; look-ahead "
        "reads are bounded (LA); a consumed unit is never dropped silently (CH2). Not decided: extensional equality on "
        "all strings (look-ahead scanner vs byte state machine).")
    pols, cfgs = quoter_audits(ctx)
    ctx.rule("T7", floor=9, what="derived policies of the two backends agree")
    for name in pols["py"]:
        tables.check_siblings(ctx, name, cfgs[name][1], pols["py"][name], pols["pyx"][name])
    for b in ("py", "pyx"):
        Unquoter(ctx, ctx.model, b).audit()
    ip, mp = inner_quoters(ctx.model, "_quoting_py")
    ic, mc = inner_quoters(ctx.model, "_quoting_c")
    ctx.instance("T7")
    ctx.ob("T7", "_Unquoter.__init__", "inner re-quoters and stored options", ip == ic and mp == mc,
           f"unquoter constructors differ: py {ip} {mp} vs pyx {ic} {mc}", sample="same inner quoters, same options")
    pyi_check(ctx)


def pyi_check(ctx):
    import ast, os
    from ..model import AnalysisError
    p = os.path.join(ctx.model.repo, "yarl", "_quoting_c.pyi")
    if not os.path.exists(p):
        raise AnalysisError("anchor vanished: yarl/_quoting_c.pyi")
    tree = ast.parse(open(p).read())
    for cls in ("_Quoter", "_Unquoter"):
        stub = None
        for n in tree.body:
            if isinstance(n, ast.ClassDef) and n.name == cls:
                for f in n.body:
                    if isinstance(f, ast.FunctionDef) and f.name == "__init__":
                        stub = [a.arg for a in f.args.kwonlyargs]
        py = [a.arg for a in ctx.model.func(f"_quoting_py.{cls}.__init__").node.args.kwonlyargs]
        cy = [a.arg for a in ctx.model.func(f"_quoting_c.{cls}.__init__").node.args.kwonlyargs]
        ctx.instance("T7")
        ctx.ob("T7", f"{cls}.__init__", "keyword-only parameters in .py / .pyx / .pyi", py == cy == stub,
               f"constructor keywords differ: py {py}, pyx {cy}, pyi {stub}", sample=str(py))
