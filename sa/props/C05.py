"""C05 - pure-Python and compiled quoters are interchangeable."""
from ..rules import tables
from ..rules.unquoters import Unquoter
from ..rules.quoters import configurations, inner_quoters
from .common import quoter_audits

META = {}


def run(ctx):
    ctx.explanation = (
        "Static analysis (sibling cross-check). Decided: both quoters and both unquoters satisfy the same emission "
        "contract, checked by the same rule code on the .py ast and on the Cython-parsed .pyx; the per-configuration "
        "policies derived from the two implementations (literal set, decodable set, '+' handling, escape handling) are "
        "equal for all nine configurations (T7); constructor keywords/defaults agree in .py, .pyx and .pyi; look-ahead "
        "reads are bounded (LA); a consumed unit is never dropped silently (CH2). (PX9) a code unit of the text reaches a narrower C type only under a bound. Not decided: extensional equality on "
        "all strings (look-ahead scanner vs byte state machine).")
    pols, cfgs = quoter_audits(ctx)
    ctx.rule("T7", floor=9, what="derived policies of the two backends agree")
    for name in pols["py"]:
        tables.check_siblings(ctx, name, cfgs[name][1], pols["py"][name], pols["pyx"][name])
    from ..rules.unquoters import pending_flush
    pending_flush(ctx, ctx.model, "pyx")   # the compiled unquoter holds incomplete sequences in a byte buffer: no emission overtakes it
    for b in ("py", "pyx"):
        Unquoter(ctx, ctx.model, b).audit()
    ip, mp = inner_quoters(ctx.model, "_quoting_py")
    ic, mc = inner_quoters(ctx.model, "_quoting_c")
    ctx.instance("T7")
    ctx.ob("T7", "_Unquoter.__init__", "inner re-quoters and stored options", ip == ic and mp == mc,
           f"unquoter constructors differ: py {ip} {mp} vs pyx {ic} {mc}", sample="same inner quoters, same options")
    pyi_check(ctx)
    drop_stage(ctx)
    from ..rules import pyxres
    pyxres.px9(ctx)     # the compiled scanner compares whole code points, as the pure-Python one does (no silent C narrowing)
    from ..rules.immut import im9
    im9(ctx)        # neither implementation may keep per-instance state between calls (the other one does not)


def pyi_check(ctx):
    import ast, os
    from ..model import AnalysisError
    p = os.path.join(ctx.model.repo, "yarl", "_quoting_c.pyi")
    if not os.path.exists(p):
        raise AnalysisError("anchor vanished: yarl/_quoting_c.pyi")
    tree = ast.parse(open(p).read())
    for cls in ("_Quoter", "_Unquoter"):
        stub = None
        for n in tree.body:
            if isinstance(n, ast.ClassDef) and n.name == cls:
                for f in n.body:
                    if isinstance(f, ast.FunctionDef) and f.name == "__init__":
                        stub = [a.arg for a in f.args.kwonlyargs]
        py = [a.arg for a in ctx.model.func(f"_quoting_py.{cls}.__init__").node.args.kwonlyargs]
        cy = [a.arg for a in ctx.model.func(f"_quoting_c.{cls}.__init__").node.args.kwonlyargs]
        ctx.instance("T7")
        ctx.ob("T7", f"{cls}.__init__", "keyword-only parameters in .py / .pyx / .pyi", py == cy == stub,
               f"constructor keywords differ: py {py}, pyx {cy}, pyi {stub}", sample=str(py))


def drop_stage(ctx):
    """DROP: both quoters must drop unencodable units (lone surrogates) at the same stage. The pure-Python one drops them
    before scanning (`encode(errors="ignore")`), so an escape window never sees them; a scanner that drops them only while
    writing sees '%' + surrogate + hex digits as a malformed escape."""
    from ..interp import analyze
    from ..report import where
    from ..terms import show, walk
    m = ctx.model
    rule = "DROP"
    ctx.rule(rule, floor=1, what="unencodable units are dropped at the same stage in both quoters")
    py = m.func("_quoting_py._Quoter.__call__")
    r = analyze(m, py)
    pre = False
    for e in r.by_kind("call"):
        if e.func[0] == "attr" and e.func[2] == "encode" and e.func[1] == ("param", "val") and ("errors", ("const", "ignore")) in e.kwargs:
            pre = True
    cy = m.func("_quoting_c._write_utf8")
    rc = analyze(m, cy)
    in_scan = any(v == ("const", 0) and not any("_write_pct" in show(k) for k in s.facts) for s, v, _n in rc.returns)
    cq = m.func("_quoting_c._Quoter._do_quote")
    pre_c = any(e.func[-1] in ("PyUnicode_AsEncodedString", "encode") for e in analyze(m, cq).by_kind("call"))
    py_stage = "before scanning" if pre else "while scanning"
    cy_stage = "before scanning" if pre_c else ("while writing" if in_scan else "never")
    ctx.instance(rule)
    ctx.ob(rule, "_quoting_c._write_utf8", f"lone surrogates dropped {cy_stage} (pure-Python: {py_stage})", py_stage == cy_stage,
           f"the compiled quoter drops unencodable units {cy_stage}, the pure-Python quoter {py_stage}: for '%' followed by a "
           "lone surrogate and two hex digits the escape look-ahead of the compiled scanner sees the surrogate, the byte state "
           "machine does not", where(cy, cy.node), sample=f"both {py_stage}")
