"""Shared building blocks of the property checks."""
from __future__ import annotations

from ..rules.quoters import PyQuoter, configurations
from ..rules.quoter_pyx import CQuoter
from ..rules import tables

_memo = {}


# Which properties each rule of the shared quoter audit is a necessary condition of. The audit always runs whole (its rules
# feed each other); a failing obligation of a rule is a violation only of the properties listed for it.
AUDIT_CLAIMS = {
    # every written byte is a guarded literal / validated escape / %XX, escapes decoded only under safe and not protected
    "EM-PYQ": "C01 C02 C03 C04 C05 C06 C12", "EM-CQ": "C01 C02 C03 C04 C05 C06 C12",
    "EM-PYQ-RETURN": "C01 C02 C03 C04 C05 C06 C12", "EM-CQ-RETURN": "C01 C02 C03 C04 C05 C06 C12",
    # no input unit is skipped or consumed twice: the decoded value is preserved
    "EM-PYQ-PROGRESS": "C02 C04 C05 C06 C12", "EM-CQ-PROGRESS": "C02 C04 C05 C06 C12",
    "EM-PYQ-REWIND": "C01 C02 C04 C05", "EM-PYQ-WINDOW": "C01 C02 C04 C05", "EM-CQ-ADVANCE": "C01 C02 C04 C05",
    # the bytes written for a code point are its UTF-8 encoding; only surrogates are written as nothing (EM-UTF8-DROP),
    # and all of them are, as in the sibling (EM-UTF8-SURR)
    "EM-UTF8": "C02 C05 C06 C12", "EM-UTF8-DROP": "C02 C05 C06 C12", "EM-UTF8-SURR": "C05",
    # the `changed` flag: lower-case escapes are re-emitted upper-case, dropped units are noticed
    "CH1": "C01 C05", "CH2": "C01 C05",
    # the identity fast path is taken only for text made of literal-safe characters
    "CH1-SKIP": "C01 C02 C05 C06 C12",
    # the hex digit encoder is upper-case; the decoder accepts exactly the hex digits
    "T13": "C01 C03 C04 C05", "T14": "C01 C02 C04 C05 C06",
    "LA": "C01 C03 C05 C06 C19",
    # the byte writer itself keeps the contract the emission audits assume (unit stored, changed flag accumulated on every path)
    "EM-CQ-WRITER": "C01 C05",
}


def quoter_audits(ctx, backends=("py", "pyx"), ch2=True):
    """Run the emission audits (obligations go to ctx) and return {backend: {name: policy}}, configs."""
    model = ctx.model
    ctx.outside = {r: "a condition of " + ps.replace(" ", ", ") for r, ps in AUDIT_CLAIMS.items() if ctx.prop not in ps.split()}
    cfgs = configurations(model)
    ctx.rule("T1", floor=13, what="quoter/unquoter configurations in use")
    ctx.instance("T1", len(cfgs))
    out = {}
    if "py" in backends:
        pq = PyQuoter(ctx, model)
        pq.audit()
        out["py"] = {n: pq.policy(c) for n, (cls, c) in cfgs.items() if cls == "_Quoter"}
        pq.fast_paths(cfgs, out["py"])
    if "pyx" in backends:
        cq = CQuoter(ctx, model)
        cq.audit(ch2=ch2)
        cfgs_c = configurations(model, "_quoting_c")
        if cfgs_c != cfgs:
            diff = [n for n in cfgs if cfgs.get(n) != cfgs_c.get(n)]
            ctx.ob("T7", "_quoting_c._Quoter.__init__", "constructor defaults", False,
                   f"constructor defaults differ between backends for {diff}")
        out["pyx"] = {n: cq.policy(c) for n, (cls, c) in cfgs_c.items() if cls == "_Quoter"}
    return out, cfgs


def table_checks(ctx, pols, cfgs, parts):
    for r, fl in (("T3-upper", 9), ("T3-lower", 5), ("T4", 9), ("T5", 9), ("T6", 9), ("T-stable", 9), ("T-plus", 9)):
        pass
    for backend, byname in pols.items():
        for name, pol in byname.items():
            tables.check_policy(ctx, backend, name, cfgs[name][1], pol, parts)
        if "stable" in parts:
            tables.check_fixpoint(ctx, backend, byname)


PATH_FUNCS = {"with_path", "with_name", "with_suffix", "_with_raw_name", "joinpath", "__truediv__", "_make_child", "parent", "raw_parts",
              "parts", "raw_name", "name", "raw_suffix", "suffix", "raw_suffixes", "suffixes", "raw_path", "path", "path_safe"}


def claim_in(ctx, rules, pred, why):
    """The K rules look at every function of the package; a property whose statement is about some of them claims a
    finding only there (a double-quoted password is C02/C11's, not the path algebra's)."""
    sc = getattr(ctx, "scope", None) or {}
    for r in rules:
        sc[r] = (pred, why)
    ctx.scope = sc


def path_function(q):
    return q.startswith("_path.") or (q.startswith("_url.URL.") and q.rsplit(".", 1)[1] in PATH_FUNCS) or q in ("_url.URL.join",)


def authority_function(q):
    """Functions that cut the authority apart, assemble it, or derive its parts lazily (parser, printer helper, the cached split)."""
    return q.startswith("_parse.") or constructor_function(q) or q.rsplit(".", 1)[-1] == "_cache_netloc"


def constructor_function(q):
    return q in ("_url.encode_url", "_url.pre_encoded_url", "_url.URL.__new__", "_url.from_parts", "_url.from_parts_uncached") or \
        q.startswith("_parse.split_")
