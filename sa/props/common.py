"""Shared building blocks of the property checks."""
from __future__ import annotations

from ..rules.quoters import PyQuoter, configurations
from ..rules.quoter_pyx import CQuoter
from ..rules import tables

_memo = {}


def quoter_audits(ctx, backends=("py", "pyx"), ch2=True):
    """Run the emission audits (obligations go to ctx) and return {backend: {name: policy}}, configs."""
    model = ctx.model
    cfgs = configurations(model)
    ctx.rule("T1", floor=13, what="quoter/unquoter configurations in use")
    ctx.instance("T1", len(cfgs))
    out = {}
    if "py" in backends:
        pq = PyQuoter(ctx, model)
        pq.audit()
        out["py"] = {n: pq.policy(c) for n, (cls, c) in cfgs.items() if cls == "_Quoter"}
    if "pyx" in backends:
        cq = CQuoter(ctx, model)
        cq.audit(ch2=ch2)
        cfgs_c = configurations(model, "_quoting_c")
        if cfgs_c != cfgs:
            diff = [n for n in cfgs if cfgs.get(n) != cfgs_c.get(n)]
            ctx.ob("T7", "_quoting_c._Quoter.__init__", "constructor defaults", False,
                   f"constructor defaults differ between backends for {diff}")
        out["pyx"] = {n: cq.policy(c) for n, (cls, c) in cfgs_c.items() if cls == "_Quoter"}
    return out, cfgs


def table_checks(ctx, pols, cfgs, parts):
    for r, fl in (("T3-upper", 9), ("T3-lower", 5), ("T4", 9), ("T5", 9), ("T6", 9), ("T-stable", 9), ("T-plus", 9)):
        pass
    for backend, byname in pols.items():
        for name, pol in byname.items():
            tables.check_policy(ctx, backend, name, cfgs[name][1], pol, parts)
        if "stable" in parts:
            tables.check_fixpoint(ctx, backend, byname)
