"""C16 - hosts are stored in one canonical form and hostile hosts are rejected."""
from ..rules import flow, host
from ..rules.kindrules import make_kinds

META = {}


def run(ctx):
    ctx.explanation = (
        "Static analysis. Decided: (H1) every return path of the host encoder, including the IDNA fallback, is lower-case "
        "by construction (zone ids exempt); (H2) brackets are added iff ':' is in the host, with one predicate at every "
        "site; (H3) build(host=) and with_host() validate; (T9) the reg-name pattern is exactly the complement of the "
        "lower-case RFC 3986 reg-name grammar plus the pct-encoded look-ahead; (ORD3) it is applied to lower-cased text; "
        "(ORD5) the NFKC delimiter screen covers '/?#@:' and is reached on every route a non-ASCII authority can take, and "
        "with validation the pattern sees the encoded result. Not decided: IDNA correctness/idempotence (library), the "
        "NFKC expansion table (Unicode data).")
    host.h1(ctx)
    host.h2(ctx)
    host.h3(ctx)
    host.h4(ctx)
    host.h5(ctx)
    host.h6(ctx)
    host.h7(ctx)
    host.t9(ctx)
    host.ord3_ord5c(ctx)
    host.ord5(ctx)
    K = make_kinds(ctx.model)
    flow.f_self(ctx, K, methods={"with_host"})      # with_host() never skips validation/encoding because the text equals the stored host
    flow.f2(ctx, K)     # every route that re-assembles the authority (str() included) uses the bracketed host
