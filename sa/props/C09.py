"""C09 - eager and lazy component computation agree; pickling is lossless."""
from ..rules.cmp import cmp_rules
from ..rules.pickle import pk1, sh4
from ..shape import Shapes

META = {}


def run(ctx):
    ctx.explanation = (
        "Static analysis. Decided: (PK1) __slots__ minus the cache = the fields of the pickled tuple = the unpack targets "
        "of __setstate__ in the same order, with the cache reset; == and hash read only those fields (CMP tables); (SH4) "
        "for each cache entry the parsing constructor pre-fills, the lazy definition of that accessor is evaluated at the "
        "constructor's exit with the slots bound to what was stored, and must give the same term or an overlapping shape "
        "over {None, empty, non-empty} x {None, 0, non-zero}. (SH4-BRACKET) every raw_host entry written outside the lazy filler - in the parser, a classmethod constructor or a modifier - is not the bracketed form the host encoder returns for IPv6 literals. (PQ-TAINT) no function of _url stores a caller-supplied query object under '_parsed_query' without a serialiser (the query helpers, quoters, parse_qsl, str) in between. (SH5) the authority helpers tell port 0 from an absent port. Not decided: value equality beyond that abstraction.")
    fields = pk1(ctx)
    # the comparison audit runs whole; what it says about the ordering operators is a condition of C10, not of this property
    ctx.outside = {"CMP2": "a condition of C10", "CMP4": "a condition of C10"}
    table = cmp_rules(ctx)
    ctx.rule("PK1")
    ctx.instance("PK1")
    if table is not None:       # (None: cmp_rules already reported that the key is not a function of the stored fields)
        used = {t[2] for cell in table.values() for c in cell for t in [c] if t[0] == "attr"}
        ctx.ob("PK1", "_url.URL.__eq__", "fields compared", used <= set(fields),
               f"== reads {sorted(used - set(fields))}, which are not part of the pickled state", sample=str(sorted(used)))
    sh4(ctx, Shapes(ctx.model))
    from ..rules.pickle import sh4_bracket
    from ..rules.pickle import pq_taint
    pq_taint(ctx)       # a pre-filled '_parsed_query' is computed from text, never the caller's query object as supplied
    sh4_bracket(ctx)    # wherever raw_host is pre-filled (parser, build, a modifier) it is the bracket-free host the lazy splitter would give
    from ..rules import immut
    immut.im11(ctx)     # a copy / derived URL never inherits cache entries computed for another URL
    immut.im13(ctx)     # nobody writes into the cache of a URL it did not create (shared, memoised objects)
    # port 0 written by the parser's printer must be the port 0 the parser cached: a truthiness test in the authority helpers
    # stores a netloc without ':0' next to a pre-filled explicit_port of 0
    from ..rules import port
    from .common import authority_function, claim_in
    claim_in(ctx, ("SH5",), authority_function, "the functions that split and assemble the authority")
    port.sh5(ctx)
    from ..rules import parser
    parser.split_netloc_verbatim(ctx)       # the splitter the parser and the lazy accessors share only cuts: applying it twice changes nothing
    immut.im16(ctx)     # every cached property stores under its own name: a pickled/copied twin cannot read another property's value
