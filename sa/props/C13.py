"""C13 - path operations compose like a path algebra (decided part: encoding and flow)."""
from ..rules import flow, order
from ..rules import shape_rules as sr
from ..rules.kindrules import k1, k2_k3, k_mix, k_req, k_roundtrip, make_kinds
from ..shape import Shapes

META = {"note": "decides that new segment text is quoted exactly once and existing encoded path text is never re-quoted, that "
                "/ and joinpath share one implementation, the component matrix of the path modifiers and the indexing safety "
                "of the part arithmetic; the algebraic equalities between spellings are not decided"}
PATH_METHODS = ["with_path", "with_name", "with_suffix", "__truediv__", "joinpath", "_make_child", "parent"]


def run(ctx):
    ctx.explanation = (
        "Static analysis. Decided: (K2/K-REQ) new path text meets the non-requoting path quoter exactly once and the "
        "existing encoded path / name is never passed to a quoting parameter (with_suffix splices onto the raw name); "
        "(K1) every path sink receives path-encoded text; (F1) scheme and authority flow by identity and query/fragment "
        "are cleared or kept by flag; `/` and joinpath reach the same helper with the same default; (SH1) the part "
        "indexing cannot fail. Not decided: the equalities between the alternative spellings.")
    K = make_kinds(ctx.model)
    from .common import claim_in, path_function
    claim_in(ctx, ("K1", "K2", "K3", "K-REQ", "K-MIX", "K-RT"), path_function, "the path operations and their helpers")
    k1(ctx, K)
    k2_k3(ctx, K)
    k_req(ctx, K)
    k_mix(ctx, K)
    k_roundtrip(ctx, K)
    flow.f1(ctx, PATH_METHODS)
    flow.f_defaults(ctx)
    same_helper(ctx)
    order.flag_accumulates(ctx)     # joinpath(a, b) == joinpath(a).joinpath(b): every argument's dots are seen
    m = ctx.model
    fs = [m.func(f"_url.URL.{n}") for n in PATH_METHODS + ["raw_parts", "raw_name", "raw_suffix", "raw_suffixes", "name", "parts", "suffix", "suffixes"]]
    sr.sh1(ctx, Shapes(m), fs, floor=8)


def same_helper(ctx):
    """u / s and u.joinpath(s) call the same helper; `/` uses the helper's default for `encoded` (False)."""
    from ..interp import analyze
    from ..report import where
    from ..terms import show
    m = ctx.model
    rule = "F-DIV"
    ctx.rule(rule, floor=1, what="`/` and joinpath share one implementation")
    callees = {}
    for name in ("__truediv__", "joinpath"):
        fi = m.func(f"_url.URL.{name}")
        r = analyze(m, fi)
        cs = set()
        for s, v, _n in r.returns:
            if v[0] == "call" and v[1][0] == "attr" and v[1][1] == ("param", "self"):
                enc = dict(v[3]).get("encoded", v[2][1] if len(v[2]) > 1 else None)
                cs.add((v[1][2], show(enc) if enc else "default"))
        callees[name] = cs
    ctx.instance(rule)
    helper_div = {c for c, _e in callees["__truediv__"]}
    helper_jp = {c for c, _e in callees["joinpath"]}
    default = m.func("_url.URL._make_child").param_default("encoded") if m.has_func("_url.URL._make_child") else None
    # `/` quotes its operand: the helper's default (False) or an explicit False
    div_false = all(e == "False" or (e == "default" and getattr(default, "value", None) is False) for _c, e in callees["__truediv__"])
    ok = helper_div == helper_jp and len(helper_div) == 1 and div_false and all(e == "encoded" for _c, e in callees["joinpath"])
    ctx.ob(rule, "_url.URL.__truediv__", f"helpers {sorted(callees['__truediv__'])} / {sorted(callees['joinpath'])}", ok,
           "`/` and joinpath() do not reach the same helper with encoded=False by default", sample="both -> _make_child, encoded default False")
    # ... and the helper receives the operands as they were given, one element per operand, on every path: joinpath(a, b) is
    # joinpath(a).joinpath(b) only if the per-element handling (trailing empty segment, leading slash) sees each element
    jp = m.func("_url.URL.joinpath")
    va = jp.node.args.vararg.arg if jp.node.args.vararg else None
    rj = analyze(m, jp)
    ctx.instance(rule)
    handed = [v[2][0] for _s, v, _n in rj.returns if v[0] == "call" and v[1][0] == "attr" and v[1][1] == ("param", "self") and v[2]]
    ok2 = va is not None and bool(handed) and all(h == ("param", va) for h in handed)
    ctx.ob(rule, jp.qual, "operands handed to the helper", ok2,
           f"joinpath() re-packs its operands before the helper sees them ({[show(h)[:40] for h in handed if h != ('param', va)][:2]}): the helper's "
           "per-operand rules no longer apply to each operand, so joinpath(a, b) and joinpath(a).joinpath(b) differ", where(jp, jp.node),
           sample="the *args tuple itself")
    from ..rules import flow as _flow
    _flow.f_sink(ctx)       # the path every operation computed is the path the result stores
    # the path accessors the algebra is stated over read the stored path: a constructor that pre-fills one of them stores what the
    # accessor itself would compute (a pre-filled raw_path of '/' next to raw_parts ('',) breaks "raw_parts re-compose to raw_path")
    from ..rules.pickle import sh4
    from ..shape import Shapes
    sh4(ctx, Shapes(ctx.model), only_keys=("raw_path", "path", "path_safe", "raw_parts", "parts", "raw_name", "name", "raw_suffix", "suffix",
                                           "raw_suffixes", "suffixes"))
