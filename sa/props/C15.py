"""C15 - dot segments are removed exactly when an authority is present."""
from ..rules import flow, order
from ..rules import shape_rules as sr
from ..rules.kindrules import make_kinds
from ..shape import Shapes

META = {}


def run(ctx):
    ctx.explanation = (
        "Static analysis. Decided: (ORD2) at the constructor, build, with_path and the child-path helper, newly quoted path "
        "text is stored un-normalised only when no authority is present or the quoted text contains no '.', and the "
        "normaliser runs only under an authority (F3) join() removes the dot segments of the merged path on every path where the reference has a path, exactly when it contains '.'; the dot test is "
        "literally '.'; (ORD1) the normaliser always receives quoted text, so %2E spellings are seen; (EM-NORM) for all "
        "segment sequences the resolver never appends '.' or '..', and normalize_path keeps the root only for rooted "
        "paths; (EX5) popping above the root is suppressed. Not decided: equality with RFC 3986 5.2.4 (pop discipline, "
        "trailing-slash rule).")
    K = make_kinds(ctx.model)
    order.ord2(ctx, K)
    order.ord2_name(ctx)    # ... and the two modifiers that bypass the normaliser never store a dot segment under an authority
    order.flag_accumulates(ctx)
    flow.f3_join(ctx, only={"dots"})      # join(): the merged path is normalised on every path that merges
    order.ord1(ctx, K)
    order.em_norm(ctx)
    m = ctx.model
    sr.ex_rules(ctx, Shapes(m), [m.func("_path.normalize_path_segments"), m.func("_path.normalize_path")])
    ctx.rules["EX1"]["floor"] = 0
