"""C01 - canonical output is well-formed ASCII in every component (decided part: see DESIGN.md 4.C01)."""
from ..rules import queryvar
from ..rules.kindrules import k1, k5, make_kinds
from .C12 import roles
from .common import quoter_audits, table_checks


def run(ctx):
    ctx.explanation = (
        "Static analysis. Decided: (T2/T3/T4/T6) for each of the nine quoter configurations and both backends the "
        "set of characters that can be emitted literally, derived from the guards dominating the emission sites, "
        "is within the RFC 3986 set of its component and never contains '%' or space; (EM) every byte appended to "
        "a quoter's output is a guarded literal, a validated upper-case escape or %XX of a byte, and the result is "
        "ASCII-decoded; (CH2) the compiled quoter cannot drop a unit and return its input unchanged; (K1/K2/K5/K-REQ/K-PAIR) "
        "every text accepted by the constructor, build, the with_* modifiers, /, joinpath, join and the query operations "
        "reaches a user/password/path/query/fragment slot only through a quoter of that role, exactly once, and "
        "caller-asserted encoding arises only from the documented `encoded` flags. "
        "Not decided: the rewind arithmetic of the escape window; scheme and host positions.")
    pols, cfgs = quoter_audits(ctx)
    table_checks(ctx, pols, cfgs, {"upper", "pct", "term", "plus"})
    K = make_kinds(ctx.model)
    k1(ctx, K)
    # K2/K3/K-REQ (text quoted twice / decoded twice) are not claimed here: the result is still well-formed, they are C02's
    k5(ctx, K)
    queryvar.pair_quoting(ctx, roles(ctx.model))
    from ..rules import flow
    flow.f_defaults(ctx)        # `encoded` defaults to False: unflagged text is always quoted
    ctx.assumptions += ["the compiled .so is built from the analysed .pyx", "CPython ast / Cython 3.0 parser are correct"]
