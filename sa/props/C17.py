"""C17 - port semantics: explicit vs default, zero vs absent."""
from ..rules import port

META = {}


def run(ctx):
    ctx.explanation = (
        "Static analysis. Decided: (T10) the default-port table; (PRT1) on every path of every public entry point a `port` "
        "argument reaches an authority only after `None or (int, not bool, 0..65535)` is established; (PRT2) every "
        "default-port decision is `port == DEFAULT_PORTS.get(own scheme)` and `port` falls back to the scheme default only "
        "when no port is written; (PRT3) the authority splitter converts with int(), range-checks and raises ValueError; "
        "(PRT4) wrong type -> TypeError, out of range -> ValueError; (SH5) a port is never tested for truthiness where "
        "the test controls its use. (PRT5) no caller of the splitter swallows that ValueError. Integer formatting is the runtime's.")
    port.t10(ctx)
    port.prt1(ctx)
    port.prt2(ctx)
    port.prt3(ctx)
    port.prt4(ctx)
    port.sh5(ctx)
    port.prt5(ctx)
    from ..rules import immut
    immut.im13(ctx, only_stale=True)     # `port` / `host_port_subcomponent` read the scheme: a URL with another scheme never inherits them from a cache
