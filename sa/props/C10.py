"""C10 - equality, hashing and ordering are coherent."""
from ..rules.cmp import cmp_rules

META = {}


def run(ctx):
    ctx.explanation = (
        "Static analysis, complete for its question: the key expression of __eq__ (both operands), __hash__ and the four "
        "ordering operators is extracted as a table over the four emptiness cells of (path, authority) - the only way the "
        "code inspects those slots - and the tables must coincide with each other and with the key the statement "
        "prescribes; every dunder returns NotImplemented exactly when `type(other) is not URL`; each ordering dunder "
        "applies its own operator with self on the left. Reflexivity, symmetry and transitivity follow from comparing one "
        "tuple key with the built-in tuple order.")
    cmp_rules(ctx)
    ctx.extra["exhaustive"] = True
