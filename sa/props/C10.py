"""C10 - equality, hashing and ordering are coherent."""
from ..rules import immut
from ..rules.cmp import cmp_rules

META = {}


def run(ctx):
    ctx.explanation = (
        "Static analysis, complete for its question: the key expression of __eq__ (both operands), __hash__ and the four "
        "ordering operators is extracted as a table over the four emptiness cells of (path, authority) - the only way the "
        "code inspects those slots - and the tables must coincide with each other and with the key the statement "
        "prescribes; every dunder returns NotImplemented exactly when `type(other) is not URL`; each ordering dunder "
        "applies its own operator with self on the left. Reflexivity, symmetry and transitivity follow from comparing one "
        "tuple key with the built-in tuple order.")
    cmp_rules(ctx)
    hash_memo(ctx)
    immut.im11(ctx)     # the memoised hash of one URL can never end up in another URL's cache
    # a constructor that pre-fills a comparison key (`_cmp_val`, `_val`, `hash`) stores what the lazy definition computes
    from ..rules.pickle import sh4
    from ..shape import Shapes
    sh4(ctx, Shapes(ctx.model), only_keys=("_cmp_val", "_val", "hash"))
    immut.im13(ctx)     # nobody writes into the cache of a URL it did not create (shared, memoised objects)
    immut.im16(ctx)     # the comparison keys are cached under their own names (no other property's value can be read through them)
    ctx.extra["exhaustive"] = True


def hash_memo(ctx):
    """The hash memo is written only by __hash__, for self, and holds the value just computed from the key tuple."""
    from ..interp import analyze
    from ..report import where
    from ..terms import show
    m = ctx.model
    rule = "CMP-MEMO"
    ctx.rule(rule, floor=1, what="the memoised hash is the hash of the object's own key, stored only by __hash__")
    for fi in m.all_funcs():
        if fi.module != "_url":
            continue
        r = analyze(m, fi)
        seen = set()
        for e in r.by_kind("store_sub"):
            if e.index != ("const", "hash") or id(e.node) in seen:
                continue
            seen.add(id(e.node))
            ctx.instance(rule)
            base = e.base
            while base[0] == "mut":
                base = base[1]
            ok = fi.qual == "_url.URL.__hash__" and base == ("attr", ("param", "self"), "_cache") and \
                e.value[0] == "call" and e.value[1] == ("builtin", "hash")
            ctx.ob(rule, fi.qual, f"{show(base)}['hash'] = {show(e.value)[:50]}", ok,
                   "the hash memo is written outside __hash__, for another object, or with something other than hash(key)",
                   where(fi, e.node), sample="self._cache['hash'] = hash(key tuple)")
    h = m.func("_url.URL.__hash__")
    rh = analyze(m, h)
    for s, v, node in rh.returns:
        ctx.instance(rule)
        cache = ("attr", ("param", "self"), "_cache")
        memo_get = v[0] == "call" and v[1][0] == "attr" and v[1][2] == "get" and v[2] and v[2][0] == ("const", "hash")
        memo_sub = v[0] == "sub" and v[2] == ("const", "hash") and (v[1] == cache or (v[1][0] == "mut" and show(v[1]).startswith("self._cache")))
        ok = (v[0] == "call" and v[1] == ("builtin", "hash")) or memo_get or memo_sub
        ctx.ob(rule, h.qual, f"return {show(v)[:60]}", ok, "__hash__ returns something other than hash(key) or its memo", where(h, node),
               sample="hash(key) or the memo")
