"""C08 - URL values are immutable and results do not depend on history."""
from ..rules import immut

META = {}


def run(ctx):
    ctx.explanation = (
        "Static effect analysis, valid for every call history at once. Decided: (IM1) every store to a URL slot targets an "
        "object created by object.__new__(URL) in the same function, or is __setstate__; (IM2) nothing calls __setstate__ "
        "and the unpickling constructor path creates its object directly, never through a cached constructor; (IM3) the "
        "memoised mutable `_parsed_query` is only handed to copying constructors and `query` is a read-only proxy; (IM4) "
        "every lru_cache function and cached property reads only its key, stores only into fresh objects or constant cache "
        "keys and calls no impure library function; (IM5) cache_configure re-wraps the same functions; (IM6) arguments are "
        "never mutated; (IM7) no bool can alias an int in an untyped cache key; (IM8) no module-level container is "
        "mutated. (IM14) an accessor whose entry a co-filling helper writes returns exactly that entry, so the read order of sibling accessors decides nothing. Not decided: purity of idna / multidict / propcache internals.")
    immut.im1_im2(ctx)
    immut.im3(ctx)
    immut.im4(ctx)
    immut.im5(ctx)
    immut.im6(ctx)
    immut.im7(ctx)
    immut.im8(ctx)
    immut.im9(ctx)
    immut.im11(ctx)
    immut.im13(ctx)     # nobody writes into the cache of a URL it did not create (shared, memoised objects)
    immut.im12(ctx)
    immut.im18(ctx)     # no call removes an entry another call stored
    immut.im16(ctx)     # ... and no two cached properties share one cache key
    immut.im14(ctx)     # a cache key that a helper co-fills has one value, whichever accessor is read first
