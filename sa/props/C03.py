"""C03 - the canonical string is a fixed point of parsing (decided part: premises of idempotence)."""
from ..rules import flow, host, order, port, template
from ..rules.kindrules import make_kinds
from .common import quoter_audits, table_checks

META = {"note": "decides necessary premises of the fixed point (printer/parser agreement over all part classes, terminator-free "
                "and stable quoting tables, quote-before-normalise, lower-casing on every host path, one port-elision and one "
                "bracket predicate); the fixed point itself over all strings and IDNA idempotence are not decided"}


def run(ctx):
    ctx.explanation = (
        "Static analysis of the premises idempotence rests on, each a necessary condition. Decided: (TPL1) for every class "
        "of (scheme, authority, path, query, fragment) - the only things the printer branches on - the printed template, "
        "decomposed with the RFC 3986 Appendix B expression, gives back the same five parts; (TPL2) the authority printer "
        "and splitter are inverse over all presence classes of user/password/host/port; (T6) no quoter can leave a "
        "character literal that ends its component for the parser; (T-stable, T13, EM) a second quoting pass keeps every "
        "literal and every upper-case escape; (ORD1) requoting precedes dot-segment removal; (H1) every host path "
        "lower-cases; (PRT2) one default-port predicate; (H2) one bracket predicate. Not decided: the fixed point itself "
        "over all strings; IDNA idempotence (library).")
    template.tpl1(ctx)
    template.tpl2(ctx)
    pols, cfgs = quoter_audits(ctx, ch2=False)
    table_checks(ctx, pols, cfgs, {"term", "stable", "pct"})
    K = make_kinds(ctx.model)
    order.ord1(ctx, K)
    from ..rules import queryvar
    from .C12 import roles
    queryvar.pair_quoting(ctx, roles(ctx.model))     # query text that is not quoted when it is stored is quoted by the next parse
    order.ord2_name(ctx)    # with_name()/with_suffix() never store a dot segment under an authority (a second parse would remove it)
    order.ord2(ctx, K)      # the dot test looks at the quoted text (a %2E decoded by requoting is seen)
    host.h1(ctx)
    host.h2(ctx)
    port.prt2(ctx)
    flow.f2(ctx, K)     # __str__ re-assembles the authority from the bracketed host and the raw userinfo
