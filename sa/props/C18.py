"""C18 - human_repr() is readable and round-trips (decided part: escape sets and coverage)."""
from ..rules.human import human_rules

META = {"note": "weak but real: decides that each position's escape set contains the delimiters that would change the parse "
                "there, that '%' is always escaped first and rendered %XX, and that every component is rendered with the "
                "explicit port; the round trip over all texts is not decided"}


def run(ctx):
    ctx.explanation = (
        "Static analysis. Decided: (T12) the escape set human_repr passes for user, password, path, query keys/values and "
        "fragment contains every character that would end or split that component for the parser, '%' is escaped before "
        "them and escapes are upper-case %XX; (F5) scheme, user, password, host, explicit port, path, query and fragment "
        "all reach the output. (ORD5) the parser's NFKC screen sets the authority's own '@' and ':' aside, so decoded userinfo shown next to them parses back. Not decided: the round trip and readability over all texts.")
    human_rules(ctx)
    from ..rules import parser as _parser
    _parser.t11(ctx, only_strip=True)      # the round trip needs the parser to keep a trailing blank (printable, shown unescaped)
    from ..rules import host as _host
    _host.ord5_set_aside(ctx)       # ... and to accept the decoded non-ASCII userinfo it shows next to '@' and ':'
    # human_repr() assembles its authority with the shared printer helper: an explicit port 0 must be written (0 is not "absent")
    from ..rules import port as _port
    from .common import authority_function, claim_in
    claim_in(ctx, ("SH5",), authority_function, "the functions that split and assemble the authority")
    _port.sh5(ctx)
