"""Fixed oracle tables. Every entry cites the RFC 3986 clause or the property statement it comes from.
These are the only tables in the checker that are *not* derived from /repo on each run."""
import string

# RFC 3986 section 2.3
UNRESERVED = frozenset(string.ascii_letters + string.digits + "-._~")
# RFC 3986 section 2.2
SUB_DELIMS = frozenset("!$&'()*+,;=")
GEN_DELIMS = frozenset(":/?#[]@")
# RFC 3986 section 3.3
PCHAR = UNRESERVED | SUB_DELIMS | frozenset(":@")
ASCII = frozenset(chr(i) for i in range(128))

# Per role (the URL component a quoter's output is stored in):
#   upper    what MAY be literal: the RFC 3986 set of the component minus the delimiters the parser gives
#            meaning to in that position (B2)                                      [C01]
#   lower    what MUST stay literal for an already-canonical URL (requoters only)  [C04]
#   protect  characters whose escaped and literal forms must both be kept          [C02: '/' in path segments;
#            '&', '=', '+', ';' in queries]
#   keep     sub-delimiters whose escape in an already-canonical URL must be left alone although the statement of C02
#            does not list them: '+' in a path. '%2B' and '+' are different data for every consumer that form-decodes
#            ('+' = space); the package documents "already encoded URL is not changed" and its own path unquoters
#            treat '+' specially (unsafe="+").                                      [C04]
#   term     characters that end the component for the parser (must never be literal)  [C03/C07]
ROLES = {
    # userinfo = *( unreserved / pct-encoded / sub-delims / ":" ); ':' separates user and password, so for the
    # user part ':' must not be literal; the library uses one quoter for both, judged against the user bound.
    "userinfo": dict(upper=UNRESERVED | SUB_DELIMS, lower=UNRESERVED | SUB_DELIMS, protect=frozenset(),
                     term=frozenset(":@/?#")),
    # path = *( "/" segment ), segment = *pchar (3.3)
    "path": dict(upper=PCHAR | {"/"}, lower=PCHAR | {"/"}, protect=frozenset("/"), keep=frozenset("+"), term=frozenset("?#")),
    # query = *( pchar / "/" / "?" ) (3.4)
    "query": dict(upper=PCHAR | frozenset("/?"), lower=PCHAR | frozenset("/?"), protect=frozenset("&=+;"),
                  term=frozenset("#")),
    # a single key or value inside a query: pair delimiters must be escaped (C12: '&', '=', '+', ';', '%', '#')
    "querypart": dict(upper=(PCHAR | frozenset("/?")) - frozenset("&=+;"), lower=None, protect=frozenset(),
                      term=frozenset("&=+;#")),
    # fragment = *( pchar / "/" / "?" ) (3.5)
    "fragment": dict(upper=PCHAR | frozenset("/?"), lower=PCHAR | frozenset("/?"), protect=frozenset(),
                     term=frozenset()),
}

# RFC 3986 Appendix B / section 3.2: which delimiter ends what (B2 of DESIGN.md)
DEFAULT_PORTS = {"http": 80, "https": 443, "ws": 80, "wss": 443, "ftp": 21}   # C17 statement
C0_AND_SPACE = frozenset(chr(i) for i in range(0x21))                        # C07 statement
REMOVED = frozenset("\t\r\n")                                                # C07 statement
NFKC_SCREEN = frozenset("/?#@:")                                             # C16 statement
# reg-name = *( unreserved / pct-encoded / sub-delims ), lower-case only (C16: host is lower-case ASCII)
REG_NAME_LOWER = frozenset(string.ascii_lowercase + string.digits + "-._~") | SUB_DELIMS
