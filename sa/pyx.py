"""Front end for yarl/_quoting_c.pyx: Cython's own parser (Cython 3.0.x from the repository's
environment) -> Python `ast`, so that the same engine analyses both quoter implementations.

Only the parser / declaration front end of Cython is used; nothing is compiled, written or run.
C declarations are dropped from the statement stream but remembered as metadata on the lowered
nodes (`_cy`): cdef-ness, return type, argument and local types, exception spec, nogil.
Type casts `<T>x` are lowered to `x` (the cast type is kept in `node._cast`);
`&x` is lowered to `__addr__(x)`; `sizeof(x)` to `sizeof(x)`; `NULL` to the name `NULL`;
`with nogil:` to `with nogil():`.
"""
from __future__ import annotations

import ast

from .model import AnalysisError


def _import_cython():
    try:
        from Cython.Compiler.TreeFragment import parse_from_strings  # noqa
        import Cython
        return parse_from_strings, Cython.__version__
    except Exception as e:  # pragma: no cover
        raise AnalysisError(f"Cython front end unavailable: {e!r}")


def parse(path):
    parse_from_strings, _ = _import_cython()
    src = open(path, encoding="utf8").read()
    try:
        tree = parse_from_strings("_quoting_c", src)
    except Exception as e:
        raise AnalysisError(f"cannot parse {path}: {e!r}")
    return tree, src


def lower_file(path):
    tree, src = parse(path)
    low = Lower()
    mod = low.module(tree)
    ast.fix_missing_locations(mod)
    mod._cy = low.meta  # type: ignore[attr-defined]
    return mod, src


def type_str(base_type, declarator=None) -> str:
    n = type(base_type).__name__
    if n == "CSimpleBaseTypeNode":
        s = base_type.name
        if getattr(base_type, "signed", 1) == 0 and s in ("int", "char", "short", "long"):
            s = "unsigned " + s
        if getattr(base_type, "longness", 0):
            s = "long " * base_type.longness + s
    elif n == "CConstOrVolatileTypeNode":
        s = ("const " if getattr(base_type, "is_const", False) else "") + type_str(base_type.base_type)
    elif n == "CAnalysedBaseTypeNode":
        s = str(base_type.type)
    else:
        s = n
    d = declarator
    while d is not None:
        dn = type(d).__name__
        if dn == "CPtrDeclaratorNode":
            s += "*"
            d = d.base
        elif dn == "CArrayDeclaratorNode":
            s += "[]"
            d = d.base
        elif dn == "CFuncDeclaratorNode":
            d = d.base
        else:
            break
    return s


def decl_name(d):
    while type(d).__name__ != "CNameDeclaratorNode":
        d = d.base
    return d.name


class Lower:
    def __init__(self):
        self.meta = {"functions": {}, "module_vars": {}, "structs": {}, "classes": {}, "cimports": {}}
        self._cls = None
        self._func_meta = None

    # ------------------------------------------------------------------
    def loc(self, node, cy):
        pos = getattr(cy, "pos", None)
        if pos:
            node.lineno = pos[1]
            node.col_offset = pos[2]
            node.end_lineno = pos[1]
            node.end_col_offset = pos[2]
        return node

    def module(self, tree):
        body = self.stmts(tree.body)
        return ast.Module(body=body, type_ignores=[])

    def stmts(self, node):
        if node is None:
            return []
        n = type(node).__name__
        if n == "StatListNode":
            out = []
            for s in node.stats:
                out.extend(self.stmts(s))
            return out
        m = getattr(self, "s_" + n, None)
        if m is None:
            raise AnalysisError(f"pyx lowering: statement {n} not supported at {getattr(node, 'pos', None)}")
        r = m(node)
        if r is None:
            return []
        if not isinstance(r, list):
            r = [r]
        for x in r:
            self.loc(x, node)
        return r

    def block(self, node):
        b = self.stmts(node)
        return b or [ast.Pass()]

    # -- declarations -----------------------------------------------------
    def s_FromCImportStatNode(self, n):
        for _, name, asname in n.imported_names:
            self.meta["cimports"][asname or name] = n.module_name
        return None

    def s_CImportStatNode(self, n):
        return None

    def s_FromImportStatNode(self, n):
        mod = n.module.module_name.value
        names = [ast.alias(name=name, asname=(tgt.name if tgt.name != name else None)) for name, tgt in n.items]
        return ast.ImportFrom(module=str(mod), names=names, level=n.module.level or 0)

    def s_CStructOrUnionDefNode(self, n):
        fields = {}
        for a in n.attributes or []:
            for d in a.declarators:
                fields[decl_name(d)] = type_str(a.base_type, d)
        self.meta["structs"][n.name] = fields
        return None

    def s_CVarDefNode(self, n):
        out = []
        for d in n.declarators:
            name = decl_name(d)
            ty = type_str(n.base_type, d)
            dd = d
            while dd is not None:
                if type(dd).__name__ == "CArrayDeclaratorNode":
                    dim = getattr(dd, "dimension", None)
                    if type(dim).__name__ == "IntNode":
                        scope = "<function>" if self._func_meta is not None else (self._cls or "<module>")
                        self.meta.setdefault("array_dims", {}).setdefault(scope, {})[name] = int(str(dim.value), 0)
                        if self._func_meta is not None:
                            self._func_meta.setdefault("array_dims", {})[name] = int(str(dim.value), 0)
                dd = getattr(dd, "base", None)
            if self._func_meta is not None:
                self._func_meta["locals"][name] = ty
            elif self._cls is not None:
                self.meta["classes"][self._cls]["attrs"][name] = ty
            else:
                self.meta["module_vars"][name] = ty
            default = getattr(d, "default", None)
            inner = d
            while default is None and getattr(inner, "base", None) is not None:
                inner = inner.base
                default = getattr(inner, "default", None)
            if default is not None:
                a = ast.Assign(targets=[ast.Name(id=name, ctx=ast.Store())], value=self.expr(default))
                a._cdef = ty  # type: ignore[attr-defined]
                out.append(a)
        return out

    def s_CClassDefNode(self, n):
        prev = self._cls
        self._cls = n.class_name
        self.meta["classes"][n.class_name] = {"attrs": {}}
        body = self.block(n.body)
        self._cls = prev
        return ast.ClassDef(name=n.class_name, bases=[], keywords=[], body=body, decorator_list=[])

    def _args(self, args, star=None, starstar=None):
        posargs, kwonly, defaults, kw_defaults, types = [], [], [], [], {}
        for a in args:
            name = decl_name(a.declarator)
            if name == "" and type(a.base_type).__name__ == "CSimpleBaseTypeNode":
                # untyped argument: the "type" is really the name
                name = a.base_type.name
                ty = "object"
            else:
                ty = type_str(a.base_type, a.declarator) or "object"
            types[name] = ty
            arg = ast.arg(arg=name, annotation=ast.Constant(value=ty) if ty != "object" else None)
            self.loc(arg, a)
            d = self.expr(a.default) if a.default is not None else None
            if a.kw_only:
                kwonly.append(arg)
                kw_defaults.append(d)
            else:
                posargs.append(arg)
                if d is not None:
                    defaults.append(d)
        return ast.arguments(posonlyargs=[], args=posargs, vararg=ast.arg(arg=star.name) if star else None,
                             kwonlyargs=kwonly, kw_defaults=kw_defaults,
                             kwarg=ast.arg(arg=starstar.name) if starstar else None, defaults=defaults), types

    def _function(self, name, args, types, body_node, meta):
        prev = self._func_meta
        meta["locals"] = {}
        meta["argtypes"] = types
        self._func_meta = meta
        body = self.block(body_node)
        self._func_meta = prev
        qual = f"{self._cls}.{name}" if self._cls else name
        self.meta["functions"][qual] = meta
        fd = ast.FunctionDef(name=name, args=args, body=body, decorator_list=[], returns=None, type_params=[])
        fd._cy = meta  # type: ignore[attr-defined]
        return fd

    def s_DefNode(self, n):
        args, types = self._args(n.args, n.star_arg, n.starstar_arg)
        return self._function(n.name, args, types, n.body, {"cdef": False, "ret": "object"})

    def s_CFuncDefNode(self, n):
        d = n.declarator
        while type(d).__name__ != "CFuncDeclaratorNode":
            d = d.base
        name = decl_name(d)
        args, types = self._args(d.args)
        mods = list(getattr(n, "modifiers", []) or [])
        meta = {"cdef": True, "ret": type_str(n.base_type, n.declarator), "inline": "inline" in mods,
                "exception_check": d.exception_check,
                "exception_value": (self.expr_src(d.exception_value) if d.exception_value is not None else None),
                "nogil": bool(d.nogil), "with_gil": bool(d.with_gil), "api": bool(getattr(n, "api", 0))}
        return self._function(name, args, types, n.body, meta)

    def expr_src(self, e):
        try:
            return ast.unparse(self.expr(e))
        except Exception:
            return type(e).__name__

    # -- statements ---------------------------------------------------------
    def s_ExprStatNode(self, n):
        return ast.Expr(value=self.expr(n.expr))

    def s_PassStatNode(self, n):
        return ast.Pass()

    def s_SingleAssignmentNode(self, n):
        return ast.Assign(targets=[self.target(n.lhs)], value=self.expr(n.rhs))

    def s_CascadedAssignmentNode(self, n):
        return ast.Assign(targets=[self.target(t) for t in n.lhs_list], value=self.expr(n.rhs))

    def s_InPlaceAssignmentNode(self, n):
        return ast.AugAssign(target=self.target(n.lhs), op=_BINOPS[n.operator](), value=self.expr(n.rhs))

    def s_ReturnStatNode(self, n):
        return ast.Return(value=self.expr(n.value) if n.value is not None else None)

    def s_RaiseStatNode(self, n):
        return ast.Raise(exc=self.expr(n.exc_type) if n.exc_type is not None else None,
                         cause=self.expr(n.cause) if getattr(n, "cause", None) is not None else None)

    def s_ReraiseStatNode(self, n):
        return ast.Raise(exc=None, cause=None)

    def s_BreakStatNode(self, n):
        return ast.Break()

    def s_ContinueStatNode(self, n):
        return ast.Continue()

    def s_AssertStatNode(self, n):
        cond = getattr(n, "condition", None) or getattr(n, "cond", None)
        msg = getattr(n, "value", None)
        return ast.Assert(test=self.expr(cond), msg=self.expr(msg) if msg is not None else None)

    def s_IfStatNode(self, n):
        orelse = self.stmts(n.else_clause) if n.else_clause is not None else []
        node = None
        for clause in reversed(n.if_clauses):
            node = ast.If(test=self.expr(clause.condition), body=self.block(clause.body), orelse=orelse)
            self.loc(node, clause)
            orelse = [node]
        return node

    def s_WhileStatNode(self, n):
        return ast.While(test=self.expr(n.condition), body=self.block(n.body),
                         orelse=self.stmts(n.else_clause) if n.else_clause is not None else [])

    def s_ForInStatNode(self, n):
        it = n.iterator
        seq = it.sequence if type(it).__name__ == "IteratorNode" else it
        return ast.For(target=self.target(n.target), iter=self.expr(seq), body=self.block(n.body),
                       orelse=self.stmts(n.else_clause) if n.else_clause is not None else [])

    def s_ForFromStatNode(self, n):
        raise AnalysisError("pyx lowering: for-from loops are not supported")

    def s_TryExceptStatNode(self, n):
        handlers = []
        for c in n.except_clauses:
            pats = c.pattern or []
            if len(pats) == 0:
                ty = None
            elif len(pats) == 1:
                ty = self.expr(pats[0])
            else:
                ty = ast.Tuple(elts=[self.expr(p) for p in pats], ctx=ast.Load())
            name = c.target.name if c.target is not None and hasattr(c.target, "name") else None
            h = ast.ExceptHandler(type=ty, name=name, body=self.block(c.body))
            self.loc(h, c)
            handlers.append(h)
        return ast.Try(body=self.block(n.body), handlers=handlers,
                       orelse=self.stmts(n.else_clause) if n.else_clause is not None else [], finalbody=[])

    def s_TryFinallyStatNode(self, n):
        body = self.block(n.body)
        if len(body) == 1 and isinstance(body[0], ast.Try) and not body[0].finalbody:
            body[0].finalbody = self.block(n.finally_clause)
            return body[0]
        return ast.Try(body=body, handlers=[], orelse=[], finalbody=self.block(n.finally_clause))

    def s_GILStatNode(self, n):
        w = ast.With(items=[ast.withitem(context_expr=ast.Call(func=ast.Name(id=n.state, ctx=ast.Load()), args=[], keywords=[]),
                                         optional_vars=None)], body=self.block(n.body))
        return w

    def s_WithStatNode(self, n):
        return ast.With(items=[ast.withitem(context_expr=self.expr(n.manager),
                                            optional_vars=self.target(n.target) if n.target is not None else None)],
                        body=self.block(n.body))

    def s_GlobalNode(self, n):
        return ast.Global(names=list(n.names))

    def s_DelStatNode(self, n):
        return ast.Delete(targets=[self.target(a) for a in n.args])

    def s_CompilerDirectivesNode(self, n):
        return self.stmts(n.body)

    def s_PrintStatNode(self, n):
        raise AnalysisError("pyx lowering: print statement")

    # -- expressions ----------------------------------------------------------
    def target(self, e):
        t = self.expr(e)
        for n in ast.walk(t):
            if hasattr(n, "ctx"):
                pass
        _set_store(t)
        return t

    def expr(self, e):
        n = type(e).__name__
        m = getattr(self, "e_" + n, None)
        if m is None:
            raise AnalysisError(f"pyx lowering: expression {n} not supported at {getattr(e, 'pos', None)}")
        r = m(e)
        return self.loc(r, e)

    def e_NameNode(self, e):
        return ast.Name(id=e.name, ctx=ast.Load())

    def e_IntNode(self, e):
        v = e.value
        try:
            val = int(v, 0) if isinstance(v, str) else int(v)
        except ValueError:
            val = int(str(v).rstrip("uUlL"), 0)
        return ast.Constant(value=val)

    def e_FloatNode(self, e):
        return ast.Constant(value=float(e.value))

    def e_BoolNode(self, e):
        return ast.Constant(value=bool(e.value))

    def e_NoneNode(self, e):
        return ast.Constant(value=None)

    def e_NullNode(self, e):
        return ast.Name(id="NULL", ctx=ast.Load())

    def e_UnicodeNode(self, e):
        return ast.Constant(value=str(e.value))

    e_StringNode = e_IdentifierStringNode = e_UnicodeNode

    def e_CharNode(self, e):
        return ast.Constant(value=str(e.value))

    def e_BytesNode(self, e):
        v = e.value
        return ast.Constant(value=bytes(v, "latin1") if isinstance(v, str) else bytes(v))

    def e_AttributeNode(self, e):
        return ast.Attribute(value=self.expr(e.obj), attr=e.attribute, ctx=ast.Load())

    def e_TypecastNode(self, e):
        r = self.expr(e.operand)
        ty = type_str(e.base_type, e.declarator) if e.base_type is not None else "?"
        if not hasattr(r, "_cast"):
            r._cast = ty  # type: ignore[attr-defined]
        return r

    def e_AmpersandNode(self, e):
        return ast.Call(func=ast.Name(id="__addr__", ctx=ast.Load()), args=[self.expr(e.operand)], keywords=[])

    def e_SizeofVarNode(self, e):
        return ast.Call(func=ast.Name(id="sizeof", ctx=ast.Load()), args=[self.expr(e.operand)], keywords=[])

    def e_SizeofTypeNode(self, e):
        return ast.Call(func=ast.Name(id="sizeof", ctx=ast.Load()),
                        args=[ast.Constant(value=type_str(e.base_type, e.declarator))], keywords=[])

    def e_SimpleCallNode(self, e):
        return ast.Call(func=self.expr(e.function), args=[self.expr(a) for a in e.args], keywords=[])

    def e_GeneralCallNode(self, e):
        pos = e.positional_args
        args = [self.expr(a) for a in pos.args] if type(pos).__name__ == "TupleNode" else [ast.Starred(value=self.expr(pos), ctx=ast.Load())]
        kws = []
        if e.keyword_args is not None:
            if type(e.keyword_args).__name__ == "DictNode":
                for item in e.keyword_args.key_value_pairs:
                    kws.append(ast.keyword(arg=str(item.key.value), value=self.expr(item.value)))
            else:
                kws.append(ast.keyword(arg=None, value=self.expr(e.keyword_args)))
        return ast.Call(func=self.expr(e.function), args=args, keywords=kws)

    def _binop(self, e):
        return ast.BinOp(left=self.expr(e.operand1), op=_BINOPS[e.operator](), right=self.expr(e.operand2))

    e_AddNode = e_SubNode = e_MulNode = e_DivNode = e_ModNode = e_IntBinopNode = e_PowNode = e_NumBinopNode = _binop
    e_MatMultNode = _binop

    def e_BoolBinopNode(self, e):
        op = ast.And() if e.operator == "and" else ast.Or()
        l, r = self.expr(e.operand1), self.expr(e.operand2)
        vals = []
        for x in (l, r):
            if isinstance(x, ast.BoolOp) and type(x.op) is type(op) and not getattr(x, "_paren", False):
                vals.extend(x.values)
            else:
                vals.append(x)
        return ast.BoolOp(op=op, values=vals)

    def e_NotNode(self, e):
        return ast.UnaryOp(op=ast.Not(), operand=self.expr(e.operand))

    def e_UnaryMinusNode(self, e):
        return ast.UnaryOp(op=ast.USub(), operand=self.expr(e.operand))

    def e_UnaryPlusNode(self, e):
        return ast.UnaryOp(op=ast.UAdd(), operand=self.expr(e.operand))

    def e_TildeNode(self, e):
        return ast.UnaryOp(op=ast.Invert(), operand=self.expr(e.operand))

    def e_PrimaryCmpNode(self, e):
        ops, comps = [_CMPOPS[e.operator]()], [self.expr(e.operand2)]
        c = e.cascade
        while c is not None:
            ops.append(_CMPOPS[c.operator]())
            comps.append(self.expr(c.operand2))
            c = c.cascade
        return ast.Compare(left=self.expr(e.operand1), ops=ops, comparators=comps)

    def e_CondExprNode(self, e):
        return ast.IfExp(test=self.expr(e.test), body=self.expr(e.true_val), orelse=self.expr(e.false_val))

    def e_IndexNode(self, e):
        idx = self.expr(e.index)
        # T[<uint8_t>x]: the narrowing cast of an index is part of the semantics (x is reduced modulo 256 before the
        # look-up), unlike casts that only change the static type of a value in range
        if type(e.index).__name__ == "TypecastNode":
            ty = getattr(idx, "_cast", "")
            if any(n in ty for n in ("uint8_t", "unsigned char")):
                idx = ast.BinOp(left=idx, op=ast.BitAnd(), right=ast.Constant(value=255))
        return ast.Subscript(value=self.expr(e.base), slice=idx, ctx=ast.Load())

    def e_SliceIndexNode(self, e):
        return ast.Subscript(value=self.expr(e.base),
                             slice=ast.Slice(lower=self.expr(e.start) if e.start is not None else None,
                                             upper=self.expr(e.stop) if e.stop is not None else None, step=None),
                             ctx=ast.Load())

    def e_TupleNode(self, e):
        return ast.Tuple(elts=[self.expr(a) for a in e.args], ctx=ast.Load())

    def e_ListNode(self, e):
        return ast.List(elts=[self.expr(a) for a in e.args], ctx=ast.Load())

    def e_DictNode(self, e):
        return ast.Dict(keys=[self.expr(i.key) for i in e.key_value_pairs],
                        values=[self.expr(i.value) for i in e.key_value_pairs])

    def e_ImportNode(self, e):
        return ast.Call(func=ast.Name(id="__import__", ctx=ast.Load()),
                        args=[ast.Constant(value=str(e.module_name.value))], keywords=[])

    def e_JoinedStrNode(self, e):
        vals = []
        for v in e.values:
            if type(v).__name__ == "FormattedValueNode":
                spec = getattr(v, "format_spec", None)
                conv = getattr(v, "conversion_char", None)
                vals.append(ast.FormattedValue(value=self.expr(v.value), conversion=ord(conv) if conv else -1,
                                               format_spec=self.expr(spec) if spec is not None else None))
            else:
                vals.append(self.expr(v))
        return ast.JoinedStr(values=vals)


def _set_store(t):
    if isinstance(t, (ast.Name, ast.Attribute, ast.Subscript, ast.Starred, ast.Tuple, ast.List)):
        t.ctx = ast.Store()
    if isinstance(t, (ast.Tuple, ast.List)):
        for e in t.elts:
            _set_store(e)
    if isinstance(t, ast.Starred):
        _set_store(t.value)


_BINOPS = {"+": ast.Add, "-": ast.Sub, "*": ast.Mult, "/": ast.Div, "%": ast.Mod, "//": ast.FloorDiv,
           "**": ast.Pow, "|": ast.BitOr, "&": ast.BitAnd, "^": ast.BitXor, "<<": ast.LShift, ">>": ast.RShift,
           "@": ast.MatMult}
_CMPOPS = {"==": ast.Eq, "!=": ast.NotEq, "<": ast.Lt, "<=": ast.LtE, ">": ast.Gt, ">=": ast.GtE,
           "is": ast.Is, "is_not": ast.IsNot, "is not": ast.IsNot, "in": ast.In, "not_in": ast.NotIn,
           "not in": ast.NotIn}
