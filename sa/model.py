"""Program model of /repo/yarl: parsed modules, functions, decorators, name resolution.

Nothing here imports or executes repository code; every fact comes from `ast`
(and, for the .pyx, from the Cython front end through sa.pyx).
"""
from __future__ import annotations

import ast
import os
from dataclasses import dataclass, field

REPO = os.environ.get("YARL_REPO", "/repo")
PKG = "yarl"
PY_MODULES = ["_url", "_parse", "_path", "_query", "_quoters", "_quoting_py", "_quoting", "__init__"]


class AnalysisError(Exception):
    """The analysis cannot decide (exit 2): vanished anchor, unclassifiable construct."""


@dataclass
class FuncInfo:
    module: str            # "_url"
    cls: str | None        # "URL" or None
    name: str
    node: ast.FunctionDef
    decorators: list = field(default_factory=list)   # decorator expression nodes
    memo: str | None = None      # "cached_property" | "lru_cache" | None
    lru_args: dict | None = None  # {"maxsize": expr|None, "typed": expr|None}
    kind: str = "function"        # function | method | classmethod | staticmethod | overload
    backend: str = "py"           # "py" or "pyx"

    @property
    def qual(self) -> str:
        return f"{self.module}.{self.cls}.{self.name}" if self.cls else f"{self.module}.{self.name}"

    @property
    def params(self) -> list[str]:
        a = self.node.args
        return [x.arg for x in a.posonlyargs + a.args] + ([a.vararg.arg] if a.vararg else []) + \
               [x.arg for x in a.kwonlyargs] + ([a.kwarg.arg] if a.kwarg else [])

    def param_default(self, name):
        a = self.node.args
        pos = a.posonlyargs + a.args
        defaults = [None] * (len(pos) - len(a.defaults)) + list(a.defaults)
        for p, d in zip(pos, defaults):
            if p.arg == name:
                return d
        for p, d in zip(a.kwonlyargs, a.kw_defaults):
            if p.arg == name:
                return d
        return None

    def param_annotation(self, name):
        a = self.node.args
        for p in a.posonlyargs + a.args + a.kwonlyargs + ([a.vararg] if a.vararg else []) + ([a.kwarg] if a.kwarg else []):
            if p.arg == name:
                return p.annotation
        return None


@dataclass
class ModuleInfo:
    name: str
    path: str
    tree: ast.Module
    source: str
    functions: dict = field(default_factory=dict)    # local qual ("URL.join" / "split_url") -> FuncInfo
    assigns: dict = field(default_factory=dict)      # module-level name -> list of value exprs (in order)
    imports: dict = field(default_factory=dict)      # local name -> (module, original name)  module may be ".x" for repo
    classes: dict = field(default_factory=dict)      # class name -> ast.ClassDef
    backend: str = "py"


def _dotted(e):
    if isinstance(e, ast.Name):
        return e.id
    if isinstance(e, ast.Attribute):
        b = _dotted(e.value)
        return f"{b}.{e.attr}" if b else None
    return None


def load_anchors():
    p = os.path.join(os.path.dirname(os.path.abspath(__file__)), "anchors.txt")
    out = set()
    if os.path.exists(p):
        for line in open(p):
            line = line.strip()
            if line and not line.startswith("#"):
                out.add(line)
    return out


class Model:
    def __init__(self, repo: str = REPO, with_pyx: bool = False):
        self.repo = repo
        self.anchors = load_anchors()
        self.modules: dict[str, ModuleInfo] = {}
        for m in PY_MODULES:
            p = os.path.join(repo, PKG, m + ".py")
            if not os.path.exists(p):
                raise AnalysisError(f"anchor vanished: module {p} does not exist")
            src = open(p, encoding="utf8").read()
            try:
                tree = ast.parse(src, filename=p)
            except SyntaxError as e:
                raise AnalysisError(f"cannot parse {p}: {e}")
            self._index(ModuleInfo(m, p, tree, src))
        if with_pyx:
            self.load_pyx()

    def load_pyx(self):
        if "_quoting_c" in self.modules:
            return
        from . import pyx
        p = os.path.join(self.repo, PKG, "_quoting_c.pyx")
        if not os.path.exists(p):
            raise AnalysisError(f"anchor vanished: {p}")
        tree, src = pyx.lower_file(p)
        mi = ModuleInfo("_quoting_c", p, tree, src, backend="pyx")
        self._index(mi)

    # ------------------------------------------------------------------
    def _index(self, mi: ModuleInfo):
        self.modules[mi.name] = mi
        for node in ast.walk(mi.tree):
            for ch in ast.iter_child_nodes(node):
                ch._parent = node  # type: ignore[attr-defined]
        self._index_body(mi, mi.tree.body, None)

    def _index_body(self, mi, body, cls):
        for st in body:
            if isinstance(st, (ast.FunctionDef, ast.AsyncFunctionDef)):
                fi = self._funcinfo(mi, st, cls)
                key = f"{cls}.{st.name}" if cls else st.name
                if fi.kind == "overload":
                    continue
                mi.functions[key] = fi
            elif isinstance(st, ast.ClassDef) and cls is None:
                mi.classes[st.name] = st
                self._index_body(mi, st.body, st.name)
            elif cls is None and isinstance(st, (ast.Assign, ast.AnnAssign, ast.AugAssign)):
                targets = st.targets if isinstance(st, ast.Assign) else [st.target]
                if st.value is None:
                    continue
                for t in targets:
                    if isinstance(t, ast.Name):
                        mi.assigns.setdefault(t.id, []).append(st)
                    elif isinstance(t, (ast.Tuple, ast.List)) and all(isinstance(x, ast.Name) for x in t.elts):
                        # A, B = f(...): each name is bound to one element of the value
                        st._unpack = {x.id: i for i, x in enumerate(t.elts)}
                        for x in t.elts:
                            mi.assigns.setdefault(x.id, []).append(st)
            elif cls is None and isinstance(st, ast.ImportFrom):
                mod = ("." * st.level) + (st.module or "")
                for a in st.names:
                    mi.imports[a.asname or a.name] = (mod, a.name)
            elif cls is None and isinstance(st, ast.Import):
                for a in st.names:
                    mi.imports[a.asname or a.name.split(".")[0]] = (a.name if a.asname else a.name.split(".")[0], None)
            elif cls is None and isinstance(st, (ast.If, ast.Try)):
                # conditional imports / definitions at module level (e.g. `Self`, _quoting selection)
                for sub in ast.iter_child_nodes(st):
                    if isinstance(sub, list):
                        pass
                for fld in ("body", "orelse", "finalbody"):
                    self._index_body(mi, getattr(st, fld, []) or [], None)
                for h in getattr(st, "handlers", []) or []:
                    self._index_body(mi, h.body, None)

    def _funcinfo(self, mi, node, cls):
        fi = FuncInfo(mi.name, cls, node.name, node, list(node.decorator_list), backend=mi.backend)
        fi.kind = "method" if cls else "function"
        for d in node.decorator_list:
            name = _dotted(d.func if isinstance(d, ast.Call) else d)
            base = self._decorator_base(mi, name)
            if base == "cached_property":
                fi.memo = "cached_property"
            elif base == "lru_cache":
                fi.memo = "lru_cache"
                fi.lru_args = {"maxsize": None, "typed": None, "call_form": isinstance(d, ast.Call)}
                if isinstance(d, ast.Call):
                    if d.args:
                        fi.lru_args["maxsize"] = d.args[0]
                    for kw in d.keywords:
                        fi.lru_args[kw.arg] = kw.value
            elif base == "classmethod":
                fi.kind = "classmethod"
            elif base == "staticmethod":
                fi.kind = "staticmethod"
            elif base == "overload":
                fi.kind = "overload"
        return fi

    def _decorator_base(self, mi, name):
        if name is None:
            return None
        last = name.split(".")[-1]
        if name in mi.imports:
            mod, orig = mi.imports[name]
            if orig in ("under_cached_property", "cached_property"):
                return "cached_property"
            if orig in ("lru_cache", "cache"):
                return "lru_cache"
            return orig
        if last in ("lru_cache", "cache"):
            return "lru_cache"
        return last

    # ------------------------------------------------------------------
    def module(self, name) -> ModuleInfo:
        if name not in self.modules:
            raise AnalysisError(f"anchor vanished: module {name}")
        return self.modules[name]

    def func(self, qual: str) -> FuncInfo:
        """qual = '_url.URL.join' or '_parse.split_url'"""
        mod, _, rest = qual.partition(".")
        mi = self.module(mod)
        if rest not in mi.functions:
            raise AnalysisError(f"anchor vanished: function {qual}")
        return mi.functions[rest]

    def declared_not_none(self, call, module: str) -> bool:
        """Is this call term a direct call of a package function whose declared return type excludes None? The package is
        type-checked (`mypy --strict` in its CI), so a path that assumes `f(...) is None` for such a callee is infeasible.
        Used only to discard infeasible paths, never to discharge an obligation."""
        f = call[1] if call and call[0] == "call" else None
        if not f or f[0] != "global" or f[1] not in self.modules:
            return False
        r = self.resolve_global(f[1], f[2])
        if not r or r[0] not in ("func", "memo_alias"):
            return False
        ann = r[1].node.returns
        if ann is None:
            return False
        text = ann.value if isinstance(ann, ast.Constant) and isinstance(ann.value, str) else ast.unparse(ann)
        return not any(w in text for w in ("None", "Optional", "Any", "object", "TypeVar", "_T"))

    def has_func(self, qual: str) -> bool:
        mod, _, rest = qual.partition(".")
        return mod in self.modules and rest in self.modules[mod].functions

    def all_funcs(self, backends=("py",), helpers=False):
        """Functions analysed on their own. Transparent helpers (see `transparent`) are left out unless asked for:
        the engine analyses them in place at each of their call sites."""
        skip = set() if helpers else self.transparent()
        for mi in self.modules.values():
            if mi.backend in backends:
                for fi in mi.functions.values():
                    if fi.qual not in skip:
                        yield fi

    def inlinable(self, fi) -> bool:
        """A package function that is not one of the anchors the rules were written against (a helper introduced by
        a later change) and has no caching / descriptor semantics of its own: calls to it are analysed in place."""
        if not self.anchors or fi.qual in self.anchors or fi.memo or fi.kind in ("overload", "staticmethod", "classmethod"):
            return False
        return not any((_dotted(d.func if isinstance(d, ast.Call) else d) or "").split(".")[-1] in
                       ("property", "cached_property", "under_cached_property", "setter") for d in fi.decorators)

    def transparent(self):
        """Quals of private helpers that are only ever *called* (never passed around), so that analysing their call
        sites in place covers every use; anything else is also analysed as a function of its own."""
        if getattr(self, "_transparent", None) is not None and self._transparent[0] == len(self.modules):
            return self._transparent[1]
        out = set()
        cands = {}
        exported = set()
        init = self.modules.get("__init__")
        if init is not None:
            exported.update(orig or local for local, (_mod, orig) in init.imports.items())
            exported.update(init.imports)
        for mi in self.modules.values():
            for fi in mi.functions.values():
                private = fi.name.startswith("_") and not (fi.name.startswith("__") and fi.name.endswith("__"))
                # a module-level function of a private module that the package does not re-export is internal as well
                internal = fi.cls is None and mi.name.startswith("_") and fi.name not in exported and \
                    not (fi.name.startswith("__") and fi.name.endswith("__"))
                if (private or internal) and self.inlinable(fi):
                    cands.setdefault(fi.name, []).append(fi)
        if cands:
            calls = {n: 0 for n in cands}
            other = {n: 0 for n in cands}
            for mi in self.modules.values():
                for node in ast.walk(mi.tree):
                    name = None
                    if isinstance(node, ast.Name) and isinstance(node.ctx, ast.Load):
                        name = node.id
                    elif isinstance(node, ast.Attribute) and isinstance(node.ctx, ast.Load):
                        name = node.attr
                    if name not in cands:
                        continue
                    par = getattr(node, "_parent", None)
                    direct = isinstance(par, ast.Call) and par.func is node and not any(k.arg is None for k in par.keywords) and \
                        (not any(isinstance(a, ast.Starred) for a in par.args) or
                         (sum(isinstance(a, ast.Starred) for a in par.args) == 1 and
                          all(fi.node.args.vararg is None for fi in cands[name])))
                    # an entry of a module-level dispatch table ((key, handler), ...): the engine walks such tables entry by
                    # entry, so the handler is called where the table is iterated
                    tabled = isinstance(par, ast.Tuple) and isinstance(getattr(par, "_parent", None), ast.Tuple) and \
                        isinstance(getattr(par._parent, "_parent", None), ast.Assign) and getattr(par._parent._parent, "col_offset", 1) == 0
                    if direct or tabled:
                        calls[name] += 1
                    else:
                        other[name] += 1
            for n, fis in cands.items():
                if calls[n] and not other[n]:
                    out.update(fi.qual for fi in fis)
        self._transparent = (len(self.modules), out)
        return out

    def methods(self, module, cls):
        mi = self.module(module)
        return {k.split(".", 1)[1]: f for k, f in mi.functions.items() if f.cls == cls}

    def resolve_global(self, module: str, name: str, _depth=0):
        """Resolve a module-level name to ('func', FuncInfo) | ('value', module, name, [stmts]) |
        ('class', module, name) | ('ext', 'pkg.mod', name) | ('memo_alias', FuncInfo, call) | None"""
        mi = self.module(module)
        if name in mi.functions and mi.functions[name].cls is None:
            return ("func", mi.functions[name])
        if name in mi.classes:
            return ("class", module, name)
        if name in mi.assigns:
            sts = mi.assigns[name]
            # alias of a memoised function: X = lru_cache(f)
            if len(sts) == 1 and isinstance(sts[0], ast.Assign) and isinstance(sts[0].value, ast.Call):
                c = sts[0].value
                base = self._decorator_base(mi, _dotted(c.func))
                if base == "lru_cache" and len(c.args) == 1 and isinstance(c.args[0], ast.Name):
                    tgt = self.resolve_global(module, c.args[0].id, _depth + 1)
                    if tgt and tgt[0] == "func":
                        return ("memo_alias", tgt[1], c)
            # re-binding of another module's name: `from . import _quoters as _q` ... `QUOTER = _q.QUOTER`
            if len(sts) == 1 and isinstance(sts[0], ast.Assign) and isinstance(sts[0].value, ast.Attribute) and \
                    isinstance(sts[0].value.value, ast.Name) and _depth < 5 and not hasattr(sts[0], "_unpack"):
                owner = self.resolve_global(module, sts[0].value.value.id, _depth + 1)
                if owner and owner[0] == "module" and owner[1] in self.modules:
                    tgt = self.resolve_global(owner[1], sts[0].value.attr, _depth + 1)
                    if tgt is not None:
                        return tgt
            return ("value", module, name, sts)
        if name in mi.imports:
            mod, orig = mi.imports[name]
            if mod.startswith("."):
                target = mod.lstrip(".")
                if orig is None:
                    return ("module", target)
                if target == "" and orig in self.modules:
                    return ("module", orig)     # from . import _quoters [as _q]
                if target == "_quoting" and "_quoting" in self.modules and _depth < 3:
                    # the selector module re-exports _Quoter/_Unquoter from one of the two backends
                    return ("class", "_quoting_py", orig)
                if target in self.modules and _depth < 5:
                    return self.resolve_global(target, orig, _depth + 1)
                return ("ext", target, orig)
            return ("ext", mod, orig)
        return None

    def lru_functions(self):
        """All lru_cache-memoised callables: decorated functions and X = lru_cache(f) aliases."""
        out = []
        for fi in self.all_funcs():
            if fi.memo == "lru_cache":
                out.append((fi.qual, fi, fi.lru_args))
        for mi in self.modules.values():
            if mi.backend != "py":
                continue
            for name in mi.assigns:
                r = self.resolve_global(mi.name, name)
                if r and r[0] == "memo_alias":
                    c = r[2]
                    out.append((f"{mi.name}.{name}", r[1], {"maxsize": None, "typed": None, "alias": True,
                                                            **{kw.arg: kw.value for kw in c.keywords}}))
        return out


def unparse(node) -> str:
    try:
        return ast.unparse(node)
    except Exception:
        return f"<{type(node).__name__}>"
