"""Value terms (an SSA-like value graph) and their rendering.

A term is an immutable nested tuple whose first element is a tag:

  ('const', v)                      literal
  ('param', name)                   parameter of the function under analysis
  ('global', module, name)          module-level name of the package
  ('ext', module, name)             name imported from outside the package
  ('builtin', name)
  ('attr', obj, name)               attribute load
  ('call', f, args, kwargs)         args: tuple of terms (or ('star', t)); kwargs: tuple of (name|None, term)
  ('binop', op, l, r) ('unop', op, x) ('cmp', op, l, r)
  ('sub', base, index)              index may be ('slice', lo, hi, step)
  ('tuple', elts) ('list', elts) ('set', elts) ('dict', ((k, v), ...))
  ('fstr', parts)                   parts: ('const', s) | ('fmt', term, conv, spec)
  ('mut', old, method, args, n)     value of a mutable object after an in-place operation
  ('phi', loop_id, name)            loop-carried variable at a loop head
  ('elem', iterable, loop_id)       element drawn from an iterable (for target / comprehension target)
  ('item', t, i)                    i-th element of an unpacked value
  ('new', cls, n)                   fresh object (object.__new__(cls))
  ('unknown', why, n)
  ('comp', kind, elts, iters)       comprehension: elts = alternatives of the element term
  ('exc', handler_type, n)          the exception object bound by `except T as e`
"""
from __future__ import annotations

NONE = ("const", None)
TRUE = ("const", True)
FALSE = ("const", False)


def const(v):
    return ("const", v)


def is_const(t):
    return t[0] == "const"


_BINOP = {"Add": "+", "Sub": "-", "Mult": "*", "Div": "/", "Mod": "%", "BitOr": "|", "BitAnd": "&",
          "LShift": "<<", "RShift": ">>", "FloorDiv": "//", "BitXor": "^", "Pow": "**"}
_CMP = {"Eq": "==", "NotEq": "!=", "Lt": "<", "LtE": "<=", "Gt": ">", "GtE": ">=", "Is": "is",
        "IsNot": "is not", "In": "in", "NotIn": "not in"}


def show(t, depth=0) -> str:
    """Python-like rendering, used in reports and as the normalised key of findings."""
    if not isinstance(t, tuple) or not t:
        return repr(t)
    if depth > 12:
        return "..."
    d = depth + 1
    tag = t[0]
    if tag == "const":
        return repr(t[1])
    if tag == "param":
        return t[1]
    if tag in ("global", "ext"):
        return t[2]
    if tag == "builtin":
        return t[1]
    if tag == "attr":
        return f"{show(t[1], d)}.{t[2]}"
    if tag == "call":
        args = [show(a, d) for a in t[2]] + [(f"{k}={show(v, d)}" if k else f"**{show(v, d)}") for k, v in t[3]]
        return f"{show(t[1], d)}({', '.join(args)})"
    if tag == "star":
        return "*" + show(t[1], d)
    if tag == "binop":
        return f"({show(t[2], d)} {_BINOP.get(t[1], t[1])} {show(t[3], d)})"
    if tag == "unop":
        return f"({t[1]} {show(t[2], d)})"
    if tag == "cmp":
        return f"({show(t[2], d)} {_CMP.get(t[1], t[1])} {show(t[3], d)})"
    if tag == "sub":
        return f"{show(t[1], d)}[{show(t[2], d)}]"
    if tag == "slice":
        f = lambda x: "" if x == NONE else show(x, d)
        s = f"{f(t[1])}:{f(t[2])}"
        return s if t[3] == NONE else s + ":" + f(t[3])
    if tag in ("tuple", "list", "set"):
        o, c = {"tuple": "()", "list": "[]", "set": "{}"}[tag]
        return o + ", ".join(show(e, d) for e in t[1]) + ("," if tag == "tuple" and len(t[1]) == 1 else "") + c
    if tag == "dict":
        return "{" + ", ".join(f"{show(k, d)}: {show(v, d)}" for k, v in t[1]) + "}"
    if tag == "fstr":
        out = []
        for p in t[1]:
            if p[0] == "const":
                out.append(str(p[1]).replace("{", "{{").replace("}", "}}"))
            else:
                out.append("{" + show(p[1], d) + (f"!{p[2]}" if p[2] else "") + (f":{p[3]}" if p[3] else "") + "}")
        return "f" + repr("".join(out))
    if tag == "mut":
        return f"{show(t[1], d)}<.{t[2]}({', '.join(show(a, d) for a in t[3])})>"
    if tag == "phi":
        return f"{t[2]}@loop{t[1]}"
    if tag == "elem":
        return f"elem({show(t[1], d)})"
    if tag == "item":
        return f"{show(t[1], d)}#{t[2]}"
    if tag == "new":
        return f"new({t[1]})"
    if tag == "unknown":
        return f"?{t[1]}"
    if tag == "comp":
        return f"{t[1]}comp({' | '.join(show(e, d) for e in t[2])} for {', '.join(show(i, d) for i in t[3])})"
    if tag == "ucomp":
        return "[" + ", ".join(show(v, d) + ("".join(f" if {show(c, d)}" for c in cs)) for cs, v in t[2]) + "]"
    if tag == "exc":
        return f"exc({t[1]})"
    return repr(t)


def walk(t, seen=None):
    """All sub-terms (pre-order)."""
    if not isinstance(t, tuple) or not t or not isinstance(t[0], str):
        return
    yield t
    for x in t[1:]:
        if isinstance(x, tuple):
            if x and isinstance(x[0], str):
                yield from walk(x)
            else:
                for y in x:
                    if isinstance(y, tuple):
                        if y and isinstance(y[0], str):
                            yield from walk(y)
                        else:
                            for z in y:
                                if isinstance(z, tuple) and z and isinstance(z[0], str):
                                    yield from walk(z)


def contains(t, sub) -> bool:
    return any(x == sub for x in walk(t))
