"""H1-H4, T9, ORD3, ORD5 (C16): one canonical lower-case host form on every encoding path, one bracket predicate,
validation where the API promises it, the reg-name pattern, the NFKC delimiter screen on every route."""
from __future__ import annotations

from ..fold import CannotFold, Folder, module_const, need
from ..interp import alternatives, analyze, analyze_precise, truth
from ..model import AnalysisError, Model
from ..oracle import NFKC_SCREEN, REG_NAME_LOWER
from ..report import Ctx, where
from ..strtpl import flatten
from ..terms import NONE, show, walk
from .immut import is_public, pkg_funcs

ENC = "_url._encode_host"


def _callee(model, t, fi):
    f = t[1]
    if f[0] == "global":
        r = model.resolve_global(f[1], f[2])
        if r and r[0] in ("func", "memo_alias"):
            return r[1]
    return None


class Lower:
    """Is a term lower-case ASCII by construction?  (zone ids are exempt, as the statement says)"""

    def __init__(self, model, fi, res):
        self.model, self.fi, self.res = model, fi, res
        self.why = []

    def zone(self, t):
        """The zone id: the text after the first '%' of the host, however it is cut out."""
        # third element of <host>.partition("%")
        if t[0] in ("item", "sub") and t[1][0] == "call" and t[1][1][0] == "attr" and t[1][1][2] == "partition" \
                and t[1][2] == (("const", "%"),) and (t[2] == 2 or t[2] == ("const", 2)):
            return True
        # <host>[<host>.find("%") + 1:]
        if t[0] == "sub" and t[2][0] == "slice" and t[2][2] == ("const", None) and t[2][1][0] == "binop" and t[2][1][1] == "Add":
            a, b = t[2][1][2], t[2][1][3]
            pos = a if b == ("const", 1) else (b if a == ("const", 1) else None)
            if pos is not None and pos[0] == "call" and pos[1] == ("attr", t[1], "find") and pos[2][:1] == (("const", "%"),):
                return True
        # <host>.split("%", 1)[1]
        if t[0] in ("item", "sub") and (t[2] == 1 or t[2] == ("const", 1)) and t[1][0] == "call" and t[1][1][0] == "attr" \
                and t[1][1][2] == "split" and t[1][2] == (("const", "%"), ("const", 1)):
            return True
        return False

    def zone_parts(self, t):
        """Values a host template carries in zone-id position: cut out after the '%' of the argument, or written
        right after a literal '%' (RFC 6874: whatever follows the '%' of an IP literal is the zone id)."""
        parts = flatten(t)
        out = []
        for i, p in enumerate(parts):
            if p[0] != "val":
                continue
            if self.zone(p[1]) or (i and parts[i - 1][0] == "lit" and parts[i - 1][1].endswith("%")):
                out.append(p[1])
        return out

    def sep(self, t):
        return t[0] in ("item", "sub") and t[1][0] == "call" and t[1][1][0] == "attr" and t[1][1][2] == "partition" \
            and (t[2] == 1 or t[2] == ("const", 1))

    def lower(self, t, depth=0):
        if depth > 12:
            return False
        tag = t[0]
        if tag == "const":
            return isinstance(t[1], str) and t[1] == t[1].lower()
        if tag == "attr" and t[2] == "compressed":
            return True          # ipaddress renders hex digits in lower case
        if tag == "call" and flatten(t) != [("val", t)]:
            return self._template(t, depth)      # "...".format(...), "".join([...]), str(x)
        if tag == "call":
            f = t[1]
            if f == ("builtin", "str") and ((len(t[2]) == 2 and t[2][1] == ("const", "ascii") and not t[3]) or
                                             (len(t[2]) == 1 and t[3] == (("encoding", ("const", "ascii")),))):
                return self.lower(t[2][0], depth + 1)       # str(b, "ascii") is b.decode("ascii")
            if f[0] == "attr" and f[2] in ("lower", "casefold"):
                return True
            if f[0] == "attr" and f[2] == "decode" and t[2] and t[2][0] == ("const", "ascii"):
                return self.lower(f[1], depth + 1)
            if f[0] == "attr" and f[2] == "encode" and f[1][0] == "ext" and f[1][1] == "idna":
                # idna.encode lower-cases only with UTS 46 preprocessing
                return any(k == "uts46" and v == ("const", True) for k, v in t[3])
            if f[0] == "attr" and f[2] in ("strip", "rstrip", "lstrip", "replace"):
                return self.lower(f[1], depth + 1)
            target = _callee(self.model, t, self.fi)
            if target is not None:
                r = analyze_precise(self.model, target)
                lw = Lower(self.model, target, r)
                ok = True
                for _s, v, _n in r.returns:
                    if not lw.lower(v, depth + 1):
                        ok = False
                        self.why.append(f"{target.qual} returns {show(v)[:70]}")
                return ok
            return False
        if tag == "sub" and t[2][0] == "slice":
            return self.lower(t[1], depth + 1)
        if flatten(t) != [("val", t)]:
            return self._template(t, depth)
        return False

    def _template(self, t, depth):
        # a template (f-string, concatenation, format, ...): every literal and every value except the zone id
        parts = flatten(t)
        zones = self.zone_parts(t)
        return all(p[0] == "lit" and p[1] == p[1].lower() or
                   p[0] == "val" and p[1] != t and (p[1] in zones or self.lower(p[1], depth + 1)) for p in parts)


def no_match(facts, pred):
    """The path knows that the reg-name pattern found nothing in a text satisfying pred (`if m`, `m is None`, walrus: any
    spelling of the test)."""
    for k in facts:
        for c in (k, k[2] if k[0] == "cmp" and k[1] == "Is" and k[3] == NONE else None):
            if c is not None and c[0] == "call" and c[1][0] == "attr" and c[1][1] == ("global", "_url", "NOT_REG_NAME") \
                    and c[1][2] == "search" and c[2] and pred(c[2][0]) and truth(c, facts) is False:
                return True
    return False


def h1(ctx: Ctx):
    model = ctx.model
    rule = "H1"
    ctx.rule(rule, floor=3, what="every return path of the host encoder is lower-case by construction (zone id exempt)")
    fi = model.func(ENC)
    r = analyze_precise(model, fi)
    ctx.functions.add(ENC)
    seen = {}
    for s, v, node in r.returns:
        lw = Lower(model, fi, r)
        ok = lw.lower(v)
        seen.setdefault(id(node), [node, v, [], lw.why])[2].append(ok)
    for node, v, oks, why in seen.values():
        ctx.instance(rule)
        ctx.ob(rule, ENC, f"return {show(v)[:80]}", all(oks),
               "the encoded host returned here is not lower-cased on every path" + (": " + "; ".join(sorted(set(why))) if why else ""),
               where(fi, node), sample="lower() / ip.compressed / idna.encode(uts46=True)")


def bracketed_values(t):
    """Values a string template puts between '[' and ']' (f-string, concatenation, format, %: all the same)."""
    parts = flatten(t)
    out = []
    for i in range(1, len(parts) - 1):
        if parts[i][0] == "val" and parts[i - 1][0] == "lit" and parts[i - 1][1].endswith("[") and \
                parts[i + 1][0] == "lit" and parts[i + 1][1].startswith("]"):
            out.append(parts[i][1])
    return out


def h2(ctx: Ctx):
    """Brackets are added exactly for hosts containing ':' (IPv6 / IPvFuture), with the same predicate everywhere."""
    model = ctx.model
    rule = "H2"
    ctx.rule(rule, floor=4, what="one bracket predicate: '[' + host + ']' iff ':' in host")
    for fi in pkg_funcs(model):
        if fi.module != "_url":
            continue
        r = analyze(model, fi)
        seen = set()
        for e in r.events:
            for val in e.data.values():
                if not (isinstance(val, tuple) and val and isinstance(val[0], str)):
                    continue
                for t in walk(val):
                    if not (t[0] == "fstr" or (t[0] == "binop" and t[1] in ("Add", "Mod")) or
                            (t[0] == "call" and t[1][0] == "attr" and t[1][2] in ("format", "join"))):
                        continue
                    for x in bracketed_values(t):        # "[" <x> "]" in any spelling
                        key = (show(x), frozenset(e.state.facts.items()))
                        if key in seen:
                            continue
                        seen.add(key)
                        ctx.instance(rule)
                        colon = truth(("cmp", "In", ("const", ":"), x), e.state.facts) is True
                        v6 = any(fv and k[0] == "cmp" and k[1] == "Eq" and k[3] == ("const", 6) and "version" in show(k[2]) for k, fv in e.state.facts.items())
                        ctx.ob(rule, fi.qual, show(t), colon or v6,
                               f"brackets are added around {show(x)} without `':' in host` (or an IPv6 check) being established",
                               where(fi, e.node), sample="':' in host" if colon else "ip.version == 6")
    # and the unbracketed alternative is only chosen when there is no ':'
    for name in ("host_subcomponent", "host_port_subcomponent"):
        fi = model.func(f"_url.URL.{name}")
        r = analyze(model, fi)
        for s, v, node in r.returns:
            if v == NONE:
                continue
            if bracketed_values(v):
                continue
            raws = [t for t in walk(v) if t[0] in ("attr", "call") and "raw_host" in show(t)]
            if not raws:
                continue
            ctx.instance(rule)
            # on every path class: the host is absent (None is returned as it is) or known to be free of ':'
            ok = all(truth(("cmp", "Is", raws[0], NONE), f) is True or
                     any((not fv) and k[0] == "cmp" and k[1] == "In" and k[2] == ("const", ":") for k, fv in f.items()) or
                     any(truth(("cmp", "In", ("const", ":"), x), f) is False for x in raws)        # find(':') == -1, partition ...
                     for f in alternatives(s.facts, raws[0]))
            ctx.ob(rule, fi.qual, f"return {show(v)[:60]}", ok, "host returned without brackets although it may contain ':'",
                   where(fi, node), sample="':' not in host")


DROPPING = {"strip", "rstrip", "lstrip", "replace", "removeprefix", "removesuffix", "translate", "expandtabs"}


def h4(ctx: Ctx):
    """A host that is not an IP literal is encoded whole: what is lower-cased / IDNA-encoded, validated and returned is the
    argument itself, never a part of it (cutting the text at a '%' while probing for a zone id and then encoding the cut
    text silently drops the rest: 'example.com%zz1' -> 'example.com')."""
    model = ctx.model
    rule = "H4"
    ctx.rule(rule, floor=1, what="the reg-name path of the host encoder uses the whole argument")
    fi = model.func(ENC)
    r = analyze_precise(model, fi)
    hostp = ("param", fi.params[0])
    seen = {}
    for s, v, node in r.returns:
        is_ip = any((t[0] == "attr" and t[2] in ("compressed", "version")) for t in walk(v)) or \
            any(fv is not None and any(t[0] == "attr" and t[2] == "version" for t in walk(k)) for k, fv in s.facts.items())
        if is_ip:
            continue
        cut = [t for t in walk(v) if t[0] in ("sub", "item") and any(x == hostp for x in walk(t[1]))
               and (t[0] == "item" or t[2][0] == "slice" or t[2][0] == "const")]
        # ... or what is left of it after characters were taken away (a trailing dot, a prefix): 'example.com.' is a different,
        # canonical spelling, not a variant to be folded
        cut += [t for t in walk(v) if t[0] == "call" and t[1][0] == "attr" and t[1][2] in DROPPING and any(x == hostp for x in walk(t[1][1]))]
        seen.setdefault(id(node), [node, v, []])[2].append(not cut)
    for node, v, oks in seen.values():
        ctx.instance(rule)
        ctx.ob(rule, ENC, f"return {show(v)[:70]}", all(oks),
               "a registered name is built from a part of the argument only (cut out of it, or with characters stripped / replaced): the "
               "rest of the text is dropped without an error and an already canonical host is rewritten",
               where(fi, node), sample="derived from the whole `host` argument")


def h5(ctx: Ctx):
    """A host that contains ':' (IPv6) or ends in a digit (IPv4) is handed to the IP parser before it is treated as a
    registered name: otherwise an IPv6 literal is lower-cased / validated as a name (rejected, or stored without brackets
    and compression)."""
    model = ctx.model
    rule = "H5"
    ctx.rule(rule, floor=1, what="hosts that look like IP literals reach the IP parser")
    fi = model.func(ENC)
    tr = lambda kind, t: kind == "call" and t[1][0] in ("ext", "global") and t[1][-1] == "ip_address"
    try:
        r = analyze(model, fi, trace=tr, trace_key="ipprobe", merge=False)
    except AnalysisError:
        r = analyze(model, fi, trace=tr, trace_key="ipprobe-merged")
    hostp = ("param", fi.params[0])
    colon = ("cmp", "In", ("const", ":"), hostp)
    digit = ("call", ("attr", ("sub", hostp, ("const", -1)), "isdigit"), (), ())
    exits = [(s, "return", n) for s, _v, n in r.returns] + [(s, "raise", n) for s, _e, n in r.raises]
    bad = {}
    n = 0
    for s, how, node in exits:
        # an exit that has not gone through the probe must know that the host neither contains ':' nor ends in a digit
        # (an empty host does neither)
        empty = truth(hostp, s.facts) is False
        looks_ip = not empty and (truth(colon, s.facts) is not False or truth(digit, s.facts) is not False)
        if not looks_ip:
            continue
        n += 1
        import ast as _ast
        tried = {t[2] for t in s.trace if t[0] == "handled"}
        # the probe may sit in a helper analysed in place: any `try` of the module whose handler this path went through
        in_try = any(isinstance(n_, _ast.Try) and n_.lineno in tried and
                     any(isinstance(c, _ast.Call) and getattr(c.func, "id", getattr(c.func, "attr", "")) == "ip_address"
                         for b in n_.body for c in _ast.walk(b))
                     for f_ in model.all_funcs(helpers=True) if f_.module == fi.module and f_.backend == fi.backend for n_ in _ast.walk(f_.node))
        probed = any(t[0] == "call" for t in s.trace) or in_try or \
            any(t[0] == "call" and t[1][0] in ("ext", "global") and t[1][-1] == "ip_address" for k in s.facts for t in walk(k))
        if not probed:
            bad[id(node)] = node
    ctx.instance(rule)
    ctx.ob(rule, ENC, f"{n} exit path(s) for hosts with ':' or a trailing digit", n > 0 and not bad,
           "a host containing ':' or ending in a digit leaves the encoder without having been given to ip_address()" if n else
           "no exit path knows that the host contains ':' / ends in a digit: the IP probe condition was not recognised",
           where(fi, next(iter(bad.values())) if bad else fi.node), sample="ip_address(host) attempted first")


def h6(ctx: Ctx):
    """What the encoder returns for an IP literal: `[` compressed `]` for version 6 (with `%zone` inside the brackets), the
    bare compressed text for version 4. Decided on the returned template of every path that knows the version."""
    model = ctx.model
    rule = "H6"
    ctx.rule(rule, floor=1, what="IPv6 literals leave the encoder bracketed, the zone id after a '%' inside the brackets")
    fi = model.func(ENC)
    try:
        r = analyze(model, fi, merge=False)
    except AnalysisError:
        r = analyze(model, fi)
    n6 = 0
    bad = []
    for s, v, node in r.returns:
        ver = [fv for k, fv in s.facts.items() if k[0] == "cmp" and k[1] == "Eq" and ("const", 6) in (k[2], k[3]) and
               "version" in show(k)]
        if not ver:
            continue
        parts = flatten(v)
        lits = [p_[1] for p_ in parts if p_[0] == "lit"]
        vals = [p_ for p_ in parts if p_[0] != "lit"]
        # a zone id that is known to be present on the path (the '%' separator of a partition is non-empty, or the text after
        # it is) must be part of the result
        lw = Lower(model, fi, r)
        zoned = any(fv is True and (lw.sep(k) or lw.zone(k)) for k, fv in s.facts.items())
        if zoned and "%" not in lits and not any("%" in l for l in lits):
            bad.append((node, f"the result {show(v)[:60]} leaves out a zone id that is present"))
        if ver[0] is True:
            n6 += 1
            shape = [p_[1] if p_[0] == "lit" else None for p_ in parts]
            if shape not in (["[", None, "]"], ["[", None, "%", None, "]"]):
                bad.append((node, f"IPv6 result {show(v)[:60]} is not `[<address>]` / `[<address>%<zone>]`"))
        else:
            if any("[" in l or "]" in l for l in lits):
                bad.append((node, f"IPv4 result {show(v)[:60]} carries brackets"))
            elif len(vals) == 2 and lits != ["%"]:
                bad.append((node, f"IPv4 result {show(v)[:60]}: address and zone are not joined by '%'"))
    # the function cuts a zone id out of its argument: some result of each IP version must carry it
    lw0 = Lower(model, fi, r)
    cuts_zone = any(lw0.zone(t) for e in r.events for val in e.data.values() if isinstance(val, tuple) and val and isinstance(val[0], str)
                    for t in walk(val))
    if cuts_zone:
        for want6 in (True, False):
            rets = [(s, v, node) for s, v, node in r.returns
                    if [fv for k, fv in s.facts.items() if k[0] == "cmp" and k[1] == "Eq" and ("const", 6) in (k[2], k[3]) and
                        "version" in show(k)][:1] == [want6]]
            if rets and not any(lw0.zone_parts(v) for _s, v, _n in rets):
                bad.append((rets[0][2], f"a zone id is cut out of the host but no IPv{6 if want6 else 4} result carries one: it is dropped"))
    if not n6:
        raise AnalysisError(f"{ENC}: no return path knows `ip.version == 6`: the IPv6 branch was not recognised (unknown idiom)")
    ctx.instance(rule)
    ctx.ob(rule, ENC, f"{n6} IPv6 return path(s)", not bad, bad[0][1] if bad else "",
           where(fi, bad[0][0] if bad else fi.node), sample="[<compressed>] / [<compressed>%<zone>]")


def h3(ctx: Ctx):
    model = ctx.model
    rule = "H3"
    ctx.rule(rule, floor=2, what="hosts supplied through build(host=) and with_host() are validated against the reg-name grammar")
    for fi in pkg_funcs(model):
        if not is_public(fi) or "host" not in fi.params:
            continue
        r = analyze(model, fi)
        seen = set()
        for e in r.by_kind("call"):
            if e.func[0] == "global" and e.func[2] == "_encode_host" and e.args and e.args[0] == ("param", "host"):
                if id(e.node) in seen:
                    continue
                seen.add(id(e.node))
                ctx.instance(rule)
                val = dict(e.kwargs).get("validate_host", e.args[1] if len(e.args) > 1 else None)
                ctx.ob(rule, fi.qual, show(e.value), val == ("const", True),
                       "the `host` argument is encoded without validate_host=True: characters outside the reg-name grammar "
                       "(e.g. '/', '@', '#') would be accepted", where(fi, e.node), sample="validate_host=True")


def t9(ctx: Ctx):
    """NOT_REG_NAME = anything outside lower-case unreserved/sub-delims/'%', or a '%' not followed by two hex digits."""
    import re._parser as sp
    model = ctx.model
    rule = "T9"
    ctx.rule(rule, floor=1, what="the reg-name pattern is the complement of the RFC 3986 reg-name grammar (lower-case)")
    pat = need(lambda: module_const(model, "_url", "NOT_REG_NAME"), "_url.NOT_REG_NAME")
    if not (isinstance(pat, tuple) and pat[0] == "regex"):
        raise AnalysisError("_url.NOT_REG_NAME is not a compiled regular expression")
    parsed = sp.parse(pat[1], pat[2])
    ctx.instance(rule)
    problems = []
    items = list(parsed)
    if len(items) != 1 or str(items[0][0]) != "BRANCH":
        problems.append("pattern is not an alternation")
    else:
        branches = items[0][1][1]
        neg = None
        pct = None
        for b in branches:
            b = list(b)
            if len(b) == 1 and str(b[0][0]) == "IN" and str(b[0][1][0][0]) == "NEGATE":
                s = set()
                for o, a in b[0][1][1:]:
                    if str(o) == "RANGE":
                        s.update(chr(c) for c in range(a[0], a[1] + 1))
                    elif str(o) == "LITERAL":
                        s.add(chr(a))
                    else:
                        problems.append(f"class item {o}")
                neg = s
            elif len(b) == 2 and str(b[0][0]) == "LITERAL" and chr(b[0][1]) == "%" and str(b[1][0]) == "ASSERT_NOT":
                direction, sub = b[1][1]
                sub = list(sub)
                hexs = None
                if direction == 1 and len(sub) == 1 and str(sub[0][0]) == "MAX_REPEAT" and sub[0][1][0] == 2 and sub[0][1][1] == 2:
                    inner = list(sub[0][1][2])
                    if len(inner) == 1 and str(inner[0][0]) == "IN":
                        hexs = set()
                        for o, a in inner[0][1]:
                            if str(o) == "RANGE":
                                hexs.update(chr(c) for c in range(a[0], a[1] + 1))
                            elif str(o) == "LITERAL":
                                hexs.add(chr(a))
                pct = hexs
            else:
                problems.append("unexpected alternative in the pattern")
        if neg is None:
            problems.append("no negated character class")
        elif neg != set(REG_NAME_LOWER) | {"%"}:
            extra, missing = neg - (set(REG_NAME_LOWER) | {"%"}), (set(REG_NAME_LOWER) | {"%"}) - neg
            problems.append(f"allowed set differs from lower-case reg-name: extra {''.join(sorted(extra))!r}, missing {''.join(sorted(missing))!r}")
        if pct is None:
            problems.append("no `%(?![0-9a-f]{2})` alternative")
        elif pct != set("0123456789abcdef"):
            problems.append(f"pct-encoded look-ahead accepts {''.join(sorted(pct))!r}")
    ctx.ob(rule, "_url.NOT_REG_NAME", pat[1].strip()[:60].replace("\n", " "), not problems, "; ".join(problems),
           sample="[^unreserved sub-delims %] | %(?![0-9a-f]{2})")


def ord3_ord5c(ctx: Ctx):
    """In the host encoder: the lower-case-only pattern is applied to lower-cased text (ORD3), and with validate_host
    every returned host has been searched by the pattern *after* encoding (ORD5c)."""
    model = ctx.model
    fi = model.func(ENC)
    r = analyze_precise(model, fi)
    rule = "ORD3"
    ctx.rule(rule, floor=1, what="lower-casing precedes the lower-case-only reg-name pattern")
    searched = []
    for e in r.by_kind("call"):
        if e.func[0] == "attr" and e.func[1] == ("global", "_url", "NOT_REG_NAME") and e.func[2] in ("search", "match", "fullmatch"):
            x = e.args[0]
            searched.append(x)
            ctx.instance(rule)
            ok = Lower(model, fi, r).lower(x)
            ctx.ob(rule, ENC, show(e.value)[:80], ok, "the reg-name pattern only knows lower-case letters but is applied to text "
                   "that has not been lower-cased: upper-case hosts would be rejected", where(fi, e.node), sample="applied to host.lower()")
    if not searched:
        raise AnalysisError("ORD3: NOT_REG_NAME is never applied in _encode_host (anchor vanished)")
    rule = "ORD5c"
    ctx.rule(rule, floor=1, what="with validate_host, every returned registered name was validated after encoding")
    seen = {}
    for s, v, node in r.returns:
        if truth(("param", "validate_host"), s.facts) is not True:
            # paths on which validation was requested: validate_host known true, or not tested at all before returning
            tested = any(k == ("param", "validate_host") for k in s.facts)
            if tested:
                continue
        is_ip = any("ip_address" in show(t) or (t[0] == "attr" and t[2] == "compressed") for t in walk(v))
        if is_ip:
            # an IP literal is canonicalised by the ipaddress library; any *other* text spliced into the result (the zone
            # id) comes straight from the argument and must have been validated too
            lw = Lower(model, fi, r)
            raw_parts = lw.zone_parts(v)
            for part in raw_parts:
                # validated, or known empty / absent on this path (nothing to smuggle)
                okz = no_match(s.facts, lambda arg: any(t == part for t in walk(arg))) or truth(part, s.facts) is False
                seen.setdefault((id(node), "zone"), [node, ("fstr", (("const", "zone id of "), ("fmt", v, None, None))), []])[2].append(okz)
            continue
        ok = no_match(s.facts, lambda arg: arg == v)
        seen.setdefault(id(node), [node, v, []])[2].append(ok)
    for key, (node, v, oks) in seen.items():
        ctx.instance(rule)
        zone = isinstance(key, tuple)
        ctx.ob(rule, ENC, f"return {show(v)[:70]} (validate_host requested)", all(oks),
               ("the zone id of an IP literal is spliced into the validated host verbatim: with_host('127.0.0.1%@evil.com:1') "
                "yields an authority whose host is evil.com" if zone else
                "a registered name is returned on the validate_host path without the reg-name pattern having been applied to "
                "the *encoded* result: the IDNA fallback codec NFKC-normalises, so e.g. U+2100 becomes 'a/c' unchecked"),
               where(fi, node), sample="NOT_REG_NAME.search(<text>) is None")


def ord5(ctx: Ctx):
    """(a) split_url screens every non-ASCII authority it returns; (b) authority strings supplied through the API are
    screened before they are split; the screen set is '/?#@:'."""
    model = ctx.model
    rule = "ORD5"
    ctx.rule(rule, floor=3, what="NFKC delimiter screen on every route a non-ASCII authority can take")
    fi = model.func("_parse.split_url")
    tr = lambda kind, t: kind == "call" and t[1][0] == "global" and t[1][2] == "_check_netloc"
    try:
        # every path kept apart: "non-empty and not ASCII" is a two-test condition about one value, which merging may lose
        r = analyze(model, fi, trace=tr, trace_key="screen-unmerged", merge=False)
    except AnalysisError:
        r = analyze(model, fi, trace=tr, trace_key="screen")
    ctx.functions.add(fi.qual)
    n = 0
    for s, v, node in r.returns:
        if v[0] != "tuple" or len(v[1]) != 5:
            raise AnalysisError("_parse.split_url: return value is not a 5-tuple")
        netloc = v[1][1]
        if netloc == ("const", ""):
            continue
        for f in alternatives(s.facts, netloc):
            if truth(netloc, f) is False or truth(("call", ("attr", netloc, "isascii"), (), ()), f) is True:
                continue
            n += 1
            ctx.instance(rule)
            ok = any(t[2] == (netloc,) for t in s.trace)
            ctx.ob(rule, fi.qual, f"return (.., {show(netloc)[:50]}, ..) [non-empty, not ASCII]", ok,
                   "a non-ASCII authority is returned without the NFKC delimiter screen", where(fi, node), sample="_check_netloc(netloc) on the path")
    if not n:
        raise AnalysisError("ORD5: no return path of split_url carries a non-ASCII authority")
    # (b) API-supplied authority strings
    for fi in pkg_funcs(model):
        if not is_public(fi):
            continue
        r = analyze(model, fi, trace=tr, trace_key="screen")
        seen = {}
        for e in r.by_kind("call"):
            if e.func[0] == "global" and e.func[2] == "split_netloc" and e.args and e.args[0][0] == "param":
                a = e.args[0]
                ok = all(truth(("call", ("attr", a, "isascii"), (), ()), f) is True or any(t[2] == (a,) for t in e.state.trace)
                         for f in alternatives(e.state.facts, a))
                seen.setdefault(id(e.node), [e, []])[1].append(ok)
        for e, oks in seen.values():
            ctx.instance(rule)
            ctx.ob(rule, fi.qual, show(e.value), all(oks),
                   f"the `{e.args[0][1]}` argument is split into user/host/port without the NFKC delimiter screen: a character "
                   "whose NFKC form contains '/', '?', '#', '@' or ':' moves the component boundaries after IDNA encoding",
                   where(fi, e.node), sample="ASCII, or _check_netloc() first")
    _screen_itself(ctx, rule)


def ord5_set_aside(ctx: Ctx):
    """The half of ORD5 the human_repr() round trip depends on: the screen must not reject what human_repr() shows decoded
    (printable non-ASCII userinfo next to the authority's own '@' and ':')."""
    ctx.rule("ORD5", floor=1, what="the NFKC screen sets the authority's own '@' and ':' aside before normalising")
    _screen_itself(ctx, "ORD5", only_set_aside=True)


def _screen_itself(ctx: Ctx, rule, only_set_aside=False):
    model = ctx.model
    fi = model.func("_parse._check_netloc")
    r = analyze(model, fi)
    ctx.functions.add(fi.qual)
    ctx.instance(rule)
    screened = set()
    for lid, node in r.loops.items():
        pass
    fold = Folder(model)
    for e in r.by_kind("cond"):
        # `for c in S: if c in text` or `if any(c in text for c in S)`: membership of an element of a constant string,
        # anywhere in a tested condition
        for t in walk(e.test):
            coll = None
            if t[0] == "cmp" and t[1] == "In" and t[2][0] == "elem":
                coll = t[2][1]
            # ... or a set operation of a constant character set against the text: S.isdisjoint(text), S.intersection(text)
            elif t[0] == "call" and t[1][0] == "attr" and t[1][2] in ("isdisjoint", "intersection") and len(t[2]) == 1:
                coll = t[1][1]
            if coll is None:
                continue
            try:
                chars = fold.fold(coll)
            except CannotFold:
                continue
            if isinstance(chars, str):
                screened |= set(chars)
            elif isinstance(chars, (tuple, list, set, frozenset)) and all(isinstance(c, str) and len(c) == 1 for c in chars):
                screened |= set(chars)
    # what is legitimately present in an authority ('@' before the host, ':' before the port) is taken out before the
    # normalised form is inspected - otherwise every non-ASCII authority with userinfo or a port would be rejected
    removed = set()
    for e in r.by_kind("call"):
        if e.func[0] == "attr" and e.func[2] == "replace" and len(e.args) == 2 and e.args[1] == ("const", ""):
            a0 = e.args[0]
            if a0[0] == "const" and isinstance(a0[1], str):
                removed |= set(a0[1]) if len(a0[1]) == 1 else {a0[1]}
            elif a0[0] == "elem":
                try:
                    got = fold.fold(a0[1])
                    removed |= set(got) if isinstance(got, str) or all(isinstance(c, str) and len(c) == 1 for c in got) else set()
                except (CannotFold, TypeError):
                    pass
    ctx.instance(rule)
    ctx.ob(rule, fi.qual, "delimiters set aside before normalising", {"@", ":"} <= removed,
           f"the screen removes {''.join(sorted(removed))!r} before NFKC-normalising; '@' and ':' occur in every authority with userinfo / "
           "a port and are in the screened set, so leaving them in rejects valid non-ASCII authorities", where(fi, fi.node),
           sample="".join(sorted(removed)))
    if only_set_aside:
        return
    raises = all(v[0] == "call" and v[1] == ("builtin", "ValueError") for _s, v, _n in r.raises) and bool(r.raises)
    nfkc = any(e.func[-1] == "normalize" and e.args and e.args[0] == ("const", "NFKC") for e in r.by_kind("call"))
    ctx.ob(rule, fi.qual, "screened characters", screened >= set(NFKC_SCREEN) and raises and nfkc,
           f"the screen looks for {''.join(sorted(screened))!r} (NFKC: {nfkc}, raises ValueError: {raises}); the statement requires '/?#@:'",
           where(fi, fi.node), sample="".join(sorted(screened)))


def h7(ctx: Ctx):
    """The host encoder receives the host text as it was written: no call site case-folds (or otherwise rewrites the case of)
    its argument first. Only the encoder knows where a zone id starts - it lower-cases the name and the address and keeps
    the zone verbatim - so `host.lower()` in front of it destroys what the statement says is kept."""
    model = ctx.model
    rule = "H7"
    ctx.rule(rule, floor=3, what="no call site case-folds the host before the encoder sees it")
    n = 0
    for fi in pkg_funcs(model):
        if fi.module != "_url":
            continue
        r = analyze(model, fi)
        sites = {}
        for e in r.by_kind("call"):
            if not (e.func[0] == "global" and e.func[2] == ENC.split(".")[-1] and e.args):
                continue
            a = e.args[0]
            folded = [t for t in walk(a) if t[0] == "call" and t[1][0] == "attr" and t[1][2] in ("lower", "upper", "casefold", "swapcase", "title", "capitalize")]
            # folding text that is known to hold no '%' cannot touch a zone id
            harmless = all(truth(("cmp", "In", ("const", "%"), t[1][1]), e.state.facts) is False and t[1][2] in ("lower", "casefold") for t in folded)
            sites.setdefault(id(e.node), [e.node, show(e.value)[:70], []])[2].append(bool(folded) and not harmless)
        for node, cons, flags in sites.values():
            n += 1
            ctx.instance(rule)
            ctx.ob(rule, fi.qual, cons, not any(flags),
                   "the host is case-folded before it is given to the encoder: the zone id of an IP literal ('%Eth0'), which the "
                   "encoder keeps verbatim, is lower-cased on this route only", where(fi, node), sample="argument as written")
    if not n:
        raise AnalysisError(f"H7: no call of {ENC} found (anchor vanished)")
