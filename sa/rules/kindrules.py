"""K1-K5 (C01, C02, C06, C13, C14): every text that reaches a stored component passed a quoter of that component's
role exactly once; decoded text meets only non-requoting quoters, URL text only requoters; unquoters read encoded text
of their own role; helper parameters are called with the kind their body requires."""
from __future__ import annotations

from ..interp import deep_walk, alternatives, analyze
from ..kinds import CONST, DEC, NEUTRAL, NONE_K, NUM, OPQ, RAW, UNK, Kinds
from ..model import AnalysisError, Model
from ..report import Ctx, where
from ..shape import Shapes
from ..terms import show, walk
from .quoters import configurations
from .tables import ROLE_OF

SINKS = {"from_parts": ("scheme", "netloc", "path", "query", "fragment"),
         "from_parts_uncached": ("scheme", "netloc", "path", "query", "fragment")}
SLOT_POS = {"_scheme": "scheme", "_netloc": "netloc", "_path": "path", "_query": "query", "_fragment": "fragment"}
ALLOWED = {
    "path": {"ENC:path"},
    "query": {"ENC:query", "ENC:querypart"},
    "fragment": {"ENC:fragment"},
    "netloc": {"ENC:netloc", "ENC:userinfo", "ENC:host"},
    "scheme": None,        # scheme (and host) positions are governed by C16 / outside the five claimed components
}
ANALYSED_MODULES = ("_url", "_query", "_parse")


def make_kinds(model: Model) -> Kinds:
    cfgs = configurations(model)

    def qinfo(name):
        if name not in cfgs:
            return None
        cls, cfg = cfgs[name]
        if cls == "_Unquoter":
            return ("unquoter", cfg)
        if name not in ROLE_OF:
            raise AnalysisError(f"quoter {name} has no role")
        return (ROLE_OF[name], bool(cfg["requote"]))
    return Kinds(model, qinfo, Shapes(model))


def funcs(model):
    return [fi for fi in model.all_funcs() if fi.module in ANALYSED_MODULES]


def contexts(K, model, only=None):
    """(FuncInfo, bindings, param kinds, Result) for every analysed function in every calling context."""
    for fi in funcs(model):
        if only and fi.qual not in only:
            continue
        for bind, pk in K.contexts(fi):
            yield fi, bind, (pk or None), analyze(model, fi, bind or None)


def _bad(kinds, allowed):
    return sorted(x for x in kinds if x not in NEUTRAL and x != OPQ and (allowed is not None and x not in allowed))


def _unmerged(model, fi, bind, r):
    """The function analysed with every path kept apart (merging keeps facts per value and loses correlations such as
    "not encoded => path empty"); the merged result when that is too large."""
    try:
        return analyze(model, fi, bind or None, merge=False)
    except AnalysisError:
        return r


def _k1_sites(K, fi, pk, r):
    sites = {}
    for e in r.by_kind("call"):
        name = e.func[-1] if e.func[0] == "global" else None
        if name in SINKS:
            for pos, a in zip(SINKS[name], e.args):
                if ALLOWED[pos] is None or a[0] == "star":
                    continue
                kd = K.kind(a, e.state.facts, fi, pk, r)
                bad = _bad(kd, ALLOWED[pos])
                sites.setdefault((id(e.node), pos), [e.node, f"{name}(.. {pos}={show(a)[:70]} ..)", pos, []])[3].append((bad, sorted(kd)))
        elif name == "build_pre_encoded_url":
            for a in e.args:
                kd = K.kind(a, e.state.facts, fi, pk, r)
                bad = sorted(x for x in kd if x in (DEC, RAW, UNK))
                sites.setdefault((id(e.node), show(a)), [e.node, f"{name}(.. {show(a)[:40]} ..)", "pre-encoded", []])[3].append((bad, sorted(kd)))
    for e in r.by_kind("store_attr"):
        if fi.name in SINKS:
            break       # the sink itself: its arguments are checked at every call site
        if e.obj[0] == "new" and e.attr in SLOT_POS and ALLOWED[SLOT_POS[e.attr]] is not None:
            pos = SLOT_POS[e.attr]
            kd = K.kind(e.value, e.state.facts, fi, pk, r)
            bad = _bad(kd, ALLOWED[pos])
            sites.setdefault((id(e.node), pos), [e.node, f"<new URL>.{e.attr} = {show(e.value)[:70]}", pos, []])[3].append((bad, sorted(kd)))
    return sites


def k1(ctx: Ctx, K: Kinds, only=None):
    """Constructor sinks receive encoded text of the right role."""
    model = ctx.model
    rule = "K1"
    ctx.rule(rule, floor=15 if not only else 3, what="every constructor sink receives encoded text of that component's role (never decoded / raw URL text)")
    for fi, bind, pk, r in contexts(K, model, only):
        ctx.functions.add(fi.qual)
        sites = _k1_sites(K, fi, pk, r)
        if any(b for _n, _c, _p, results in sites.values() for b, _k in results):
            r2 = _unmerged(model, fi, bind, r)      # a site is reported only if it is still unproved path by path
            if r2 is not r:
                sites = _k1_sites(K, fi, pk, r2)
        for node, cons, pos, results in sites.values():
            ctx.instance(rule)
            bads = [b for b, _k in results if b]
            ctx.ob(rule, fi.qual, cons, not bads,
                   f"text of kind {bads[0] if bads else ''} reaches the stored {pos}: it did not pass a {pos} quoter "
                   f"(decoded or raw text would be stored unencoded / re-interpreted)", where(fi, node),
                   sample=f"kinds {results[0][1]}")


def _k23_sites(K, fi, pk, r, r2, r3):
    sites = {}
    for e in r.by_kind("call"):
        q = K.quoter_of(e.func)
        if q is None or not e.args:
            continue
        name, info = q
        a = e.args[0]
        kd = K.kind(a, e.state.facts, fi, pk, r)
        if info[0] == "unquoter":
            bad = sorted(x for x in kd if x in (DEC, UNK))
            msg = f"{name} is applied to text of kind {bad}: decoded text would be decoded twice ('%2541' -> '%41' -> 'A')"
            rule = r3
        elif info[1]:       # requoter
            bad = sorted(x for x in kd if x in (DEC, UNK))
            msg = f"requoter {name} is applied to text of kind {bad}: escapes typed by the caller as literal text would be reinterpreted"
            rule = r2
        else:
            bad = sorted(x for x in kd if x.startswith("ENC") or x in (RAW, OPQ, UNK))
            msg = f"non-requoting {name} is applied to text of kind {bad}: already-encoded text would be encoded twice ('%20' -> '%2520')"
            rule = r2
        sites.setdefault((id(e.node), rule), [e.node, f"{name}({show(a)[:70]})", rule, msg, []])[4].append((bad, sorted(kd)))
    return sites


def k2_k3(ctx: Ctx, K: Kinds):
    model = ctx.model
    r2, r3 = "K2", "K3"
    ctx.rule(r2, floor=15, what="decoded text meets only non-requoting quoters (once), URL text only requoters")
    ctx.rule(r3, floor=8, what="unquoters read encoded text")
    for fi, bind, pk, r in contexts(K, model):
        sites = _k23_sites(K, fi, pk, r, r2, r3)
        if any(b for _n, _c, _r, _m, results in sites.values() for b, _k in results):
            rr = _unmerged(model, fi, bind, r)
            if rr is not r:
                sites = _k23_sites(K, fi, pk, rr, r2, r3)
        for node, cons, rule, msg, results in sites.values():
            ctx.instance(rule)
            bads = [b for b, _k in results if b]
            ctx.ob(rule, fi.qual, cons, not bads, msg if bads else "", where(fi, node), sample=f"argument kinds {results[0][1]}")


def required_kind(K: Kinds, fi):
    """Parameters of fi that flow directly into a quoter: name -> ('DEC' for a non-requoting quoter | 'RAW')."""
    r = analyze(K.model, fi)
    out = {}
    for e in r.by_kind("call"):
        q = K.quoter_of(e.func)
        if q is None or not e.args or q[1][0] == "unquoter":
            continue
        for t in walk(e.args[0]):
            if t[0] == "param" and t[1] not in ("self", "cls"):
                out[t[1]] = DEC if not q[1][1] else RAW
    return out


def k_req(ctx: Ctx, K: Kinds):
    """Call sites inside the package pass each helper the kind of text its body quotes (e.g. with_name(name) quotes
    `name`, so a caller must not hand it text that is already encoded)."""
    model = ctx.model
    rule = "K-REQ"
    ctx.rule(rule, floor=2, what="internal call sites respect the kind a callee's parameter requires")
    req = {}
    for fi in funcs(model):
        if fi.cls == "URL":
            rk = required_kind(K, fi)
            if rk:
                req[fi.name] = (fi, rk)
    # module-level helpers that quote a parameter only under a boolean flag (make_netloc(..., encode)): the requirement holds at the
    # call sites that pass the flag as True
    flagged = {}
    for fi in model.all_funcs():
        if fi.cls is None and fi.module == "_parse":
            r0 = analyze(model, fi)
            for e in r0.by_kind("call"):
                q = K.quoter_of(e.func)
                if q is None or not e.args or q[1][0] == "unquoter" or q[1][1]:
                    continue
                flags = [k[1] for k, fv in e.state.facts.items() if fv is True and k[0] == "param" and
                         isinstance(getattr(fi.param_default(k[1]), "value", None), bool)]
                for t in walk(e.args[0]):
                    if t[0] == "param" and flags:
                        flagged.setdefault(fi.name, (fi, {}))[1].setdefault(t[1], set()).update(flags)
    for fi in funcs(model):
        r = analyze(model, fi)
        sites = {}
        for e in r.by_kind("call"):
            f = e.func
            if f[0] == "global" and f[2] in flagged:
                target, need_ = flagged[f[2]]
                params = list(target.params)
                bound = dict(zip(params, e.args))
                bound.update({kw: v for kw, v in e.kwargs if kw})
                for p, flags in need_.items():
                    if p not in bound or not any(bound.get(fl) == ("const", True) for fl in flags):
                        continue
                    kd = K.kind(bound[p], e.state.facts, fi, None, r)
                    bad = sorted(x for x in kd if x.startswith("ENC") or x in (RAW, OPQ))
                    sites.setdefault((id(e.node), p), [e.node, f"{f[2]}({p}={show(bound[p])[:60]}, {sorted(flags)[0]}=True)", DEC, []])[3].append((bad, sorted(kd)))
                continue
            if not (f[0] == "attr" and f[1][0] == "param" and f[2] in req):
                continue
            target, rk = req[f[2]]
            params = [p for p in target.params if p not in ("self", "cls")]
            bound = dict(zip(params, e.args))
            bound.update({kw: v for kw, v in e.kwargs if kw})
            for p, want in rk.items():
                if p not in bound:
                    continue
                kd = K.kind(bound[p], e.state.facts, fi, None, r)
                if want == DEC:
                    bad = sorted(x for x in kd if x.startswith("ENC") or x in (RAW, OPQ))
                else:
                    bad = sorted(x for x in kd if x == DEC)
                # an `encoded`-style flag forwarded to the callee transfers the responsibility
                if bad and "encoded" in bound and bound["encoded"] != ("const", False):
                    bad = []        # (given by keyword or by position)
                sites.setdefault((id(e.node), p), [e.node, f"{f[2]}({p}={show(bound[p])[:60]})", want, []])[3].append((bad, sorted(kd)))
        for node, cons, want, results in sites.values():
            ctx.instance(rule)
            bads = [b for b, _k in results if b]
            ctx.ob(rule, fi.qual, cons, not bads,
                   f"the callee quotes this parameter (expects {want} text) but receives text of kind {bads[0] if bads else ''}: "
                   "the existing encoded text would be encoded again", where(fi, node), sample=f"kinds {results[0][1]}")


# K4: accessor / unquoter pairing (C06) -------------------------------------------------------------------------
ACCESSOR_ROLE = {
    # decoded accessor: (role of the raw text it must read, predicate on the unquoter configuration)
    "user": ("userinfo", lambda c: not c["qs"]),
    "password": ("userinfo", lambda c: not c["qs"]),
    "path": ("path", lambda c: not c["qs"] and "+" in c["unsafe"]),
    "path_safe": ("path", lambda c: not c["qs"] and "+" in c["unsafe"] and set("/%") <= set(c["ignore"])),
    "parts": ("path", lambda c: not c["qs"]),
    "name": ("path", lambda c: not c["qs"]),
    "suffix": ("path", lambda c: not c["qs"]),
    "suffixes": ("path", lambda c: not c["qs"]),
    "query_string": ("query", lambda c: c["qs"]),
    "fragment": ("fragment", lambda c: not c["qs"]),
}


def unquoters_behind(K, model, term, fi, seen, via=""):
    """(name, configuration, through-which-accessor) of every unquoter whose output a term is built from, following
    reads of other URL properties."""
    out = []
    for t in walk(term):
        if t[0] == "call":
            q = K.quoter_of(t[1])
            if q and q[1][0] == "unquoter":
                out.append((q[0], q[1][1], via))
        if t[0] == "attr" and t[1] == ("param", "self") and model.has_func(f"_url.URL.{t[2]}") and t[2] not in seen:
            pf = model.func(f"_url.URL.{t[2]}")
            if pf.memo == "cached_property":
                seen.add(t[2])
                for _s, v2, _n in analyze(model, pf).returns:
                    out.extend(unquoters_behind(K, model, v2, pf, seen, via or t[2]))
    return out


def k4(ctx: Ctx, K: Kinds):
    model = ctx.model
    rule = "K4"
    ctx.rule(rule, floor=10, what="each decoded accessor applies the right unquoter to the raw text of its own component")
    for acc, (role, pred) in ACCESSOR_ROLE.items():
        q = f"_url.URL.{acc}"
        if not model.has_func(q):
            raise AnalysisError(f"anchor vanished: accessor {acc}")
        fi = model.func(q)
        r = analyze(model, fi)
        ctx.functions.add(q)
        calls = [e for e in r.by_kind("call") if K.quoter_of(e.func) and K.quoter_of(e.func)[1][0] == "unquoter"]
        ctx.instance(rule)
        problems = []
        if not calls:
            problems.append("no unquoter is applied")
        for e in calls:
            name, info = K.quoter_of(e.func)
            kd = K.kind(e.args[0], e.state.facts, fi, None, r)
            want = {f"ENC:{role}"} | ({"ENC:querypart"} if role == "query" else set())
            bad = sorted(x for x in kd if x not in NEUTRAL and x not in want)
            if bad:
                problems.append(f"{name} reads text of kind {bad}, not the raw {role}")
            if not pred(info[1]):
                problems.append(f"{name} has configuration {info[1]}, which is not the one `{acc}` promises")
        # every non-constant return value is the unquoter's output (or built from it)
        for s, v, node in r.returns:
            kd = K.kind(v, s.facts, fi, None, r)
            if any(x.startswith("ENC") or x in (RAW, UNK) for x in kd):
                problems.append(f"returns text of kind {sorted(kd)} ({show(v)[:50]})")
            # ... and of no *other* unquoter: a value taken from another decoded accessor was decoded under that
            # accessor's rules (e.g. `path` decodes %2F, which `path_safe` promises to keep)
            for uname, ucfg, via in unquoters_behind(K, model, v, fi, set()):
                if not pred(ucfg):
                    problems.append(f"returns text decoded by {uname}{' (through ' + via + ')' if via else ''}, whose configuration "
                                    f"{ucfg} is not the one `{acc}` promises")
        ctx.ob(rule, q, f"decoded accessor `{acc}`", not problems, "; ".join(sorted(set(problems))), where(fi, fi.node),
               sample=f"unquoter over raw {role}")
    # `query` goes through parse_qsl over the raw query
    fi = model.func("_url.URL._parsed_query")
    r = analyze(model, fi)
    ctx.instance(rule)
    ok = all(v[0] == "call" and v[1][-1] == "parse_qsl" and v[2] and v[2][0] == ("attr", ("param", "self"), "_query") and
             ("keep_blank_values", ("const", True)) in v[3] for _s, v, _n in r.returns) and bool(r.returns)
    ctx.ob(rule, fi.qual, "parsed query", ok, "the query mapping is not parse_qsl(raw query, keep_blank_values=True)", where(fi, fi.node),
           sample="parse_qsl(self._query, keep_blank_values=True)")


def k5(ctx: Ctx, K: Kinds):
    """Caller-asserted encoding (OPQ) arises only from the documented `encoded` parameters: a helper's own `encoded`
    parameter is bound, at every call site, to a literal False / its default or to the caller's documented flag."""
    from ..kinds import ENCODED_FLAG
    model = ctx.model
    rule = "K5"
    ctx.rule(rule, floor=2, what="`encoded` of internal helpers is only ever the caller's documented flag or False")
    documented = {"_url.URL.__new__", "_url.URL.build", "_url.URL.with_path", "_url.URL.joinpath"}
    helpers = [q for q in ENCODED_FLAG if q not in documented]
    for q in helpers:
        if not model.has_func(q):
            raise AnalysisError(f"anchor vanished: {q}")
        name = q.rsplit(".", 1)[1]
        for fi in funcs(model):
            r = analyze(model, fi)
            seen = set()
            for e in r.by_kind("call"):
                if not (e.func[0] == "attr" and e.func[1][0] == "param" and e.func[2] == name):
                    continue
                if id(e.node) in seen:
                    continue
                seen.add(id(e.node))
                ctx.instance(rule)
                target = model.func(q)
                params = [p for p in target.params if p not in ("self", "cls")]
                bound = dict(zip(params, e.args))
                bound.update({kw: v for kw, v in e.kwargs if kw})
                v = bound.get("encoded")
                ok = v is None or v == ("const", False) or (v == ("param", "encoded") and fi.qual in documented)
                ctx.ob(rule, fi.qual, show(e.value)[:80], ok,
                       f"{name}() is told its text is already encoded by something other than a documented `encoded` flag: "
                       "unquoted text would be stored", where(fi, e.node), sample="encoded omitted / False / the caller's documented flag")


# methods that quote their text argument and store it: handing them text decoded from the same object is a round trip
_REQUOTING_METHODS = {"with_name", "with_suffix", "with_path", "with_user", "with_password", "with_fragment", "joinpath",
                      "_make_child", "__truediv__"}


def k_roundtrip(ctx: Ctx, K: Kinds):
    """Decoding a stored component and quoting it again is not the identity: escapes of characters the component keeps
    encoded (%2F and %2B in a path, %25 before two hex digits, ...) come back as the bare character, or make the
    validation of the re-quoted text fail. A modifier that keeps part of a component must splice the *raw* text; what
    it reads through a decoded accessor of the same object must never reach a (non-query) quoter or a quoting modifier."""
    model = ctx.model
    rule = "K-RT"
    ctx.rule(rule, floor=0, what="no stored path / userinfo / fragment text is decoded and re-quoted (lossy for protected escapes)")
    S_ = ("param", "self")
    n = 0
    for fi in funcs(model):
        if fi.cls != "URL":
            continue
        r = analyze(model, fi)
        seen = set()
        for e in r.by_kind("call"):
            sink = None
            q = K.quoter_of(e.func)
            if q and q[1][0] != "unquoter" and q[1][0] not in ("query", "querypart"):
                sink = f"quoter {q[0]}"
            elif e.func[0] == "attr" and e.func[1] == S_ and e.func[2] in _REQUOTING_METHODS:
                sink = f"self.{e.func[2]}()"
            if sink is None or id(e.node) in seen:
                continue
            seen.add(id(e.node))
            n += 1
            ctx.instance(rule)
            texts = [a for a in tuple(e.args) + tuple(v for _k, v in e.kwargs) if a[0] not in ("const",)]
            own = []
            for a in texts:
                for t in deep_walk(r, a):
                    if t[0] == "attr" and t[1] == S_ and model.has_func(f"_url.URL.{t[2]}") and \
                            unquoters_behind(K, model, t, fi, set()):
                        own.append(f"self.{t[2]}")
                    elif t[0] == "call" and K.quoter_of(t[1]) and K.quoter_of(t[1])[1][0] == "unquoter" and \
                            any(x[0] == "attr" and x[1] == S_ for x in walk(t)):
                        own.append(show(t)[:40])
            ctx.ob(rule, fi.qual, f"{sink}({', '.join(show(a)[:40] for a in texts)})", not own,
                   f"text decoded from this object ({', '.join(sorted(set(own)))}) is quoted again by {sink}: decoding and "
                   "re-quoting is lossy for escapes the component keeps encoded (a%2Fb -> a/b, a%2Bb -> a+b)",
                   where(fi, e.node), sample="argument text is not derived from a decoded accessor of self")
    if not n:
        ctx.instance(rule)
        ctx.ob(rule, "<package>", "re-quoting of own decoded text", True, sample="no quoting of own text", nontrivial=False)


def k_mix(ctx: Ctx, K: Kinds):
    """Lengths / offsets measured on decoded text must not be used to cut encoded text (and vice versa): an escape is
    three characters in the encoded form and one in the decoded form."""
    model = ctx.model
    rule = "K-MIX"
    ctx.rule(rule, floor=1, what="slice bounds measured on text of the same kind as the text being cut")
    n = 0
    for fi, bind, pk, r in contexts(K, model):
        sites = {}
        for e in r.by_kind("sub"):
            if e.index[0] != "slice":
                continue
            lens = [t for t in walk(e.index) if t[0] == "call" and t[1] == ("builtin", "len") and len(t[2]) == 1]
            finds = [t for t in walk(e.index) if t[0] == "call" and t[1][0] == "attr" and t[1][2] in ("find", "rfind", "index", "rindex")]
            if not lens and not finds:
                continue
            kb = K.kind(e.base, e.state.facts, fi, pk, r)
            for t in lens + finds:
                measured = t[2][0] if t[1] == ("builtin", "len") else t[1][1]
                km = K.kind(measured, e.state.facts, fi, pk, r)
                enc_b = any(x.startswith("ENC") or x in (RAW, OPQ) for x in kb)
                dec_b = DEC in kb
                enc_m = any(x.startswith("ENC") or x in (RAW, OPQ) for x in km)
                dec_m = DEC in km
                bad = (enc_b and dec_m and not enc_m) or (dec_b and enc_m and not dec_m)
                sites.setdefault((id(e.node), show(t)[:60]), [e.node, f"{show(e.base)[:40]}[.. {show(t)[:40]} ..]", []])[2].append(
                    (bad, sorted(kb), sorted(km)))
        for node, cons, results in sites.values():
            ctx.instance(rule)
            n += 1
            bads = [x for x in results if x[0]]
            ctx.ob(rule, fi.qual, cons, not bads,
                   f"text of kind {bads[0][1] if bads else ''} is cut at a position measured on text of kind {bads[0][2] if bads else ''}: "
                   "the lengths of encoded and decoded text differ wherever there is an escape", where(fi, node),
                   sample=f"base {results[0][1]}, measured {results[0][2]}")
    if not n:
        ctx.instance(rule)
        ctx.ob(rule, "<package>", "length-derived slice bounds", True, sample="none present", nontrivial=False)
