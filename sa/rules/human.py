"""T12, F5 (C18): human_repr escapes at least the delimiters that have a meaning in each position and '%', and
renders every component."""
from __future__ import annotations

from ..fold import CannotFold, Folder
from ..interp import analyze, deep_walk, truth
from ..model import AnalysisError
from ..report import Ctx, where
from ..strtpl import flatten
from ..terms import show, walk

S = ("param", "self")
# position -> characters that would change the parse there (B2) and therefore must be escaped by human_repr
REQUIRED = {
    "user": set(":@/?#"), "password": set("@/?#"), "path": set("?#"),
    "query": set("&=+;#"), "fragment": set(),
}


def human_rules(ctx: Ctx):
    model = ctx.model
    rule = "T12"
    ctx.rule(rule, floor=5, what="human_repr escape sets cover the position-sensitive delimiters and '%'")
    fi = model.func("_url.URL.human_repr")
    r = analyze(model, fi)
    ctx.functions.add(fi.qual)
    fold = Folder(model)
    seen = {}
    for e in r.by_kind("call"):
        if e.func[0] == "global" and e.func[2] == "human_quote" and len(e.args) == 2:
            src = e.args[0]
            pos = None
            if src[0] == "attr" and src[1] == S and src[2] in ("user", "password", "path", "fragment"):
                pos = src[2]
            elif src[0] in ("item", "elem") or any(t == ("attr", S, "query") for t in walk(src)):
                pos = "query"
            try:
                chars = set(fold.fold(e.args[1]))
            except CannotFold:
                raise AnalysisError(f"human_repr: escape set {show(e.args[1])} cannot be folded")
            if pos is None:
                raise AnalysisError(f"human_repr: cannot tell which component {show(src)} is")
            seen.setdefault(pos, set()).update(chars) if pos not in seen else seen.__setitem__(pos, seen[pos] & chars)
    for pos, req in REQUIRED.items():
        ctx.instance(rule)
        got = seen.get(pos)
        ctx.ob(rule, fi.qual, f"escape set of the {pos}", got is not None and req <= got,
               f"human_repr escapes {''.join(sorted(got or ''))!r} in the {pos}; {''.join(sorted(req - (got or set())))!r} would change the parse there",
               where(fi, fi.node), sample="".join(sorted(got or "")))
    # human_quote always escapes '%' first, with upper-case %XX, and leaves printable text alone
    hq = model.func("_quoters.human_quote")
    rq = analyze(model, hq)
    ctx.functions.add(hq.qual)
    ctx.instance(rule)
    iters = [n for n in rq.loops.values()]
    pct_first = False
    upper = False
    repl_phis = set()       # the loop-carried text the escapes are applied to
    for e in rq.by_kind("call"):
        if e.func[0] == "attr" and e.func[2] == "replace" and len(e.args) == 2 and e.args[0][0] == "elem":
            if e.func[1][0] == "phi":
                repl_phis.add(e.func[1])
            it = e.args[0][1]
            if flatten(it) == [("lit", "%"), ("val", ("param", hq.params[1]))]:
                pct_first = True
            rep = flatten(e.args[1])        # '%' + two upper-case hex digits of the character, in any spelling
            if len(rep) == 2 and rep[0] == ("lit", "%") and rep[1][0] == "fmt" and rep[1][2] == "02X" and \
                    rep[1][1] == ("call", ("builtin", "ord"), (e.args[0],), ()):
                upper = True
    ctx.ob(rule, hq.qual, "'%' + unsafe, rendered %XX", pct_first and upper,
           f"human_quote must escape '%' before the position delimiters and render escapes as upper-case %XX (percent first: {pct_first}, %02X: {upper})",
           where(hq, hq.node), sample="for c in '%' + unsafe: replace(c, f'%{ord(c):02X}')")
    # the escape loop dominates every return of non-empty text: what is returned is built from the text *after* the
    # replacement of '%' + unsafe, on every path (a second escaping pass with other rules must not replace it)
    sparam = ("param", hq.params[0])
    for st, v, node in rq.returns:
        if truth(sparam, st.facts) is False and v == sparam:
            continue
        ctx.instance(rule)
        # what the returned text is made of, looking through loop-built lists (the values appended to them) but not
        # behind the replacement loop itself
        reach = list(deep_walk(rq, v, keep=repl_phis))
        uses_raw = any(t == sparam for t in reach)
        uses_replaced = any(t in repl_phis for t in reach)
        ctx.ob(rule, hq.qual, f"return {show(v)[:60]}", uses_replaced and not uses_raw,
               "a return path of human_quote is built from the text before '%' and the position delimiters were replaced: "
               "delimiters survive on that path", where(hq, node), sample="built from the text after the replacement loop")
    # the query is rendered pair by pair: key and value are the two halves of the *same* element of query.items()
    # (a lookup query[k] returns the first value of a repeated key)
    pairs = {}
    for e in r.by_kind("call"):
        if e.func[0] == "global" and e.func[2] == "human_quote" and e.args:
            a = e.args[0]
            if a[0] == "item" and a[1][0] == "elem":
                pairs.setdefault(a[1], set()).add(a[2])
            elif a[0] in ("sub", "call") and any(t == ("attr", S, "query") for t in walk(a)):
                pairs.setdefault(("lookup", a), set()).add("lookup")
    ctx.instance(rule)
    ok = bool(pairs) and all(k[0] == "elem" and k[1][0] == "call" and k[1][1][0] == "attr" and k[1][1][2] == "items" and v == {0, 1}
                             for k, v in pairs.items())
    ctx.ob(rule, fi.qual, "query pairs", ok,
           "the query is not rendered from the (key, value) halves of each element of query.items(): with a repeated key a "
           "lookup by key shows the first value every time", where(fi, fi.node), sample="for k, v in self.query.items()")
    # F5: every component is rendered, the explicit port is used
    rule5 = "F5"
    ctx.rule(rule5, floor=1, what="human_repr renders every component once and uses the explicit port")
    for s, v, node in r.returns:
        ctx.instance(rule5)
        mentioned = {t[2] for t in deep_walk(r, v) if t[0] == "attr" and t[1] == S}
        need_ = {"user", "password", "host", "path", "query", "fragment", "explicit_port", "_scheme"}
        missing = need_ - mentioned
        bad_port = "port" in mentioned
        ok = v[0] == "call" and v[1][0] == "global" and v[1][2] == "unsplit_result" and not missing and not bad_port
        ctx.ob(rule5, fi.qual, "rendered components", ok,
               f"human_repr does not render {sorted(missing)}" + (" and uses `port` (injects the default port)" if bad_port else ""),
               where(fi, node), sample=str(sorted(mentioned)))
