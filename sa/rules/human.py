"""T12, F5 (C18): human_repr escapes at least the delimiters that have a meaning in each position and '%', and
renders every component."""
from __future__ import annotations

from ..fold import CannotFold, Folder
from ..interp import analyze, deep_walk, truth
from ..model import AnalysisError
from ..report import Ctx, where
from ..strtpl import flatten
from ..terms import show, walk

S = ("param", "self")
# position -> characters that would change the parse there (B2) and therefore must be escaped by human_repr
REQUIRED = {
    "user": set(":@/?#"), "password": set("@/?#"), "path": set("?#"),
    "query": set("&=+;#"), "fragment": set(),
}


def _hq_args(model, e):
    """Positional view (text, unsafe) of a human_quote call, whichever way the arguments were passed."""
    fi = model.func("_quoters.human_quote")
    out = list(e.args)
    kw = dict(e.kwargs)
    for p in fi.params[len(out):]:
        if p in kw:
            out.append(kw[p])
    return out


def _human_quote_replace_loop(ctx, rule, hq, rq, replaces, sparam, uparam):
    ctx.instance(rule)
    pct_first = False
    upper = False
    repl_phis = set()       # the loop-carried text the escapes are applied to
    for e in replaces:
        if e.func[1][0] == "phi":
            repl_phis.add(e.func[1])
        it = e.args[0][1]
        if flatten(it) == [("lit", "%"), ("val", uparam)]:
            pct_first = True
        rep = flatten(e.args[1])        # '%' + two upper-case hex digits of the character, in any spelling
        if len(rep) == 2 and rep[0] == ("lit", "%") and rep[1][0] == "fmt" and rep[1][2] == "02X" and \
                rep[1][1] == ("call", ("builtin", "ord"), (e.args[0],), ()):
            upper = True
    ctx.ob(rule, hq.qual, "'%' + unsafe, rendered %XX", pct_first and upper,
           f"human_quote must escape '%' before the position delimiters and render escapes as upper-case %XX (percent first: {pct_first}, %02X: {upper})",
           where(hq, hq.node), sample="for c in '%' + unsafe: replace(c, f'%{ord(c):02X}')")
    # the escape loop dominates every return of non-empty text: what is returned is built from the text *after* the
    # replacement of '%' + unsafe, on every path (a second escaping pass with other rules must not replace it)
    for st, v, node in rq.returns:
        if truth(sparam, st.facts) is False and v == sparam:
            continue
        ctx.instance(rule)
        # what the returned text is made of, looking through loop-built lists (the values appended to them) but not
        # behind the replacement loop itself
        reach = list(deep_walk(rq, v, keep=repl_phis))
        uses_raw = any(t == sparam for t in reach)
        uses_replaced = any(t in repl_phis for t in reach)
        ctx.ob(rule, hq.qual, f"return {show(v)[:60]}", uses_replaced and not uses_raw,
               "a return path of human_quote is built from the text before '%' and the position delimiters were replaced: "
               "delimiters survive on that path", where(hq, node), sample="built from the text after the replacement loop")


def _is_translated(t, sparam, tables):
    return t[0] == "call" and t[1][0] == "attr" and t[1][2] == "translate" and t[1][1] == sparam and t[2] and t[2][0] in tables


def _human_quote_translate(ctx, rule, hq, rq, translates, sparam, uparam):
    """Idiom (B): one simultaneous pass `s.translate(T)` with T = str.maketrans({c: '%XX' for c in '%' + unsafe}) (possibly kept
    in a memo dict keyed by `unsafe`); text with non-printable characters is rebuilt character by character, each
    printable character going through the same table - looked up by its code point, which is what maketrans keys are."""
    memo = {}       # module-level memo: global table term -> stored value
    for e in rq.by_kind("store_sub"):
        base = e.base
        while base[0] == "mut":
            base = base[1]
        if base[0] == "global" and e.index == uparam:
            memo[base] = e.value

    def table_def(t):
        # the memoised table: G[unsafe] / G.get(unsafe) of a module-level dict whose entry for `unsafe` is stored in this function
        if t[0] == "sub" and t[1][0] == "global" and t[2] == uparam and t[1] in memo:
            return memo[t[1]]
        if t[0] == "call" and t[1][0] == "attr" and t[1][2] == "get" and t[1][1][0] == "global" and t[2][:1] == (uparam,) and t[1][1] in memo:
            return memo[t[1][1]]
        return t

    def table_ok(t):
        """(True | False, why) for a table in a known spelling - str.maketrans(<dict comprehension>) or the comprehension itself
        with code-point keys; an unknown spelling is exit 2, not a violation."""
        t = table_def(t)
        by_maketrans = t[0] == "call" and t[1][0] == "attr" and t[1][2] == "maketrans" and len(t[2]) == 1
        d = t[2][0] if by_maketrans else t
        if not (d[0] == "comp" and d[1] == "dict" and len(d[2]) == 1 and d[2][0][0] == "tuple" and len(d[2][0][1]) == 2 and len(d[3]) == 1):
            raise AnalysisError(f"human_quote: the translation table {show(t)[:60]} is not a dict comprehension (optionally through "
                                "str.maketrans, optionally memoised per `unsafe`) - unknown idiom")
        key, val = d[2][0][1]
        if flatten(d[3][0]) != [("lit", "%"), ("val", uparam)]:
            return False, "the table is not built from '%' + unsafe"
        c = key
        if key[0] == "call" and key[1] == ("builtin", "ord") and len(key[2]) == 1:
            c = key[2][0]
        elif not by_maketrans:
            return False, "str.translate looks characters up by code point, but the table is keyed by the characters themselves: nothing is escaped"
        rep = flatten(val)
        if not (c[0] == "elem" and len(rep) == 2 and rep[0] == ("lit", "%") and rep[1][0] == "fmt" and rep[1][2] == "02X"
                and rep[1][1] == ("call", ("builtin", "ord"), (c,), ())):
            return False, "an entry is not c -> '%' + two upper-case hex digits of c"
        return True, ""
    tables = {e.args[0] for e in translates}
    ctx.instance(rule)
    verdicts = [table_ok(t) for t in tables]
    ctx.ob(rule, hq.qual, "'%' + unsafe, rendered %XX", all(ok for ok, _w in verdicts),
           "human_quote's translation table: " + "; ".join(w for ok, w in verdicts if not ok), where(hq, hq.node),
           sample="s.translate(str.maketrans({c: f'%{ord(c):02X}' for c in '%' + unsafe}))")
    for st, v, node in rq.returns:
        if truth(sparam, st.facts) is False and v == sparam:
            continue
        ctx.instance(rule)
        problems = []
        if v[0] == "call" and v[1][0] == "attr" and v[1][2] == "translate" and v[1][1] == sparam and v[2] and v[2][0] in tables:
            pass        # the whole text through the table
        elif v[0] == "call" and v[1] == ("attr", ("const", ""), "join") and len(v[2]) == 1 and v[2][0][0] == "comp" and len(v[2][0][3]) == 1 and \
                _is_translated(v[2][0][3][0], sparam, tables):
            # the text was translated first; the rebuild only has to leave its printable characters alone and escape the others
            src = v[2][0][3][0]
            for elt in v[2][0][2]:
                ch = [t for t in walk(elt) if t[0] == "elem" and t[1] == src]
                if not ch:
                    problems.append(f"element {show(elt)[:40]} is not derived from a character of the translated text")
                elif elt == ch[0]:
                    pass
                elif elt[0] == "call" and elt[1][0] in ("ext", "global") and elt[1][-1] == "quote" and elt[2] == (ch[0],):
                    if truth(("call", ("attr", ch[0], "isprintable"), (), ()), st.facts) is True:
                        problems.append("printable characters are escaped by quote()")
                else:
                    raise AnalysisError(f"human_quote: element {show(elt)[:40]} of the rebuilt text (unknown idiom)")
        elif v == sparam:
            problems.append("the text is returned as it came, without the translation")
        elif v[0] == "call" and v[1] == ("attr", ("const", ""), "join") and len(v[2]) == 1 and v[2][0][0] == "comp" and v[2][0][3] == (sparam,):
            for elt in v[2][0][2]:
                ch = [t for t in walk(elt) if t[0] == "elem" and t[1] == sparam]
                if not ch:
                    problems.append(f"element {show(elt)[:40]} is not derived from a character of the text")
                    continue
                c = ch[0]
                if elt[0] == "call" and elt[1][0] == "attr" and elt[1][2] == "get" and elt[1][1] in tables and len(elt[2]) == 2:
                    if elt[2][0] != ("call", ("builtin", "ord"), (c,), ()):
                        problems.append(f"the table is keyed by code points but is looked up with {show(elt[2][0])[:30]}: the look-up never "
                                        "hits and '%' and the delimiters are copied raw")
                    if elt[2][1] != c:
                        problems.append("the look-up falls back to something other than the character itself")
                elif elt[0] == "call" and elt[1][0] in ("ext", "global") and elt[1][-1] == "quote" and elt[2] == (c,):
                    if truth(("call", ("attr", c, "isprintable"), (), ()), st.facts) is True:
                        problems.append("printable characters are escaped by quote()")
                elif elt == c:
                    problems.append("a character is copied without going through the table")
                else:
                    problems.append(f"element {show(elt)[:40]} is neither a table look-up nor quote(c)")
        else:
            raise AnalysisError(f"human_quote: return value {show(v)[:60]} is neither the text translated by the table nor a per-character "
                                "rebuild through it (unknown idiom)")
        ctx.ob(rule, hq.qual, f"return {show(v)[:60]}", not problems,
               "a return path of human_quote does not escape '%' and the position delimiters: " + "; ".join(problems), where(hq, node),
               sample="every character goes through the escape table")


def human_rules(ctx: Ctx):
    model = ctx.model
    rule = "T12"
    ctx.rule(rule, floor=5, what="human_repr escape sets cover the position-sensitive delimiters and '%'")
    fi = model.func("_url.URL.human_repr")
    r = analyze(model, fi)
    ctx.functions.add(fi.qual)
    fold = Folder(model)
    seen = {}
    for e in r.by_kind("call"):
        if e.func[0] == "global" and e.func[2] == "human_quote" and len(_hq_args(model, e)) == 2:
            hq_args = _hq_args(model, e)
            src = hq_args[0]
            pos = None
            if src[0] == "attr" and src[1] == S and src[2] in ("user", "password", "path", "fragment"):
                pos = src[2]
            elif src[0] in ("item", "elem") or any(t == ("attr", S, "query") for t in walk(src)):
                pos = "query"
            try:
                chars = set(fold.fold(hq_args[1]))
            except CannotFold:
                raise AnalysisError(f"human_repr: escape set {show(hq_args[1])} cannot be folded")
            if pos is None:
                raise AnalysisError(f"human_repr: cannot tell which component {show(src)} is")
            seen.setdefault(pos, set()).update(chars) if pos not in seen else seen.__setitem__(pos, seen[pos] & chars)
    for pos, req in REQUIRED.items():
        ctx.instance(rule)
        got = seen.get(pos)
        ctx.ob(rule, fi.qual, f"escape set of the {pos}", got is not None and req <= got,
               f"human_repr escapes {''.join(sorted(got or ''))!r} in the {pos}; {''.join(sorted(req - (got or set())))!r} would change the parse there",
               where(fi, fi.node), sample="".join(sorted(got or "")))
    # human_quote always escapes '%' first, with upper-case %XX, and leaves printable text alone.  Two idioms are understood:
    # (A) a loop of str.replace over '%' + unsafe, (B) one str.translate with a table built from '%' + unsafe.
    hq = model.func("_quoters.human_quote")
    rq = analyze(model, hq)
    ctx.functions.add(hq.qual)
    sparam = ("param", hq.params[0])
    uparam = ("param", hq.params[1])
    replaces = [e for e in rq.by_kind("call")
                if e.func[0] == "attr" and e.func[2] == "replace" and len(e.args) == 2 and e.args[0][0] == "elem"]
    translates = [e for e in rq.by_kind("call") if e.func[0] == "attr" and e.func[2] == "translate" and len(e.args) == 1]
    if replaces:
        _human_quote_replace_loop(ctx, rule, hq, rq, replaces, sparam, uparam)
    elif translates:
        _human_quote_translate(ctx, rule, hq, rq, translates, sparam, uparam)
    else:
        raise AnalysisError("human_quote: the escape step is neither a str.replace loop nor a str.translate table (unknown idiom)")
    # the query is rendered pair by pair: key and value are the two halves of the *same* element of query.items()
    # (a lookup query[k] returns the first value of a repeated key)
    pairs = {}
    for e in r.by_kind("call"):
        if e.func[0] == "global" and e.func[2] == "human_quote" and _hq_args(model, e):
            a = _hq_args(model, e)[0]
            if a[0] == "item" and a[1][0] == "elem":
                pairs.setdefault(a[1], set()).add(a[2])
            elif a[0] in ("sub", "call") and any(t == ("attr", S, "query") for t in walk(a)):
                pairs.setdefault(("lookup", a), set()).add("lookup")
    ctx.instance(rule)
    ok = bool(pairs) and all(k[0] == "elem" and k[1][0] == "call" and k[1][1][0] == "attr" and k[1][1][2] == "items" and v == {0, 1}
                             for k, v in pairs.items())
    # ... and the rendered pairs are joined with '&'
    joins = [e for e in r.by_kind("call") if e.func[0] == "attr" and e.func[2] == "join" and e.func[1][0] == "const" and
             any(t[0] == "call" and t[1][0] == "global" and t[1][2] == "human_quote" for a in e.args for t in deep_walk(r, a))]
    amp = bool(joins) and all(e.func[1] == ("const", "&") or e.func[1] == ("const", "=") for e in joins) and \
        any(e.func[1] == ("const", "&") for e in joins)
    ctx.instance(rule)
    ctx.ob(rule, fi.qual, "query pair separator", amp,
           "the rendered query pairs are not joined with '&': the pairs run together and the query no longer re-parses",
           where(fi, fi.node), sample="'&'.join(pairs)")
    ctx.ob(rule, fi.qual, "query pairs", ok,
           "the query is not rendered from the (key, value) halves of each element of query.items(): with a repeated key a "
           "lookup by key shows the first value every time", where(fi, fi.node), sample="for k, v in self.query.items()")
    # F5: every component is rendered, the explicit port is used
    rule5 = "F5"
    ctx.rule(rule5, floor=1, what="human_repr renders every component once and uses the explicit port")
    for s, v, node in r.returns:
        ctx.instance(rule5)
        mentioned = {t[2] for t in deep_walk(r, v) if t[0] == "attr" and t[1] == S}
        need_ = {"user", "password", "host", "path", "query", "fragment", "explicit_port", "_scheme"}
        missing = need_ - mentioned
        bad_port = "port" in mentioned
        ok = v[0] == "call" and v[1][0] == "global" and v[1][2] == "unsplit_result" and not missing and not bad_port
        ctx.ob(rule5, fi.qual, "rendered components", ok,
               f"human_repr does not render {sorted(missing)}" + (" and uses `port` (injects the default port)" if bad_port else ""),
               where(fi, node), sample=str(sorted(mentioned)))
