"""IM1-IM8 (C08, C12, C20): stores only on fresh objects, cached mutables never exposed, memoised code is pure
in its key, rebinding discipline, arguments never mutated, no bool/int key aliasing, no mutated module state."""
from __future__ import annotations

import ast

from ..interp import alternatives, analyze, truth
from ..model import AnalysisError, Model, unparse
from ..report import Ctx, where
from ..terms import NONE, show, walk
from .shape_rules import cache_root

SLOTS = {"_scheme", "_netloc", "_path", "_query", "_fragment", "_cache"}
PKG_MODULES = ("_url", "_parse", "_path", "_query", "_quoters")
COPYING = {"MultiDict", "list", "tuple", "dict", "MultiDictProxy", "CIMultiDict", "sorted", "frozenset", "set", "len", "bool"}
IMPURE = {("os", "environ"), ("os", "getenv"), ("time", None), ("random", None), ("datetime", None), ("builtins", "open"),
          ("builtins", "input"), ("builtins", "globals"), ("builtins", "id"), ("sys", "argv"), ("threading", None)}


def root_of(t):
    while t[0] in ("mut", "attr", "sub", "item", "elem"):
        t = t[1]
    return t


def pkg_funcs(model: Model):
    return [fi for fi in model.all_funcs() if fi.module in PKG_MODULES]


def im1_im2(ctx: Ctx):
    model = ctx.model
    rule = "IM1"
    ctx.rule(rule, floor=20, what="every store to a URL slot targets an object created in the same function (or is __setstate__)")
    for fi in pkg_funcs(model):
        r = analyze(model, fi)
        seen = set()
        for e in r.by_kind("store_attr"):
            if e.attr not in SLOTS:
                continue
            key = (id(e.node), e.attr)
            if key in seen:
                continue
            seen.add(key)
            ctx.instance(rule)
            fresh = _fresh(model, e.obj)
            ok = fresh or fi.qual == "_url.URL.__setstate__"
            ctx.ob(rule, fi.qual, f"{show(e.obj)}.{e.attr} = ...", ok,
                   f"slot {e.attr} of an existing object ({show(e.obj)}) is assigned: URL values must never change after creation",
                   where(fi, e.node), sample="object.__new__(URL) in the same function" if fresh else "__setstate__")
        # other attribute stores on self/other URLs
        for e in r.by_kind("store_attr"):
            if e.attr in SLOTS or _fresh(model, e.obj):
                continue
            if e.obj[0] == "param" and fi.cls == "URL":
                ctx.instance(rule)
                ctx.ob(rule, fi.qual, f"{show(e.obj)}.{e.attr} = ...", False,
                       f"attribute {e.attr} of an existing URL-related object is assigned", where(fi, e.node))
    rule = "IM2"
    ctx.rule(rule, floor=1, what="__setstate__ is never called by the package; the unpickling constructor path creates its object directly")
    calls = 0
    for fi in pkg_funcs(model):
        r = analyze(model, fi)
        for e in r.by_kind("call"):
            if e.func[0] == "attr" and e.func[2] == "__setstate__":
                calls += 1
                ctx.instance(rule)
                ctx.ob(rule, fi.qual, show(e.value), False, "package code calls __setstate__ on an existing object", where(fi, e.node))
    fi = model.func("_url.URL.__new__")
    r = analyze(model, fi)
    und = [(s, v, n) for s, v, n in r.returns if any(fv and k[0] == "cmp" and k[1] == "Is" and k[3][0] == "global" and k[3][2] == "UNDEFINED"
                                                      for k, fv in s.facts.items())]
    ctx.instance(rule)
    ctx.ob(rule, fi.qual, "URL() without argument (unpickling)", bool(und) and all(_fresh(model, v) for _s, v, _n in und),
           "the UNDEFINED branch of __new__ must create a fresh object: a cached constructor would hand the shared object to "
           "__setstate__", where(fi, fi.node), sample="returns object.__new__(URL)")


def _fresh(model, v, depth=0):
    """v is an object created for this call: object.__new__(...) here, or the result of an un-memoised package
    function all of whose returns are such objects."""
    if v[0] == "new":
        return True
    if v[0] == "call" and v[1][0] == "global" and depth < 3 and v[1][1] in model.modules:
        r = model.resolve_global(v[1][1], v[1][2])
        if r and r[0] == "func" and not r[1].memo:
            rr = analyze(model, r[1])
            return bool(rr.returns) and all(_fresh(model, x, depth + 1) for _s, x, _n in rr.returns)
    return False


def fresh_view(model, state, obj, res=None):
    """{attribute: term} of an object created for this call, as the caller sees it: the fields of object.__new__(...)
    created here, or - for the result of an un-memoised package constructor whose every return is such an object - the
    constructor's fields with its parameters replaced by the call's arguments, overlaid with what the caller stored
    afterwards. None when `obj` is not (known to be) fresh."""
    if obj[0] == "new":
        return {a: v for (o, a), v in state.heap.items() if o == obj}
    if not _fresh(model, obj):
        return None
    r = model.resolve_global(obj[1][1], obj[1][2])
    callee = r[1]
    rr = analyze(model, callee)
    params = [p for p in callee.params if p not in ("self", "cls")]
    bind = {("param", p): a for p, a in zip(params, [x for x in obj[2] if x[0] != "star"])}
    bind.update({("param", k): v for k, v in obj[3] if k})
    view = None
    for s2, v, _n in rr.returns:
        if v[0] != "new":
            return None        # nested constructors are not followed
        cur = {a: _subst(t, bind) for (o, a), t in s2.heap.items() if o == v}
        if view is not None and cur != view:
            return None
        view = cur
    if view is None:
        return None
    view = dict(view)
    view.update({a: v for (o, a), v in state.heap.items() if o == obj})
    return view


def _subst(t, bind):
    if t in bind:
        return bind[t]
    if isinstance(t, tuple):
        return tuple(_subst(x, bind) if isinstance(x, tuple) else x for x in t)
    return t


def occurrences(t, target, parent=None, out=None):
    """Parents of every occurrence of `target` (a term, or a predicate on terms) in t."""
    out = out if out is not None else []
    if (target(t) if callable(target) else t == target):
        out.append(parent)
        return out
    if isinstance(t, tuple):
        for x in t:
            if isinstance(x, tuple):
                occurrences(x, target, t if (t and isinstance(t[0], str)) else parent, out)
    return out


def _is_cache(t):
    while t[0] == "mut":
        t = t[1]
    return t[0] == "attr" and t[2] == "_cache"


def im3(ctx: Ctx):
    model = ctx.model
    rule = "IM3"
    ctx.rule(rule, floor=1, what="memoised values of mutable type are only consumed by copying constructors")
    mut_props = []
    for fi in model.all_funcs():
        if fi.memo == "cached_property" and fi.node.returns is not None:
            ann = unparse(fi.node.returns).strip("'\"")
            if ann.split("[")[0] in ("list", "dict", "MultiDict", "set", "bytearray"):
                mut_props.append(fi)
    if not mut_props:
        ctx.note("IM3: no memoised property of mutable type")
    for pf in mut_props:
        def target(t, name=pf.name):
            """The memoised object in any spelling: the accessor, or the entry of a URL's cache it is stored under."""
            if not (isinstance(t, tuple) and t and isinstance(t[0], str)):
                return False
            if t == ("attr", ("param", "self"), name):
                return True
            if t[0] == "sub" and t[2] == ("const", name) and _is_cache(t[1]):
                return True
            return t[0] == "call" and t[1][0] == "attr" and t[1][2] == "get" and _is_cache(t[1][1]) and bool(t[2]) and t[2][0] == ("const", name)
        for fi in pkg_funcs(model):
            r = analyze(model, fi)
            seen = set()
            for e in r.events:
                for name, val in e.data.items():
                    if not isinstance(val, tuple):
                        continue
                    if not (val and isinstance(val[0], str)):
                        continue        # untagged tuples (argument lists) are covered through the enclosing call term
                    terms = [val]
                    for t in terms:
                        for parent in occurrences(t, target):
                            key = (id(e.node), repr(parent)[:200])
                            if key in seen:
                                continue
                            seen.add(key)
                            if e.kind in ("attr", "sub", "call", "cond") and parent is None:
                                continue      # the load itself / a truthiness test
                            if fi.name == pf.name and e.kind == "return" and parent is None:
                                continue      # the accessor handing its entry to the property layer
                            ok = parent is not None and parent[0] == "call" and parent[1][0] in ("ext", "builtin", "global") \
                                and parent[1][-1] in COPYING and any(target(a) for a in parent[2])
                            # presence test of the cache entry
                            ok = ok or (parent is not None and parent[0] == "cmp" and parent[1] in ("Is", "IsNot") and NONE in parent[2:4])
                            ctx.instance(rule)
                            ctx.ob(rule, fi.qual, f"use of self.{pf.name} in {show(parent)[:80] if parent else e.kind}", ok,
                                   f"the memoised {unparse(pf.node.returns)} `{pf.name}` is used other than as the argument of a copying "
                                   "constructor: the shared cached object could be mutated or leak to callers", where(fi, e.node),
                                   sample="argument of a copying constructor")
    # the public mapping view is read-only
    q = model.func("_url.URL.query")
    r = analyze(model, q)
    ctx.instance(rule)
    ok = all(v[0] == "call" and v[1][-1] == "MultiDictProxy" for _s, v, _n in r.returns) and bool(r.returns)
    ctx.ob(rule, q.qual, "return value of URL.query", ok, "URL.query does not wrap its (cached) mapping in a read-only MultiDictProxy",
           where(q, q.node), sample="MultiDictProxy(...)")


def im4(ctx: Ctx):
    """Memoised code is a function of its key: no reads of rebindable/mutable module state, no impure library calls,
    stores only into fresh objects and into self._cache under constant keys."""
    model = ctx.model
    rule = "IM4"
    ctx.rule(rule, floor=40, what="memoised functions and properties are pure in their key")
    memo = [fi for fi in pkg_funcs(model) if fi.memo]
    memo += [t for _q, t, _a in model.lru_functions() if t not in memo]
    rebound = rebound_globals(model)
    for fi in memo:
        r = analyze(model, fi)
        ctx.functions.add(fi.qual)
        ctx.instance(rule)
        problems = []
        for n in ast.walk(fi.node):
            if isinstance(n, (ast.Global, ast.Nonlocal)):
                problems.append(f"`{type(n).__name__.lower()} {', '.join(n.names)}`")
        for e in r.events:
            for val in e.data.values():
                if not isinstance(val, tuple):
                    continue
                for t in walk(val) if (val and isinstance(val[0], str)) else []:
                    if t[0] == "ext" and ((t[1], t[2]) in IMPURE or (t[1], None) in IMPURE):
                        problems.append(f"reads {t[1]}.{t[2]}")
                    if t[0] == "attr" and t[1][0] == "ext" and t[1][2] is None and (t[1][1], t[2]) in IMPURE:
                        problems.append(f"reads {t[1][1]}.{t[2]}")
                    if t[0] == "builtin" and ("builtins", t[1]) in IMPURE:
                        problems.append(f"calls {t[1]}()")
                    if t[0] == "global" and (t[1], t[2]) in rebound and not _is_memo_callable(model, t):
                        problems.append(f"reads the re-bound module global {t[2]}")
        for e in r.by_kind("store_attr"):
            if not _fresh(model, e.obj):
                problems.append(f"stores {show(e.obj)}.{e.attr}")
        for e in r.by_kind("store_sub"):
            root = cache_root(e.base)
            if _local_container(r, root):
                continue       # a local container
            if root == ("attr", ("param", "self"), "_cache") and e.index[0] == "const" and isinstance(e.index[1], str):
                continue
            problems.append(f"stores into {show(root)}[{show(e.index)}]")
        for e in r.by_kind("mutate"):
            root = root_of(e.recv)
            if root[0] in ("param", "global", "ext"):
                problems.append(f"mutates {show(e.recv)[:40]}.{e.method}()")
        ctx.ob(rule, fi.qual, f"memoised {fi.memo or 'lru_cache alias'}", not problems,
               "memoised code is not a pure function of its key: " + "; ".join(sorted(set(problems))),
               where(fi, fi.node), sample="reads only parameters / slots / memoised members / constants")


def _local_container(r, root, depth=0):
    """A container created inside the function: a display / constructor call / comprehension / `[x] * n`, or a loop-carried
    variable all of whose values are."""
    while root[0] == "mut":
        root = root[1]
    if root[0] in ("dict", "list", "call", "new", "tuple", "comp", "set"):
        return True
    if root[0] == "binop" and root[1] in ("Mult", "Add"):
        return _local_container(r, root[2], depth + 1) or _local_container(r, root[3], depth + 1)
    if root[0] == "phi" and depth < 4:
        srcs = [x for x in r.phis.get((root[1], root[2]), ()) if cache_root(x) != root]
        return bool(srcs) and all(_local_container(r, x, depth + 1) for x in srcs)
    return False


def _is_memo_callable(model, t):
    r = model.resolve_global(t[1], t[2])
    return bool(r and r[0] in ("func", "memo_alias"))


def rebound_globals(model: Model):
    out = set()
    for fi in pkg_funcs(model):
        for n in ast.walk(fi.node):
            if isinstance(n, ast.Global):
                for name in n.names:
                    out.add((fi.module, name))
    return out


def im5(ctx: Ctx):
    model = ctx.model
    rule = "IM5"
    ctx.rule(rule, floor=3, what="module globals are re-bound only by cache_configure re-wrapping X.__wrapped__ of the same X")
    for fi in pkg_funcs(model):
        r = analyze(model, fi)
        seen = set()
        for e in r.by_kind("store_global"):
            if (id(e.node), e.name) in seen:
                continue
            seen.add((id(e.node), e.name))
            ctx.instance(rule)
            v = e.value
            ok = v[0] == "call" and v[1][0] == "call" and v[1][1][-1] in ("lru_cache", "cache") and len(v[2]) == 1 and \
                v[2][0] == ("attr", ("global", fi.module, e.name), "__wrapped__")
            ctx.ob(rule, fi.qual, f"{e.name} = {show(v)[:80]}", ok,
                   f"module global {e.name} is re-bound to something other than lru_cache(...)({e.name}.__wrapped__): later calls "
                   "would run different code depending on history", where(fi, e.node), sample="same function re-wrapped")


def im6(ctx: Ctx, funcs=None):
    model = ctx.model
    rule = "IM6"
    ctx.rule(rule, floor=1, what="no in-place operation on an object received as an argument")
    n = 0
    for fi in (funcs or pkg_funcs(model)):
        r = analyze(model, fi)
        seen = set()
        for e in r.by_kind("mutate") + r.by_kind("store_sub"):
            recv = e.recv if e.kind == "mutate" else e.base
            root = root_of(recv)
            if id(e.node) in seen:
                continue
            seen.add(id(e.node))
            if root[0] == "param" and root[1] not in ("self", "cls"):
                ctx.instance(rule)
                n += 1
                what = f"{show(recv)[:60]}.{e.method}()" if e.kind == "mutate" else f"{show(recv)[:60]}[...] = ..."
                ok = fi.qual == "_url.URL.__setstate__" or fi.name.startswith("set_bit") or fi.module.startswith("_quoting")
                ctx.ob(rule, fi.qual, what, ok, f"argument `{root[1]}` is modified in place: callers' objects must never be mutated",
                       where(fi, e.node), sample="internal helper")
    ctx.instance(rule)
    ctx.ob(rule, "<package>", "in-place operations on parameters", True, sample=f"{n} candidate site(s) inspected", nontrivial=False)


def is_public(fi):
    """Entry points callers use: public URL methods (and the constructor) and public module functions."""
    if fi.cls == "URL":
        return not fi.name.startswith("_") or fi.name in ("__new__", "__truediv__", "__mod__")
    return fi.cls is None and not fi.name.startswith("_") and fi.module == "_url" and fi.name.startswith("cache_")


def im7(ctx: Ctx):
    """A parameter annotated int of an lru_cache(typed=False) function must not receive an API value that can be a bool:
    True == 1 share a cache key but format differently."""
    model = ctx.model
    rule = "IM7"
    ctx.rule(rule, floor=3, what="no bool can alias an int in an untyped lru_cache key")
    targets = {}
    for q, fi, args in model.lru_functions():
        typed = args.get("typed")
        if typed is not None and isinstance(typed, ast.Constant) and typed.value:
            continue
        for p in fi.params:
            a = fi.param_annotation(p)
            if a is not None and "int" in unparse(a):
                targets.setdefault(fi.name, (fi, []))[1].append(p)
    for fi in pkg_funcs(model):
        r = analyze(model, fi)
        seen = set()
        for e in r.by_kind("call"):
            name = e.func[-1] if e.func[0] in ("global",) else None
            if name not in targets:
                continue
            tfi, params = targets[name]
            plist = [p for p in tfi.params]
            for i, a in enumerate(e.args):
                if i >= len(plist) or plist[i] not in params:
                    continue
                if a[0] != "param" or a[1] in ("self", "cls") or not is_public(fi):
                    continue
                key = (id(e.node), i, frozenset(k for k in e.state.facts if k[0] == "call"))
                if key in seen:
                    continue
                seen.add(key)
                ctx.instance(rule)
                ok = all(truth(("call", ("builtin", "isinstance"), (a, ("builtin", "bool")), ()), f) is False or
                         truth(("cmp", "Is", a, ("const", None)), f) is True or
                         truth(("cmp", "Is", ("call", ("builtin", "type"), (a,), ()), ("builtin", "int")), f) is True
                         for f in alternatives(e.state.facts))
                ctx.ob(rule, fi.qual, f"{name}(... {plist[i]}={show(a)} ...)", ok,
                       f"API argument `{a[1]}` reaches the untyped cache key of {name}() without excluding bool: "
                       f"{name}(.., True) and {name}(.., 1) share one cache entry but render differently", where(fi, e.node),
                       sample="isinstance(port, bool) excluded (or None)")


def _memo_store(e):
    """`TABLE[k] = v` where k is made of the function's parameters only and v is computed from those same parameters and
    constants by pure operations: the entry is the same whoever stores it first, so results do not depend on the fill
    state and a concurrent double store is harmless."""
    key_params = {t for t in walk(e.index) if t[0] == "param"}
    if not key_params or any(t[0] not in ("param", "tuple", "const") for t in walk(e.index)):
        return False
    if not _stateless_value(e.value):
        return False
    return {t for t in walk(e.value) if t[0] == "param"} <= key_params


def im8(ctx: Ctx):
    model = ctx.model
    rule = "IM8"
    ctx.rule(rule, floor=1, what="no module-level mutable container is mutated")
    containers = set()
    for m in PKG_MODULES:
        mi = model.module(m)
        for name, sts in mi.assigns.items():
            for st in sts:
                if isinstance(st.value, (ast.Dict, ast.List, ast.Set, ast.ListComp, ast.DictComp, ast.SetComp)):
                    containers.add((m, name))
    bad = []
    for fi in pkg_funcs(model):
        r = analyze(model, fi)
        for e in r.by_kind("mutate") + r.by_kind("store_sub"):
            recv = e.recv if e.kind == "mutate" else e.base
            root = root_of(recv)
            if root[0] == "global" and (root[1], root[2]) in containers:
                if e.kind == "store_sub" and _memo_store(e):
                    continue        # C[key] = pure_function(key): a hand-written memo, its content does not depend on history
                bad.append((fi, e, root))
    ctx.instance(rule)
    ctx.ob(rule, "<package>", f"module-level containers {sorted(n for _m, n in containers)}", not bad,
           "module-level container mutated: " + ", ".join(f"{r[2]} in {fi.qual}" for fi, _e, r in bad),
           sample=f"{len(containers)} container(s), none mutated")


_PURE_BUILTINS = {"str", "bytes", "frozenset", "tuple", "list", "dict", "set", "sorted", "len", "ord", "chr", "int", "bool", "min",
                  "max", "enumerate", "zip", "range", "hex", "format", "repr", "reversed", "sum", "any", "all"}
_PURE_METHODS = {"encode", "decode", "join", "lower", "upper", "format", "strip", "lstrip", "rstrip", "replace", "split", "rsplit",
                 "partition", "rpartition", "casefold", "title", "zfill", "ljust", "rjust", "translate", "items", "keys", "values",
                 "get", "copy", "union", "intersection", "difference", "fromkeys", "maketrans", "fromhex", "isascii", "startswith",
                 "endswith", "find", "rfind"}


def _stateless_value(v, depth=0):
    """Data a shared quoter may keep: built from its constructor arguments and constants by pure operations (strings,
    numbers, tuples, tables as dict / list / set displays and comprehensions) or another package quoter. Anything produced by
    some other call - an incremental decoder, a stream, an iterator - may carry state that later calls would share."""
    if depth > 12:
        return False
    tag = v[0]
    if tag in ("param", "const", "global", "ext", "builtin", "elem", "slice"):
        return True
    if tag in ("binop", "cmp", "unop"):
        return all(_stateless_value(x, depth + 1) for x in v[2:] if isinstance(x, tuple))
    if tag == "fstr":
        return all(p[0] == "const" or _stateless_value(p[1], depth + 1) for p in v[1])
    if tag in ("tuple", "list", "set"):
        return all(_stateless_value(x[1] if x[0] == "star" else x, depth + 1) for x in v[1])
    if tag == "dict":
        return all(_stateless_value(a, depth + 1) and _stateless_value(b, depth + 1) for a, b in v[1])
    if tag == "comp":
        return all(_stateless_value(x, depth + 1) for x in v[2]) and all(_stateless_value(x, depth + 1) for x in v[3])
    if tag == "ucomp":
        return all(_stateless_value(x, depth + 1) for _c, x in v[2])
    if tag in ("sub", "item"):
        return _stateless_value(v[1], depth + 1)
    if tag == "attr":
        return _stateless_value(v[1], depth + 1)        # a field of something stateless (self.<constructor constant>)
    if tag == "mut":
        return _stateless_value(v[1], depth + 1) and all(_stateless_value(a, depth + 1) for a in v[3])
    if tag == "phi":
        return True         # a loop-built table: its sources are judged where they are stored
    if tag == "call":
        f, args = v[1], tuple(v[2]) + tuple(x for _k, x in v[3])
        if f[0] == "global" and f[2] in ("_Quoter", "_Unquoter"):
            return True
        if f[0] == "builtin" and f[1] in _PURE_BUILTINS:
            return all(_stateless_value(a, depth + 1) for a in args)
        if f[0] == "attr" and f[2] in _PURE_METHODS:
            return _stateless_value(f[1], depth + 1) and all(_stateless_value(a, depth + 1) for a in args)
        # a compiled pattern (and its bound match/search/sub) is immutable: matching keeps no state between calls
        if (f[0] == "attr" and f[1][0] == "ext" and f[1][1] == "re" and f[2] in ("compile", "escape")) or \
                (f[0] == "ext" and f[1] == "re" and f[2] in ("compile", "escape")):
            return all(_stateless_value(a, depth + 1) for a in args)
        return False
    return False


def im9(ctx: Ctx, backends=("py", "pyx")):
    """The quoter / unquoter objects are module-level singletons shared by every URL and every thread: they must be
    stateless after construction. No method other than __init__ stores to or mutates anything reachable from self, and
    __init__ keeps only its arguments, constants, bit tables and package quoter instances - never a stateful helper
    object (e.g. an incremental decoder) that later calls would share."""
    model = ctx.model
    rule = "IM9"
    ctx.rule(rule, floor=4, what="shared quoter/unquoter instances carry no state across calls")
    mods = [("_quoting_py", "py")] + ([("_quoting_c", "pyx")] if "pyx" in backends else [])
    for mod, be in mods:
        if be == "pyx":
            model.load_pyx()
        for cls in ("_Quoter", "_Unquoter"):
            for name, fi in model.methods(mod, cls).items():
                r = analyze(model, fi)
                ctx.functions.add(fi.qual)
                ctx.instance(rule)
                problems = []
                if name == "__init__":
                    for e in r.by_kind("store_attr"):
                        if e.obj != ("param", "self"):
                            continue
                        v = e.value
                        ok = _stateless_value(v)
                        if not ok:
                            problems.append(f"self.{e.attr} = {show(v)[:50]} (a helper object shared by all later calls)")
                else:
                    init_attrs = {x.attr for x in analyze(model, model.func(f"{mod}.{cls}.__init__")).by_kind("store_attr")
                                  if x.obj == ("param", "self")} if model.has_func(f"{mod}.{cls}.__init__") else set()
                    for e in r.by_kind("store_attr"):
                        if root_of(e.obj) == ("param", "self"):
                            # a lazily memoised constant: a pure function of what the constructor stored, independent of the
                            # call's arguments - every call (and thread) would store the same value
                            reads = {t[2] for t in walk(e.value) if t[0] == "attr" and t[1] == ("param", "self")}
                            params = {t for t in walk(e.value) if t[0] == "param" and t[1] != "self"}
                            if e.obj == ("param", "self") and _stateless_value(e.value) and reads <= init_attrs and not params \
                                    and e.attr not in init_attrs:
                                continue
                            problems.append(f"stores self.{e.attr}")
                    for e in r.by_kind("mutate") + r.by_kind("store_sub"):
                        recv = e.recv if e.kind == "mutate" else e.base
                        if root_of(recv) == ("param", "self") or any(t[0] == "attr" and t[1] == ("param", "self") for t in walk(recv)):
                            problems.append(f"mutates {show(recv)[:40]}")
                ctx.ob(rule, fi.qual, "state of the shared instance", not problems,
                       "a module-level quoter/unquoter keeps state between calls: " + "; ".join(sorted(set(problems))) +
                       " - results would depend on earlier calls (and on other threads)", where(fi, fi.node),
                       sample="only constructor arguments / tables / package quoters are kept; calls do not write to self")


def im10(ctx: Ctx):
    """A cache entry is published once, with its final value: another thread can read the shared per-object cache
    between any two statements, so a fill that stores a provisional value and patches it afterwards exposes the
    provisional value (and everything derived from it is then memoised for good)."""
    from .shape_rules import cache_root
    model = ctx.model
    rule = "IM10"
    ctx.rule(rule, floor=2, what="every cache key is stored at most once per fill (no store-then-fix-up on the shared cache)")
    tr = lambda kind, t: kind == "store_sub"
    for fi in pkg_funcs(model):
        if fi.module != "_url":
            continue
        r = analyze(model, fi, trace=tr, trace_key="store_sub")
        if not r.by_kind("store_sub"):
            continue
        exits = [s for s, _v, _n in r.returns] + list(r.falls)
        multi = {}
        for s in exits:
            seen = {}
            for t in s.trace:
                if t[0] == "store" and t[1][0] == "sub" and t[1][2][0] == "const":
                    root = cache_root(t[1][1])
                    if root[0] == "attr" and root[2] == "_cache" and root[1][0] == "param":
                        seen[t[1][2][1]] = seen.get(t[1][2][1], 0) + 1
            for k, n in seen.items():
                if n > 1:
                    multi[k] = n
        stores_shared = any(cache_root(e.base)[0] == "attr" and cache_root(e.base)[1][0] == "param" for e in r.by_kind("store_sub"))
        if not stores_shared:
            continue
        ctx.instance(rule)
        ctx.ob(rule, fi.qual, "stores into the shared per-object cache", not multi,
               f"cache key(s) {sorted(multi)} of a live object are stored more than once on one path: a concurrent reader can observe "
               "the provisional value between the two stores", where(fi, fi.node), sample="each key stored once, with its final value")


TEXT_SLOTS = ("_scheme", "_netloc", "_path", "_query", "_fragment")


class CacheDeps:
    """Which of the five text slots the value cached under a key of `URL._cache` depends on, transitively: the slots read by
    the cached property of that name (or by the method that stores the key: `_cache_netloc`, `__hash__`) and by every other
    URL accessor / method it reads. Syntax-directed over the class body; a key nobody defines depends on everything."""

    def __init__(self, model: Model):
        self.model = model
        self.methods = model.methods("_url", "URL")
        self._memo = {}
        self.fillers = {}
        for name, fi in self.methods.items():
            for n in ast.walk(fi.node):
                if isinstance(n, ast.Subscript) and isinstance(n.slice, ast.Constant) and isinstance(n.slice.value, str) and \
                        isinstance(n.ctx, ast.Store) and self._is_cache(n.value, fi):
                    self.fillers.setdefault(n.slice.value, set()).add(name)
                if isinstance(n, ast.Call) and isinstance(n.func, ast.Attribute) and n.func.attr == "update" and self._is_cache(n.func.value, fi):
                    for kw in n.keywords:
                        if kw.arg:
                            self.fillers.setdefault(kw.arg, set()).add(name)

    def _is_cache(self, node, fi):
        if isinstance(node, ast.Attribute) and node.attr == "_cache" and isinstance(node.value, ast.Name) and node.value.id == "self":
            return True
        if isinstance(node, ast.Name):      # c = self._cache
            for n in ast.walk(fi.node):
                if isinstance(n, ast.Assign) and any(isinstance(t, ast.Name) and t.id == node.id for t in n.targets) and \
                        isinstance(n.value, ast.Attribute) and n.value.attr == "_cache":
                    return True
        return False

    def universe(self):
        keys = {n for n, fi in self.methods.items() if fi.memo == "cached_property"}
        return keys | set(self.fillers)

    def of_method(self, name, active=()):
        if name in self._memo:
            return self._memo[name]
        if name in active or name not in self.methods:
            return frozenset()
        fi = self.methods[name]
        out = set()
        for n in ast.walk(fi.node):
            if isinstance(n, ast.Attribute) and isinstance(n.value, ast.Name) and n.value.id == "self":
                if n.attr in TEXT_SLOTS:
                    out.add(n.attr)
                elif n.attr in self.methods and n.attr != name:
                    out |= self.of_method(n.attr, active + (name,))
            if isinstance(n, ast.Subscript) and isinstance(n.slice, ast.Constant) and isinstance(n.slice.value, str) and \
                    isinstance(n.ctx, ast.Load) and self._is_cache(n.value, fi):
                out |= self.of_key(n.slice.value, active + (name,))
        res = frozenset(out)
        if not active:
            self._memo[name] = res
        return res

    def of_key(self, key, active=()):
        out = set()
        found = False
        if key in self.methods and self.methods[key].memo == "cached_property":
            out |= self.of_method(key, active)
            found = True
        for m in self.fillers.get(key, ()):
            if m != key:
                out |= self.of_method(m, active)
                found = True
        return frozenset(out) if found else frozenset(TEXT_SLOTS)


def _slots_of_target(model, state, obj):
    """{slot: term} of the object whose cache is being written, when it is a constructor call or an object created here."""
    view = fresh_view(model, state, obj)
    if view is not None:
        return {k: v for k, v in view.items() if k in TEXT_SLOTS}
    if obj[0] == "call" and obj[1][0] == "global" and obj[1][2] in ("from_parts", "from_parts_uncached") and len(obj[2]) == 5 and not obj[3]:
        return dict(zip(TEXT_SLOTS, obj[2]))
    return None


def _changed_slots(slots, src):
    return {s_ for s_ in TEXT_SLOTS if slots.get(s_) != ("attr", src, s_)}


def im11(ctx: Ctx):
    """A per-object cache starts empty or is pre-filled from values computed for that very object: nothing derived from
    another object's cache (which may hold its memoised hash and other entries keyed by hand) may flow into it."""
    model = ctx.model
    rule = "IM11"
    ctx.rule(rule, floor=5, what="no object's cache is seeded from another object's cache")
    for fi in pkg_funcs(model):
        if fi.module != "_url":
            continue
        r = analyze(model, fi)
        seen = set()
        for e in r.by_kind("store_attr"):
            if e.attr != "_cache" or id(e.node) in seen:
                continue
            seen.add(id(e.node))
            ctx.instance(rule)
            v = e.value
            foreign = [t for t in walk(v) if t[0] == "attr" and t[2] == "_cache"]
            root = v
            while root[0] == "mut":
                root = root[1]
            ok = not foreign and root[0] == "dict"
            why = ""
            if not ok and foreign:
                ok, why = _inherited_ok(model, e, v, foreign)
            ctx.ob(rule, fi.qual, f"{show(e.obj)[:30]}._cache = {show(v)[:60]}", ok,
                   "a URL's cache is initialised from something other than a fresh dict filled in this function"
                   + (" - it is derived from another object's cache, so memoised entries (e.g. the hash stored under a "
                      "hand-written key) leak into an object they were not computed for" if foreign else "") + (": " + why if why else ""),
                   where(fi, e.node), sample="fresh dict" if not foreign else "only entries whose definition reads unchanged slots are inherited")


def _inherited_ok(model, e, v, foreign):
    """A cache seeded from another URL's cache is accepted when it provably inherits only entries whose definition reads
    slots that are the same in both objects: `{k: c[k] for k in c if k not in EXCLUDED}` (or `dict(c)` / `c.copy()`) with
    every key of the cache universe that is not excluded depending on unchanged slots only. -> (ok, reason)"""
    from ..fold import CannotFold, Folder
    srcs = {t[1] for t in foreign}
    if len(srcs) != 1:
        return False, "entries of several caches are mixed"
    src = next(iter(srcs))
    slots = _slots_of_target(model, e.state, e.obj)
    if slots is None:
        return False, "the target object's fields are not known here"
    changed = _changed_slots(slots, src)
    deps = CacheDeps(model)
    cache_t = ("attr", src, "_cache")
    excluded = None
    snapshots = (cache_t, ("call", ("builtin", "dict"), (cache_t,), ()), ("call", ("attr", cache_t, "copy"), (), ()))
    included = None
    if v[0] == "comp" and v[1] == "dict" and len(v[2]) == 1 and v[2][0][0] == "tuple" and len(v[2][0][1]) == 2 and len(v[3]) == 1 \
            and v[3][0] not in snapshots:
        # include-list: `{k: c[k] for k in KEYS if k in c}` - exactly the listed keys are inherited
        key, val = v[2][0][1]
        filters = v[4] if len(v) > 4 else ()
        if key[0] == "elem" and key[1] == v[3][0] and val[0] == "sub" and val[1] in snapshots and val[2] == key and \
                all(f_[0] == "cmp" and f_[1] == "In" and f_[2] == key and f_[3] in snapshots for f_ in filters):
            try:
                included = set(Folder(model).fold(v[3][0]))
            except (CannotFold, TypeError):
                return False, "the set of inherited keys cannot be folded"
            if not all(isinstance(k, str) for k in included):
                return False, "the inherited keys are not constant strings"
            stale = sorted(k for k in included if deps.of_key(k) & changed)
            if stale:
                return False, f"inherited although their definition reads a changed slot ({sorted(changed)}): {stale[:6]}"
            return True, ""
    if v[0] == "comp" and v[1] == "dict" and len(v[2]) == 1 and v[2][0][0] == "tuple" and len(v[2][0][1]) == 2 and len(v[3]) == 1 \
            and v[3][0] in snapshots:
        key, val = v[2][0][1]
        filters = v[4] if len(v) > 4 else ()
        if key[0] == "elem" and val[0] == "sub" and val[1] in snapshots and val[2] == key:
            excluded = set()
            for f_ in filters:
                if f_[0] == "cmp" and f_[1] == "NotIn" and f_[2] == key:
                    try:
                        excluded |= set(Folder(model).fold(f_[3]))
                    except (CannotFold, TypeError):
                        return False, "the set of excluded keys cannot be folded"
                elif f_[0] == "unop" and f_[1] == "Not" and f_[2][0] == "cmp" and f_[2][1] == "In" and f_[2][2] == key:
                    try:
                        excluded |= set(Folder(model).fold(f_[2][3]))
                    except (CannotFold, TypeError):
                        return False, "the set of excluded keys cannot be folded"
                else:
                    return False, "unrecognised filter on the inherited keys"
    elif (v[0] == "call" and v[1] == ("builtin", "dict") and v[2] == (cache_t,) and not v[3]) or \
            (v[0] == "call" and v[1] == ("attr", cache_t, "copy") and not v[2]):
        excluded = set()
    if excluded is None:
        return False, "not a recognised way of inheriting selected entries"
    stale = sorted(k for k in deps.universe() - excluded if deps.of_key(k) & changed)
    if stale:
        return False, f"inherited although their definition reads a changed slot ({sorted(changed)}): {stale[:6]}"
    return True, ""


def im12(ctx: Ctx):
    """Memo keys must be compared exactly: an lru_cache keyed on URL objects uses URL.__eq__/__hash__, which identify
    observably different values (an empty path and '/' under an authority), so a cached result computed for one could be
    returned for the other. Only str / int / bool / None (and tuples of them) may be parameters of memoised functions."""
    model = ctx.model
    rule = "IM12"
    ctx.rule(rule, floor=8, what="lru_cache keys are exact-equality value types, never URL objects")
    ok_ann = {"str", "int", "bool", "None", "Union[str,None]", "Union[int,None]", "Union[str, None]", "Union[int, None]"}
    for q, fi, args in model.lru_functions():
        ctx.instance(rule)
        problems = []
        if fi.cls == "URL":
            problems.append("a method of URL (keyed on self)")
        for p in fi.params:
            if p in ("self", "cls"):
                continue
            a = fi.param_annotation(p)
            txt = unparse(a).replace(" ", "").strip("'\"") if a is not None else None
            if txt is None or txt not in {x.replace(" ", "") for x in ok_ann}:
                problems.append(f"parameter {p}: {txt}")
        ctx.ob(rule, q, "memo key types", not problems,
               "memoised on a key that is not compared exactly (" + "; ".join(problems) + "): URL equality identifies values whose "
               "string form differs, unannotated/other types may compare equal while behaving differently - the result then "
               "depends on which equal key was seen first", where(fi, fi.node), sample="str/int/bool/None parameters only")


def im13(ctx: Ctx, only_stale=False, only_keys=None, why=""):
    """IM13: the cache dict of a URL is written in place only by that URL's own lazy accessors (`self._cache[...] = ...` in a
    method) or while the object is being created in the same function. A function that writes into the cache of any other URL
    - the result of a memoised constructor, an argument, another URL it read - plants entries in an object other callers and
    threads share, computed from something else than that object's own fields."""
    model = ctx.model
    rule = "IM13"
    ctx.rule(rule, floor=0 if only_keys is not None else 2, what="in-place cache writes target self (own lazy fill) or an object created in the same function")
    if only_keys is not None:
        # scoped claim: today no function writes these keys in place, the unscoped rule (C08) carries the floor
        ctx.instance(rule)
        ctx.ob(rule, "<module _url>", f"in-place writes of the keys {', '.join(only_keys)[:60]}", True,
               sample="every such write found is judged below; the unscoped rule runs under C08/C09/C10/C20", nontrivial=False)
    WRITERS = {"setdefault", "update", "pop", "popitem", "clear", "__setitem__", "__delitem__", "setitem"}
    for fi in pkg_funcs(model):
        if fi.module != "_url":
            continue
        r = analyze(model, fi)
        sites = {}
        stale = {}

        def owner_of(t):
            while t[0] == "mut":
                t = t[1]
            return t[1] if t[0] == "attr" and t[2] == "_cache" else None
        for e in r.events:
            if e.kind == "mutate" and e.method in WRITERS:
                o = owner_of(e.recv)
            elif e.kind == "store_sub":
                o = owner_of(e.base)
            else:
                continue
            if o is None:
                continue
            ok = (o == ("param", "self") and fi.cls == "URL") or _fresh(model, o) or fi.qual == "_url.URL.__setstate__"
            if not ok:
                ok = _handed_over_ok(model, e, o)
            elif _fresh(model, o) and o != ("param", "self"):
                # an object created here may be pre-filled - but entries taken from ANOTHER URL's cache are judged like any
                # hand-over: only keys whose definition reads slots the two objects share (`port` reads the scheme)
                written = e.args if e.kind == "mutate" else (e.value,)
                foreign = [t for w in written for t in walk(w) if t[0] == "attr" and t[2] == "_cache" and not _fresh(model, t[1])]
                if foreign:
                    verdict = _bulk_handover_ok(model, e, o, foreign)
                    if verdict is None:
                        # a single entry copied as it is (`new._cache[k] = src._cache[k]`, `.setdefault(k, src._cache[k])`); a value
                        # *computed* from a foreign entry and other data is not a hand-over and is not judged here
                        v_ = e.value if e.kind == "store_sub" else (e.args[1] if e.kind == "mutate" and e.method == "setdefault" and len(e.args) == 2 else None)
                        plain = v_ is not None and v_[0] == "sub" and v_[1][0] == "attr" and v_[1][2] == "_cache"
                        verdict = _handed_over_ok(model, e, o) if plain else True
                    ok = verdict
                    if not ok:
                        stale[id(e.node)] = True
            if only_keys is not None:
                # this property claims the writes that plant one of the cache keys its statement is about (a key that is not a
                # constant may be any of them)
                kt = e.index if e.kind == "store_sub" else (e.args[0] if e.args and e.method in ("setdefault", "__setitem__", "setitem", "pop", "__delitem__") else None)
                if kt is not None and kt[0] == "const" and kt[1] not in only_keys:
                    if not ok:
                        ctx.note(f"IM13: write of {kt[1]!r} into the cache of {show(o)[:40]} in {fi.qual} (a condition of C08/C09/C10/C20, not of this property)")
                    continue
            sites.setdefault(id(e.node), [e.node, show(o)[:50], []])[2].append(ok)
        for node, who, oks in sites.values():
            if only_stale and not all(oks) and not stale.get(id(node)):
                ctx.note(f"IM13: write into the cache of {who} in {fi.qual} (a condition of C08/C09/C10/C20, not of this property)")
                continue
            ctx.instance(rule)
            msg = (f"the new URL {who} is pre-filled with entries of another URL's cache whose definition reads a component the two "
                   "objects do not share (e.g. `port` and `host_port_subcomponent` read the scheme): the entry was computed for the other "
                   "object and is wrong for this one") if stale.get(id(node)) else \
                  (f"the cache of {who} - not self, not an object created here - is written in place: the object may be shared "
                   "(memoised constructors return one object to every caller) and the entry was not computed from its own fields")
            ctx.ob(rule, fi.qual, f"write into the cache of {who}", all(oks), msg,
                   where(fi, node), sample="self (lazy fill) or a fresh object")


def _bulk_handover_ok(model, e, owner, foreign):
    """`new._cache.update((k, v) for k, v in src._cache.items() if k in KEYS)` (or `if k not in KEYS`): accepted when no
    inherited key's definition reads a slot that differs between the two objects. None: not this form."""
    from ..fold import CannotFold, Folder
    if not (e.kind == "mutate" and e.method == "update" and len(e.args) == 1 and e.args[0][0] == "comp"):
        return None
    c = e.args[0]
    srcs = {t[1] for t in foreign}
    if len(srcs) != 1 or len(c[3]) != 1 or len(c[2]) != 1 or c[2][0][0] != "tuple" or len(c[2][0][1]) != 2:
        return None
    src = next(iter(srcs))
    cache_t = ("attr", src, "_cache")
    it = c[3][0]
    views = (("call", ("attr", cache_t, "items"), (), ()),
             ("call", ("attr", ("call", ("builtin", "dict"), (cache_t,), ()), "items"), (), ()),
             ("call", ("attr", ("call", ("attr", cache_t, "copy"), (), ()), "items"), (), ()))
    if it not in views:
        return None
    key, val = c[2][0][1]
    if not (key[0] == "item" and key[2] == 0 and val[0] == "item" and val[2] == 1 and key[1] == val[1] and key[1][0] == "elem"):
        return None
    slots = _slots_of_target(model, e.state, owner)
    if slots is None:
        return False
    changed = _changed_slots(slots, src)
    deps = CacheDeps(model)
    included, excluded = None, set()
    for f_ in (c[4] if len(c) > 4 else ()):
        neg = False
        if f_[0] == "unop" and f_[1] == "Not":
            neg, f_ = True, f_[2]
        if not (f_[0] == "cmp" and f_[1] in ("In", "NotIn") and f_[2] == key):
            return False
        try:
            coll = set(Folder(model).fold(f_[3]))
        except (CannotFold, TypeError):
            return False
        if (f_[1] == "In") != neg:
            included = coll if included is None else included & coll
        else:
            excluded |= coll
    inherited = (included if included is not None else deps.universe()) - excluded
    return not any(deps.of_key(k) & changed for k in inherited if isinstance(k, str))


def _handed_over_ok(model, e, owner):
    """`other._cache[k] = self._cache[k]` / `.setdefault(k, self._cache[k])` for a result built from self's fields: accepted
    when the definition of every such k reads only slots that the result shares with self (the value is what the result's
    own lazy fill would compute)."""
    from ..fold import CannotFold, Folder
    if e.kind == "mutate" and e.method == "setdefault" and len(e.args) == 2:
        key, val = e.args
    elif e.kind == "store_sub":
        key, val = e.index, e.value
    else:
        return False
    if not (val[0] == "sub" and val[1][0] == "attr" and val[1][2] == "_cache" and val[2] == key):
        return False
    src = val[1][1]
    slots = _slots_of_target(model, e.state, owner)
    if slots is None:
        return False
    changed = _changed_slots(slots, src)
    try:
        keys = [key[1]] if key[0] == "const" else (list(Folder(model).fold(key[1])) if key[0] == "elem" else None)
    except (CannotFold, TypeError):
        keys = None
    if not keys or not all(isinstance(k, str) for k in keys):
        return False
    deps = CacheDeps(model)
    return not any(deps.of_key(k) & changed for k in keys)


def im14(ctx: Ctx):
    """IM14: one definition per cache key. The property layer stores what an accessor returns under the accessor's name; a
    helper that fills several entries at once (`self._cache[k] = ...` for sibling keys) writes the same keys directly. If the
    accessor of such a key returns anything but the entry the helper stored, the key has two values and whichever of the
    co-filled accessors is read first on an object decides which one every later read - on a memoised, shared object, every
    other caller's too - sees."""
    from .shape_rules import cache_stores, is_self_cache
    model = ctx.model
    rule = "IM14"
    ctx.rule(rule, floor=0, what="an accessor whose cache entry a co-filling helper writes returns exactly that entry")
    methods = model.methods("_url", "URL")
    fillers = {}
    for name, fi in methods.items():
        stores, always, _r = cache_stores(model, fi)
        for k in always:
            if name != k and not name.startswith("__") and k in methods and methods[k].memo == "cached_property":
                fillers.setdefault(k, []).append((fi, {v for v, _s, root in stores.get(k, ()) if is_self_cache(root)}))
    n = 0
    for k, fl in sorted(fillers.items()):
        P = methods[k]
        tr = lambda kind, t: kind == "call" and t[1][0] == "attr" and t[1][1] == ("param", "self")
        r = analyze(model, P, trace=tr, trace_key="selfcalls")
        ctx.functions.add(P.qual)
        names = {fi.name for fi, _v in fl}
        stored = set().union(*(v for _fi, v in fl))
        bad = []
        for s, v, node in r.returns:
            own = v[0] == "sub" and is_self_cache(v[1]) and v[2] == ("const", k)
            if own or v in stored:
                continue
            called = any(t[0] == "call" and t[1][2] in names for t in s.trace)
            if not called:
                raise AnalysisError(f"IM14: {P.qual} and {sorted(names)} define cache key {k!r} independently ({show(v)[:50]}): "
                                    "agreement of the two definitions is not decidable here (unknown idiom)")
            bad.append((v, node))
        n += 1
        ctx.instance(rule)
        v0, node0 = bad[0] if bad else (None, P.node)
        ctx.ob(rule, P.qual, f"value of {k!r} beside the entry {sorted(names)[0]} stores", not bad,
               f"{P.name} returns {show(v0)[:50] if bad else ''} on some path although {sorted(names)[0]}() has stored a different value "
               f"under {k!r}: the property layer caches the accessor's result under the same key, so the value of {k!r} depends "
               "on which of the co-filled accessors was read first", where(P, node0), sample=f"self._cache[{k!r}] as stored by the helper")
    ctx.instance(rule)
    ctx.ob(rule, "<class URL>", "co-filled cache keys", True, sample=f"{n} key(s) with a co-filling helper", nontrivial=False)


SNAPSHOTS = {"dict", "list", "tuple", "sorted", "frozenset", "set", "copy"}      # one C-level pass under the GIL


def _live_cache_iteration(res):
    """(node, iterable term) for every Python-level iteration - a for loop or a comprehension - whose iterable is a URL's
    cache dict itself or a live view of it (.items() / .keys() / .values()), not a snapshot taken in one C-level call."""
    def live(t):
        while t[0] == "call" and t[1][0] == "attr" and t[1][2] in ("items", "keys", "values") and not t[2]:
            t = t[1][1]
        while t[0] == "mut":
            t = t[1]
        return t[0] == "attr" and t[2] == "_cache"
    out, seen = [], set()
    for e in res.events:
        for val in e.data.values():
            if not (isinstance(val, tuple) and val):
                continue
            for t in (walk(val) if isinstance(val[0], str) else [x for v in val if isinstance(v, tuple) and v and isinstance(v[0], str) for x in walk(v)]):
                its = ()
                if t[0] == "elem":
                    its = (t[1],)
                elif t[0] == "comp":
                    its = t[3]
                for it in its:
                    if live(it) and it not in seen:
                        seen.add(it)
                        out.append((e.node, it))
    return out


_IM15_EXAMPLES = (
    ("def f(self):\n    new = object.__new__(URL)\n    new._cache = {k: v for k, v in self._cache.items() if k in KEEP}\n    return new\n", 1),
    ("def f(self):\n    c = self._cache\n    out = {}\n    for k in c:\n        out[k] = c[k]\n    return out\n", 1),
    ("def f(self):\n    c = dict(self._cache)\n    return {k: v for k, v in c.items() if k in KEEP}\n", 0),
    ("def f(self):\n    c = self._cache\n    return {k: c[k] for k in KEEP if k in c}\n", 0),
)


def im15(ctx: Ctx):
    """IM15: the per-object cache of a URL is filled lazily by whichever thread reads an accessor first, so on a shared URL it can
    grow at any moment. Iterating it in Python code (a for loop or comprehension over the dict, or over .items()/.keys()/
    .values()) raises `RuntimeError: dictionary changed size during iteration` when another thread's first read of any cached
    property lands between two steps. Reading single keys, or iterating a snapshot made by one C-level call (dict(c), c.copy(),
    list(c), tuple(c)) is what a sequential run and a concurrent one have in common."""
    from ..model import FuncInfo
    model = ctx.model
    rule = "IM15"
    ctx.rule(rule, floor=0, what="no Python-level iteration over a live cache dict (other threads fill it concurrently)")
    for i, (src, want) in enumerate(_IM15_EXAMPLES):
        node = ast.parse(src).body[0]
        got = len(_live_cache_iteration(analyze(model, FuncInfo("_url", "URL", f"<im15-example-{i}>", node))))
        if got != want:
            raise AnalysisError(f"IM15 self-check: {got} live iteration(s) found in {src!r}, expected {want}")
    n = 0
    for fi in pkg_funcs(model):
        if fi.module != "_url":
            continue
        for node, it in _live_cache_iteration(analyze(model, fi)):
            n += 1
            ctx.instance(rule)
            ctx.ob(rule, fi.qual, f"iteration over {show(it)[:50]}", False,
                   f"{show(it)[:50]} is iterated in Python code while other threads may add entries to it (every first read of a cached "
                   "property does): `RuntimeError: dictionary changed size during iteration` on a shared URL", where(fi, node),
                   sample="single-key reads or a one-call snapshot")
    ctx.instance(rule)
    ctx.ob(rule, "<module _url>", "iterations over cache dicts", True, sample=f"{n} live iteration(s); self-check on {len(_IM15_EXAMPLES)} built-in examples",
           nontrivial=False)


def im16(ctx: Ctx):
    """IM16: every cached property of URL stores under its own name. The property layer (propcache's under_cached_property)
    keys the per-object cache by the wrapped function's `__name__`, not by the attribute the descriptor is bound to. A
    descriptor built outside a `def` of the same name - `x = cached_property(f)`, a factory returning `cached_property(inner)` -
    stores under the inner function's name: two attributes built from one inner function share a key, and whichever is read
    first (or pre-filled, or pickled) decides what the other returns."""
    model = ctx.model
    rule = "IM16"
    ctx.rule(rule, floor=20, what="each cached property's cache key (the wrapped function's name) is the attribute name, and unique")
    mi = model.module("_url")
    cls = next((n for n in mi.tree.body if isinstance(n, ast.ClassDef) and n.name == "URL"), None)
    if cls is None:
        raise AnalysisError("anchor vanished: class URL")

    def is_cp(expr):
        name = None
        if isinstance(expr, ast.Name):
            name = expr.id
        elif isinstance(expr, ast.Attribute):
            name = expr.attr
        return name is not None and model._decorator_base(mi, name) == "cached_property"

    decorated = {n.name for n in cls.body if isinstance(n, ast.FunctionDef) and
                 any(is_cp(d.func if isinstance(d, ast.Call) else d) for d in n.decorator_list)}

    def key_of(expr, depth=0):
        """The cache key a class-level value stores under, None if it is not a cached property, AnalysisError if unknown."""
        if isinstance(expr, ast.Call) and is_cp(expr.func):
            if len(expr.args) == 1 and isinstance(expr.args[0], ast.Name):
                return expr.args[0].id          # the function's own name (a local def or a module-level def)
            if len(expr.args) == 1 and isinstance(expr.args[0], ast.Lambda):
                return "<lambda>"
            raise AnalysisError("IM16: cached_property(...) over an expression whose __name__ is not evident (unknown idiom)")
        if isinstance(expr, ast.Name) and expr.id in decorated:
            return expr.id          # `y = x` in the class body: a second name for the descriptor of x
        if isinstance(expr, ast.Call) and isinstance(expr.func, ast.Name) and depth < 3:
            rr = model.resolve_global("_url", expr.func.id)
            if rr and rr[0] == "func":
                keys = set()
                if any(isinstance(n, ast.Attribute) and n.attr in ("__name__", "__qualname__") and isinstance(n.ctx, ast.Store)
                       for n in ast.walk(rr[1].node)) or any(isinstance(n, ast.Call) and isinstance(n.func, ast.Name) and n.func.id == "setattr"
                                                              for n in ast.walk(rr[1].node)):
                    raise AnalysisError(f"IM16: {expr.func.id}() sets the wrapped function's __name__ at run time: the cache key is not "
                                        "evident from the source (unknown idiom)")
                for n in ast.walk(rr[1].node):
                    if isinstance(n, ast.Return) and n.value is not None:
                        v = n.value
                        if isinstance(v, ast.Name):
                            # a local def decorated with cached_property, or a local bound to cached_property(...)
                            for d in ast.walk(rr[1].node):
                                if isinstance(d, ast.FunctionDef) and d.name == v.id and any(is_cp(x.func if isinstance(x, ast.Call) else x) for x in d.decorator_list):
                                    keys.add(d.name)
                                if isinstance(d, ast.Assign) and len(d.targets) == 1 and isinstance(d.targets[0], ast.Name) and d.targets[0].id == v.id:
                                    k = key_of(d.value, depth + 1)
                                    if k is not None:
                                        keys.add(k)
                        else:
                            k = key_of(v, depth + 1)
                            if k is not None:
                                keys.add(k)
                if len(keys) > 1:
                    raise AnalysisError(f"IM16: {expr.func.id}() returns cached properties under several keys (unknown idiom)")
                return next(iter(keys)) if keys else None
        return None

    keys = {}
    for n in cls.body:
        if isinstance(n, ast.FunctionDef) and any(is_cp(d.func if isinstance(d, ast.Call) else d) for d in n.decorator_list):
            keys.setdefault(n.name, []).append((n.name, n))
        elif isinstance(n, (ast.Assign, ast.AnnAssign)) and getattr(n, "value", None) is not None:
            targets = n.targets if isinstance(n, ast.Assign) else [n.target]
            k = key_of(n.value)
            if k is None:
                continue
            for t in targets:
                if isinstance(t, ast.Name):
                    keys.setdefault(k, []).append((t.id, n))
    if not keys:
        raise AnalysisError("IM16: class URL has no cached property (anchor vanished)")
    for k, users in sorted(keys.items()):
        for attr, node in users:
            ctx.instance(rule)
            others = sorted({a for a, _n in users if a != attr})
            ok = attr == k and not others
            ctx.ob(rule, f"_url.URL.{attr}", f"cache key of {attr}", ok,
                   f"the cached property `{attr}` stores its value under the key {k!r} (the wrapped function's __name__)"
                   + (f", which `{others[0]}` uses too" if others else "") + ": the value read through one attribute is whatever was "
                   "cached first under that key - by the other attribute, a pre-fill or a copy", f"yarl/_url.py:{node.lineno}",
                   sample=f"key {k!r} = attribute name, no other user")


def im18(ctx: Ctx):
    """IM18: entries of a URL's cache are only ever added. Nothing removes one (`del c[k]`, `pop`, `popitem`, `clear`) or replaces
    the dict of a live URL: the lazy fill is idempotent only as long as a stored entry stays - a second thread that arrives
    between another thread's fill and its own use finds the key gone (`KeyError` out of copy / pickle / an accessor), and a
    sequential caller would see an accessor change what a later one costs or returns."""
    model = ctx.model
    rule = "IM18"
    ctx.rule(rule, floor=0, what="no entry is ever removed from a URL's cache")
    REMOVERS = {"pop", "popitem", "clear", "delitem", "__delitem__"}
    from .shape_rules import cache_stores
    cofilled = set()
    for name, mfi in model.methods("_url", "URL").items():
        _st, always, _r = cache_stores(model, mfi)
        cofilled |= {k for k in always if k != name}
    n = 0
    for fi in pkg_funcs(model):
        if fi.module != "_url":
            continue
        r = analyze(model, fi)
        seen = set()
        for e in r.by_kind("mutate"):
            if e.method not in REMOVERS or id(e.node) in seen:
                continue
            t = e.recv
            while t[0] == "mut":
                t = t[1]
            if not (t[0] == "attr" and t[2] == "_cache") or _fresh(model, t[1]):
                continue
            seen.add(id(e.node))
            n += 1
            ctx.instance(rule)
            # tolerated: `pop(<constant key>, default)` of a key nobody reads back right after a fill (it cannot raise and no
            # fill-then-read sequence depends on the key staying)
            harmless = e.method == "pop" and len(e.args) == 2 and e.args[0][0] == "const" and e.args[0][1] not in cofilled
            ctx.ob(rule, fi.qual, f"{show(e.recv)[:40]}.{e.method}({', '.join(show(a)[:20] for a in e.args)})", harmless,
                   f"an entry is removed from the cache of {show(t[1])[:30]}: the cache of a URL other threads may be reading only grows; "
                   "a reader that finds the key gone between a fill and its use gets KeyError, and the removal makes one call's "
                   "outcome depend on another's", where(fi, e.node), sample="entries are only added")
    ctx.instance(rule)
    ctx.ob(rule, "<module _url>", "removals from URL caches", True, sample=f"{n} removal(s) found", nontrivial=False)
