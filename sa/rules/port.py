"""PRT1-PRT4, SH5, T10 (C17): port validation dominates every API port -> authority flow; zero vs absent;
one default-port elision predicate; the DEFAULT_PORTS table."""
from __future__ import annotations

import ast

from ..fold import module_const, need
from ..interp import alternatives, analyze, truth
from ..model import AnalysisError, Model
from ..oracle import DEFAULT_PORTS
from ..report import Ctx, where
from ..terms import NONE, show, walk
from .immut import is_public, pkg_funcs

SELF = ("param", "self")


def is_port_term(t, fi):
    """Port-kind values: a parameter named `port`, the explicit_port / port accessors, the 4th element of split_netloc."""
    if t[0] == "param" and t[1] == "port":
        return True
    if t[0] == "attr" and t[2] in ("explicit_port", "port") and t[1][0] in ("param", "new"):
        return True
    if t[0] in ("item", "sub") and t[1][0] == "call" and t[1][1][0] == "global" and t[1][1][2] == "split_netloc" \
            and (t[2] == 3 or t[2] == ("const", 3)):
        return True
    return False


def t10(ctx: Ctx):
    rule = "T10"
    ctx.rule(rule, floor=1, what="DEFAULT_PORTS = {http 80, https 443, ws 80, wss 443, ftp 21}")
    v = need(lambda: module_const(ctx.model, "_url", "DEFAULT_PORTS"), "_url.DEFAULT_PORTS")
    ctx.instance(rule)
    ctx.ob(rule, "_url.DEFAULT_PORTS", "scheme -> default port table", v == DEFAULT_PORTS,
           f"DEFAULT_PORTS is {v}, the statement prescribes {DEFAULT_PORTS}", sample=str(v))


def valid_port_facts(f, p):
    """port is None, or: not bool, int, 0 <= port <= 65535."""
    if truth(("cmp", "Is", p, NONE), f) is True:
        return True
    notbool = truth(("call", ("builtin", "isinstance"), (p, ("builtin", "bool")), ()), f) is False or \
        truth(("cmp", "Is", ("call", ("builtin", "type"), (p,), ()), ("builtin", "int")), f) is True
    isint = truth(("call", ("builtin", "isinstance"), (p, ("builtin", "int")), ()), f) is True or \
        truth(("cmp", "Is", ("call", ("builtin", "type"), (p,), ()), ("builtin", "int")), f) is True
    lo = truth(("cmp", "LtE", ("const", 0), p), f) is True
    hi = truth(("cmp", "LtE", p, ("const", 65535)), f) is True
    return notbool and isint and lo and hi


_INT_P = ("call", ("builtin", "int"), (("param", "port"),), ())


def _unint(t):
    """`int(port)` is the validated port as a number (PRT6 judges where it is needed): for the value rules it is the port."""
    if not isinstance(t, tuple):
        return t
    if t == _INT_P:
        return ("param", "port")
    return tuple(_unint(x) for x in t)


def _unint_facts(f):
    """The same facts with `int(port)` read as `port` - alternatives of a merged state included."""
    from ..interp import Facts
    out = Facts({_unint(k): v for k, v in f.items()})
    alts = getattr(f, "alts", None)
    if alts:
        # group keys stay as they are (`int(port)` and `port` remain two groups; both are "about" the port)
        out.alts = {g: tuple(frozenset((_unint(k), v) for k, v in alt) for alt in alt_set) for g, alt_set in alts.items()}
    return out


def prt1(ctx: Ctx):
    model = ctx.model
    rule = "PRT1"
    ctx.rule(rule, floor=2, what="type (bool-excluding) and range check dominate every flow of an API port into an authority")
    for fi in pkg_funcs(model):
        if not is_public(fi) or "port" not in fi.params:
            continue
        r = analyze(model, fi)
        ctx.functions.add(fi.qual)
        p = ("param", "port")
        seen = {}
        for e in r.by_kind("call"):
            # the port reaches an authority: argument of a package function, or formatted into a string
            if e.func[0] != "global" or not any(_unint(a) == p for a in e.args) and not any(_unint(v) == p for _k, v in e.kwargs):
                continue
            ok = all(valid_port_facts(f, p) for f in alternatives(_unint_facts(e.state.facts), p))
            seen.setdefault((id(e.node), show(e.func)), [e, []])[1].append(ok)
        for e in r.by_kind("store_attr"):
            if e.attr == "_netloc" and any(t == p for t in walk(e.value)) and e.value[0] == "fstr":
                ok = all(valid_port_facts(f, p) for f in alternatives(_unint_facts(e.state.facts), p))
                seen.setdefault((id(e.node), "fstr"), [e, []])[1].append(ok)
        # ... and validation dominates every normal return, not only the re-assembly: an early `return self` must not
        # accept a value the checks would have rejected (True == 1, 8080.0 == 8080)
        rets = {}
        for s, v, node in r.returns:
            ok = all(valid_port_facts(f, p) for f in alternatives(_unint_facts(s.facts), p))
            rets.setdefault(id(node), [node, v, []])[2].append(ok)
        for node, v, oks in rets.values():
            ctx.instance(rule)
            ctx.ob(rule, fi.qual, f"return {show(v)[:50]}", all(oks),
                   "a result is returned on a path where the `port` argument was not validated (None, or int and not bool and "
                   "0..65535): an invalid port is silently accepted", where(fi, node), sample="port validated before every return")
        for (_n, what), (e, oks) in seen.items():
            ctx.instance(rule)
            ctx.ob(rule, fi.qual, f"port -> {what if what != 'fstr' else 'formatted authority'}", all(oks),
                   "the `port` argument reaches the authority without `None or (int, not bool, 0 <= port <= 65535)` being "
                   "established: the URL returned cannot be rendered / re-parsed", where(fi, e.node),
                   sample="None, or int and not bool and in range, on every path")


def prt2(ctx: Ctx):
    model = ctx.model
    rule = "PRT2"
    ctx.rule(rule, floor=5, what="default-port decisions compare with `== DEFAULT_PORTS.get(<own scheme>)`")
    DP = ("global", "_url", "DEFAULT_PORTS")
    pairs = {}
    for fi in pkg_funcs(model):
        r = analyze(model, fi)
        seen = set()
        for e in r.events:
            for val in e.data.values():
                if not (isinstance(val, tuple) and val and isinstance(val[0], str)):
                    continue
                for t in walk(val):
                    if t[0] == "cmp" and any(x == DP for x in walk(t)):
                        key = (show(t))
                        if key in seen:
                            continue
                        seen.add(key)
                        ctx.instance(rule)
                        other, get = (t[2], t[3]) if any(x == DP for x in walk(t[3])) else (t[3], t[2])
                        other = _unint(other)
                        # an (in)equality test of a port against the default of the URL's own scheme, either way round; which
                        # branch elides the port is judged below, on what each path does
                        # the default is looked up with .get(scheme), or by subscript under a handled KeyError (no default: no test)
                        looked_up = (get[0] == "call" and get[1] == ("attr", DP, "get") and len(get[2]) == 1 and _scheme_term(get[2][0], other)) or \
                            (get[0] == "sub" and get[1] == DP and _scheme_term(get[2], other) and _keyerror_guarded(fi))
                        ok = t[1] in ("Eq", "NotEq") and looked_up and is_port_term(other, fi)
                        ctx.ob(rule, fi.qual, show(t), ok,
                               "default-port test is not `port == DEFAULT_PORTS.get(scheme of the same URL)`", where(fi, e.node),
                               sample="== DEFAULT_PORTS.get(own scheme)")
                        if ok:
                            pairs.setdefault(fi.qual, (fi, set()))[1].add((other, get))
    for fi, pg in pairs.values():
        _elision_polarity(ctx, rule, model, fi, pg)
    # the `port` accessor: explicit port, else the scheme default
    fi = model.func("_url.URL.port")
    r = analyze(model, fi)
    for s, v, node in r.returns:
        ctx.instance(rule)
        if is_port_term(v, fi) or (v[0] == "attr" and v[2] == "explicit_port"):
            ok = truth(("cmp", "Is", v, NONE), s.facts) is False
            ctx.ob(rule, fi.qual, f"return {show(v)}", ok, "explicit port returned without `is not None`", where(fi, node), sample="is not None")
        else:
            ok = v == ("call", ("attr", DP, "get"), (("attr", SELF, "_scheme"),), ()) and any(
                truth(("cmp", "Is", k[2], NONE), s.facts) is True for k in s.facts if k[0] == "cmp" and k[1] == "Is")
            ctx.ob(rule, fi.qual, f"return {show(v)}", ok, "fallback is not DEFAULT_PORTS.get(self._scheme) under `explicit port is None`",
                   where(fi, node), sample="scheme default only when no port is written")


def _elision_polarity(ctx, rule, model, fi, pairs):
    """The port is left out exactly when it equals the default (or is absent): on every path of a function that compares a
    port p with the default, (a) an authority assembled with port None needs `p == default` or `p is None` on that path;
    (b) an authority that carries p (as make_netloc's port, or after a ':' in a template) needs `p == default` not to hold;
    (c) a comparison that is itself the result is the equality, not its negation."""
    from ..strtpl import flatten
    try:
        r = analyze(model, fi, merge=False)
    except AnalysisError:
        r = analyze(model, fi)
    problems = []
    pairs = {(_unint(p), g) for p, g in pairs}
    ports = {p for p, _g in pairs}

    def eq(p, f):
        out = []
        for pp, g in pairs:
            if pp == p:
                a, b = truth(("cmp", "Eq", p, g), f), truth(("cmp", "Eq", g, p), f)       # written either way round
                out.append(a if a is not None else b)
        return out

    def judge(v, f, node):
        for t in walk(v):
            if t[0] == "call" and t[1][0] == "global" and t[1][2] == "make_netloc" and len(t[2]) >= 4:
                P = t[2][3]
                if P == NONE:
                    if not any(True in eq(p, f) or truth(("cmp", "Is", p, NONE), f) is True for p in ports):
                        problems.append((node, f"{show(t)[:60]} drops the port although it is not known to be absent or the default"))
                elif P in ports and True in eq(P, f):
                    problems.append((node, f"{show(t)[:60]} writes the port although it equals the default"))
            if t[0] in ("fstr", "binop") or (t[0] == "call" and t[1][0] == "attr" and t[1][2] in ("format", "join")):
                parts = flatten(t)
                for i, p_ in enumerate(parts):
                    if p_[0] != "lit" and p_[1] in ports and i and parts[i - 1][0] == "lit" and parts[i - 1][1].endswith(":") \
                            and True in eq(p_[1], f):
                        problems.append((node, f"{show(t)[:60]} writes the port although it equals the default"))
    for s_, v, node in r.returns:
        v = _unint(v)
        if v[0] == "cmp" and any(p in (v[2], v[3]) for p in ports) and any(g in (v[2], v[3]) for _p, g in pairs):
            if v[1] != "Eq":
                problems.append((node, f"the result {show(v)[:60]} is the negation of the default-port test"))
            continue
        judge(_unint(v), _unint_facts(s_.facts), node)
    for e in r.events:
        if e.kind in ("store_attr", "store_sub") and e.kind == "store_attr" and e.attr == "_netloc":
            judge(_unint(e.value), _unint_facts(e.state.facts), e.node)
    ctx.instance(rule)
    ctx.ob(rule, fi.qual, "which branch elides the port", not problems, problems[0][1] if problems else "",
           where(fi, problems[0][0] if problems else fi.node), sample="port left out iff absent or equal to the scheme default")


def _keyerror_guarded(fi):
    """Every subscript of DEFAULT_PORTS in the function sits in the body of a `try` that handles KeyError."""
    subs = [n for n in ast.walk(fi.node) if isinstance(n, ast.Subscript) and isinstance(n.value, ast.Name) and n.value.id == "DEFAULT_PORTS"]
    if not subs:
        return False
    guarded = set()
    for t in ast.walk(fi.node):
        if isinstance(t, ast.Try) and any(isinstance(h.type, ast.Name) and h.type.id in ("KeyError", "LookupError", "Exception") for h in t.handlers):
            for b in t.body:
                guarded.update(id(n) for n in ast.walk(b))
    return all(id(n) in guarded for n in subs)


def _scheme_term(s, port):
    if s[0] == "attr" and s[2] == "_scheme":
        return True
    if s[0] == "param" and s[1] == "scheme":
        return True
    return False


def prt3(ctx: Ctx):
    model = ctx.model
    rule = "PRT3"
    ctx.rule(rule, floor=2, what="the authority splitter converts the port with int(), range-checks it and raises ValueError")
    fi = model.func("_parse.split_netloc")
    r = analyze(model, fi)
    ctx.functions.add(fi.qual)
    n = 0
    # the variable holding the port text: what int() is applied to
    text_vars = {e.node.args[0].id for e in r.by_kind("call") if e.func == ("builtin", "int") and e.node.args
                 and isinstance(e.node.args[0], ast.Name)}
    for s, v, node in r.returns:
        if v[0] != "tuple" or len(v[1]) != 4:
            raise AnalysisError("_parse.split_netloc: return value is not a 4-tuple")
        port = v[1][3]
        ctx.instance(rule)
        if port == NONE:
            # no port written: only when the text after the host delimiter is empty
            if len(text_vars) == 1 and next(iter(text_vars)) in s.env:
                ok = truth(s.env[next(iter(text_vars))], s.facts) is False
            else:
                raise AnalysisError("_parse.split_netloc: cannot tell which value is the port text (int() is not applied to one "
                                    "variable): unknown idiom")
            ctx.ob(rule, fi.qual, "return (..., None)", ok, "port reported absent without the port text being empty", where(fi, node),
                   sample="port text is empty")
            continue
        n += 1
        ok = port[0] == "call" and port[1] == ("builtin", "int") and \
            truth(("cmp", "LtE", ("const", 0), port), s.facts) is True and truth(("cmp", "LtE", port, ("const", 65535)), s.facts) is True
        ctx.ob(rule, fi.qual, f"return (..., {show(port)})", ok, "port returned without int() conversion and 0..65535 range check",
               where(fi, node), sample="int(text), 0 <= port <= 65535")
    if not n:
        raise AnalysisError("_parse.split_netloc: no return path with a port")
    for s, v, node in r.raises:
        ctx.instance(rule)
        ok = v[0] == "call" and v[1] == ("builtin", "ValueError")
        ctx.ob(rule, fi.qual, f"raise {show(v)[:60]}", ok, "port errors must be ValueError", where(fi, node), sample="ValueError")


def prt4(ctx: Ctx):
    """Exception classes of the public port checks: TypeError for a wrong type (bool included), ValueError for range."""
    model = ctx.model
    rule = "PRT4"
    ctx.rule(rule, floor=2, what="wrong port type -> TypeError, out of range -> ValueError")
    p = ("param", "port")
    for fi in pkg_funcs(model):
        if not is_public(fi) or "port" not in fi.params:
            continue
        r = analyze(model, fi)
        seen = set()
        for s, v, node in r.raises:
            if id(node) in seen:
                continue
            tests = [k for k in s.facts if any(x == p for x in walk(k)) and k[0] in ("call", "cmp")]
            typ = [k for k in tests if k[0] == "call" and k[1] == ("builtin", "isinstance")]
            rng = [k for k in tests if k[0] == "cmp" and k[1] in ("Lt", "LtE")]
            cls = v[1][1] if v[0] == "call" and v[1][0] == "builtin" else show(v)
            # which test failed on this path
            last = list(s.facts.items())[-1] if s.facts else None
            if last is None or not any(x == p for x in walk(last[0])):
                continue
            k, fv = last
            seen.add(id(node))
            if k[0] == "call" and k[1] == ("builtin", "isinstance"):
                ctx.instance(rule)
                ctx.ob(rule, fi.qual, f"raise {cls} after {show(k)}={fv}", cls == "TypeError", "a port of the wrong type must raise TypeError",
                       where(fi, node), sample="TypeError")
            elif k[0] == "cmp" and k[1] in ("Lt", "LtE") and (k[2][0] == "const" or k[3][0] == "const"):
                ctx.instance(rule)
                ctx.ob(rule, fi.qual, f"raise {cls} after {show(k)}={fv}", cls == "ValueError", "an out-of-range port must raise ValueError",
                       where(fi, node), sample="ValueError")


def sh5(ctx: Ctx):
    """A port is never tested for truthiness where the test controls a use of the port (0 is a valid port)."""
    model = ctx.model
    rule = "SH5"
    ctx.rule(rule, floor=1, what="0 and None are told apart with `is None` wherever the test controls a use of the port")
    n = 0
    for fi in pkg_funcs(model):
        r = analyze(model, fi)
        seen = set()
        for e in r.by_kind("cond"):
            t = e.test
            while t[0] == "unop" and t[1] == "Not":
                t = t[2]
            if not is_port_term(t, fi):
                continue
            node = e.node if hasattr(e.node, "lineno") else e.stmt
            if id(node) in seen:
                continue
            seen.add(id(node))
            ctrl = node
            while ctrl is not None and not isinstance(ctrl, (ast.If, ast.IfExp, ast.While, ast.Return, ast.Assign)):
                ctrl = getattr(ctrl, "_parent", None)
            # the guarded block does nothing but raise (possibly after building the message in a local)
            only_raise = isinstance(ctrl, ast.If) and not ctrl.orelse and bool(ctrl.body) and isinstance(ctrl.body[-1], ast.Raise) and \
                all(isinstance(b, (ast.Assign, ast.AnnAssign)) for b in ctrl.body[:-1])
            ctx.instance(rule)
            n += 1
            ctx.ob(rule, fi.qual, f"truthiness test of {show(t)}", only_raise,
                   f"`{show(t)}` is tested for truthiness where the outcome controls how the port is used: port 0 would be "
                   "treated as absent", where(fi, node), sample="controls only a raise (argument-presence test)")
    ctx.instance(rule)
    ctx.ob(rule, "<package>", "truthiness tests on ports", True, sample=f"{n} test(s) inspected", nontrivial=False)


def prt5(ctx: Ctx):
    """PRT5: the ValueError with which the authority splitter rejects a non-numeric or out-of-range port is never swallowed. A
    caller may translate it (a handler that ends in `raise` on every path), but a handler that goes on - with a default, with
    the port text cut off - turns 'rejected with ValueError' into 'port absent': the lazily split URLs (encoded=True, build
    (authority=..., encoded=True), derived URLs) would report the scheme default for a junk port."""
    model = ctx.model
    rule = "PRT5"
    ctx.rule(rule, floor=2, what="no caller of split_netloc swallows its ValueError")

    def ends_in_raise(body):
        if not body:
            return False
        last = body[-1]
        if isinstance(last, ast.Raise):
            return True
        if isinstance(last, ast.If):
            return ends_in_raise(last.body) and ends_in_raise(last.orelse)
        return False

    n = 0
    for fi in pkg_funcs(model):
        r = analyze(model, fi)
        seen = set()
        for e in r.by_kind("call"):
            if not (e.func[0] == "global" and e.func[2] == "split_netloc") or id(e.node) in seen:
                continue
            seen.add(id(e.node))
            n += 1
            ctx.instance(rule)
            p_, swallowing = getattr(e.node, "_parent", None), None
            child = e.node
            while p_ is not None and not isinstance(p_, (ast.FunctionDef, ast.Lambda)):
                if isinstance(p_, ast.Try) and child in p_.body:
                    for h in p_.handlers:
                        names = {x.id for x in ast.walk(h.type) if isinstance(x, ast.Name)} if h.type is not None else {"BaseException"}
                        if names & {"ValueError", "Exception", "BaseException"} and not ends_in_raise(h.body):
                            swallowing = h
                if isinstance(p_, ast.With) and any("suppress" in ast.unparse(i.context_expr) and
                                                    any(x in ast.unparse(i.context_expr) for x in ("ValueError", "Exception")) for i in p_.items):
                    swallowing = p_
                child, p_ = p_, getattr(p_, "_parent", None)
            ctx.ob(rule, fi.qual, f"split_netloc(...) in {fi.name}", swallowing is None,
                   "the ValueError of split_netloc (non-numeric or out-of-range port) is caught here and the function goes on: a "
                   "written port that must be rejected is treated as if none were written", where(fi, swallowing or e.node),
                   sample="not inside a handler that continues")
    if not n:
        raise AnalysisError("PRT5: nobody calls split_netloc (anchor vanished)")


def prt6(ctx: Ctx):
    """PRT6: a port accepted by `isinstance(port, int)` is written into the authority as a *number*. The validation admits
    instances of int subclasses; an f-string / str() of such an object is whatever the subclass formats as (an `(int, Enum)`
    mix-in prints 'P.X' on Python 3.12), and the memoised authority printer is keyed by a value that compares equal to the plain
    int. So the entry points that take a `port` argument must hand on `int(port)` (or have established `type(port) is int`)."""
    model = ctx.model
    rule = "PRT6"
    ctx.rule(rule, floor=2, what="a validated port argument is normalised to a plain int before it is rendered or memoised")
    P = ("param", "port")
    for q in ("_url.URL.build", "_url.URL.with_port"):
        if not model.has_func(q):
            raise AnalysisError(f"anchor vanished: {q}")
        fi = model.func(q)
        try:
            r = analyze(model, fi, merge=False)     # "None, or normalised" is a per-path fact that merging the two branches loses
        except AnalysisError:
            r = analyze(model, fi)
        ctx.functions.add(q)
        raw_uses = []
        n_uses = 0
        for e in r.events:
            for val in e.data.values():
                if not (isinstance(val, tuple) and val and isinstance(val[0], str)):
                    continue
                for t in walk(val):
                    used = None
                    if t[0] == "call" and t[1][0] == "global" and t[1][2] == "make_netloc" and len(t[2]) >= 4:
                        used = t[2][3]
                    elif t[0] == "fstr":
                        for p_ in t[1]:
                            if p_[0] == "fmt" and any(x == P for x in walk(p_[1])) and "port" not in "".join(c[1] for c in t[1] if c[0] == "const"):
                                used = p_[1]
                    if used is None or not any(x == P for x in walk(used)):
                        continue
                    n_uses += 1
                    for f_ in alternatives(e.state.facts, P):
                        exact = truth(("cmp", "Is", ("call", ("builtin", "type"), (P,), ()), ("builtin", "int")), f_) is True
                        if used == P and not exact and truth(("cmp", "Is", P, NONE), f_) is not True:
                            raw_uses.append(e.node)
                            break
        ctx.instance(rule)
        if not n_uses:
            raise AnalysisError(f"PRT6: {q} does not hand its port to the authority printer (unknown idiom)")
        ctx.ob(rule, q, "port rendered as supplied", not raw_uses,
               f"{fi.name}() writes its `port` argument into the authority as supplied: an instance of an int subclass that formats "
               "as something else (an (int, Enum) member prints 'P.X' on Python 3.12) yields a URL whose str() raises, and it shares the "
               "authority printer's memo entry with the equal plain int", where(fi, raw_uses[0] if raw_uses else fi.node),
               sample="int(port) / type(port) is int before rendering")
