"""C07: the splitter's delimiter/search-direction table against RFC 3986 Appendix B (B2), strip/remove sets (T11),
fragment-before-query (ORD4), verbatim storage in pre-encoded mode."""
from __future__ import annotations

import ast

from ..fold import CannotFold, Folder, module_const, need
from ..interp import deep_walk, alternatives, analyze, truth
from ..model import AnalysisError, Model
from ..oracle import C0_AND_SPACE, REMOVED
from ..report import Ctx, where
from ..terms import NONE, show, walk

FIRST = {"partition", "find", "index"}
LAST = {"rpartition", "rfind", "rindex"}


def direction(method, args):
    if method in FIRST:
        return "first"
    if method in LAST:
        return "last"
    if method == "split" and len(args) == 2 and args[1] == ("const", 1):
        return "first"
    if method == "rsplit" and len(args) == 2 and args[1] == ("const", 1):
        return "last"
    return None


def searches(r, pred=lambda e: True):
    out = []
    for e in r.by_kind("call"):
        if e.func[0] == "attr" and e.args and e.args[0][0] == "const" and isinstance(e.args[0][1], str) and pred(e):
            d = direction(e.func[2], e.args)
            if e.func[2] in FIRST | LAST | {"split", "rsplit"}:
                if d is None:
                    raise AnalysisError(f"delimiter search idiom not classifiable: {show(e.value)[:80]}")
                out.append((e, e.args[0][1], d, e.func[1]))
    return out


def t11(ctx: Ctx, only_strip=False):
    model = ctx.model
    rule = "T11"
    ctx.rule(rule, floor=2, what="leading C0-control/space stripped, TAB/CR/LF removed everywhere")
    fi = model.func("_parse.split_url")
    r = analyze(model, fi)
    ctx.functions.add(fi.qual)
    fold = Folder(model)
    strips = [e for e in r.by_kind("call") if e.func[0] == "attr" and e.func[2] in ("lstrip", "strip", "rstrip") and e.func[1] == ("param", "url")]
    ctx.instance(rule)
    ok = False
    got = None
    if len({id(e.node) for e in strips}) == 1 and strips[0].func[2] == "lstrip" and strips[0].args:
        got = need(lambda: fold.fold(strips[0].args[0]), "strip set of split_url")
        ok = frozenset(got) == C0_AND_SPACE
    ctx.ob(rule, fi.qual, "leading strip", ok, f"the input must be lstrip()ped of exactly chr(0)..chr(0x20) (found {strips and strips[0].func[2]}, set {got!r})",
           where(fi, fi.node), sample="lstrip(chr(0)..chr(32))")
    if only_strip:
        return      # the caller's property depends only on what is stripped at the ends (a trailing blank survives parsing)
    removed = set()
    for e in r.by_kind("call"):
        if e.func[0] == "attr" and e.func[2] == "replace" and len(e.args) == 2 and e.args[1] == ("const", "") and e.args[0][0] == "elem":
            try:
                removed |= set(fold.fold(e.args[0][1]))
            except CannotFold:
                pass
        elif e.func[0] == "attr" and e.func[2] == "replace" and len(e.args) == 2 and e.args[1] == ("const", "") and e.args[0][0] == "const":
            removed.add(e.args[0][1])
        elif e.func[0] == "attr" and e.func[2] == "translate" and len(e.args) == 1:
            # deletion through a translation table: every code point mapped to None is removed everywhere
            table = need(lambda: fold.fold(e.args[0]), "translation table of split_url")
            if not isinstance(table, dict) or any(v is not None for v in table.values()):
                raise AnalysisError("split_url: translate() with a table that does more than delete characters (unknown idiom)")
            removed |= {chr(k) if isinstance(k, int) else k for k in table}
    # ... and they are removed before anything is split off: the text the scheme is looked for in (and therefore everything
    # derived from it) is the cleaned text. A TAB inside "ht\ttp:" must not hide the scheme.
    def cleaned(t):
        return any(x[0] == "call" and x[1][0] == "attr" and x[1][2] in ("replace", "translate") for x in deep_walk(r, t))
    searched = []
    for e in r.by_kind("call"):
        if e.func[0] == "attr" and e.func[2] in ("find", "index", "partition", "split") and e.args and e.args[0] == ("const", ":"):
            searched.append((e, e.func[1]))
        elif e.func[0] == "attr" and e.func[2] in ("match", "fullmatch") and e.func[1][0] == "global" and e.args:
            searched.append((e, e.args[0]))
    if searched:
        e0, text = searched[0]          # the first ':' search / pattern match in program order is the scheme detection
        ctx.instance(rule)
        ctx.ob(rule, fi.qual, f"scheme detection on {show(text)[:60]}", cleaned(text),
               "the scheme is looked for in text from which TAB/CR/LF have not been removed yet: 'ht\\ttp://h/' would be parsed as a "
               "path (the characters are removed 'everywhere', so they must be gone before the first split)",
               where(fi, e0.node), sample="scheme searched in the cleaned text")
    ctx.instance(rule)
    ctx.ob(rule, fi.qual, "removed characters", frozenset(removed) == REMOVED, f"characters removed everywhere are {sorted(removed)!r}, expected TAB, CR, LF",
           where(fi, fi.node), sample="\\t \\r \\n")


def split_url_table(ctx: Ctx):
    model = ctx.model
    rule = "B2-URL"
    ctx.rule(rule, floor=6, what="delimiter search table of split_url vs RFC 3986 Appendix B")
    fi = model.func("_parse.split_url")
    r = analyze(model, fi)
    ss = searches(r)
    by_delim = {}
    for e, delim, d, recv in ss:
        by_delim.setdefault(delim, set()).add((d, id(e.node)))

    def one(delim, want, what):
        ctx.instance(rule)
        dirs = {d for d, _ in by_delim.get(delim, ())}
        ctx.ob(rule, fi.qual, f"search for {delim!r}", dirs == {want},
               f"{what}: {delim!r} must be located at its {want} occurrence (found {sorted(dirs) or 'no search'})", where(fi, fi.node),
               sample=f"{want} occurrence")
    scheme_detection(ctx, rule, fi, r, by_delim)
    one("#", "first", "fragment")
    one("?", "first", "query")
    # the bracketed host that is validated is the text between the FIRST '[' and the first ']' after it
    for br in "[]":
        if br in by_delim:
            one(br, "first", "bracketed host")
    # scheme: i > 0, first char and every following char in scheme_chars, lower-cased
    ctx.instance(rule)
    rets = [(s, v) for s, v, _n in r.returns if v[0] == "tuple" and len(v[1]) == 5]
    schemes = {v[1][0] for _s, v in rets}
    ok = all(t == ("const", "") or (t[0] == "call" and t[1][0] == "attr" and t[1][2] == "lower") for t in schemes) and len(schemes) >= 2
    ctx.ob(rule, fi.qual, "scheme value", ok, f"the scheme must be '' or the lower-cased text before the first ':' (found {[show(t)[:40] for t in schemes]})",
           where(fi, fi.node), sample="'' | url[:i].lower()")
    # authority: starts at '//' at offset 0, ends at the earliest of '/', '?', '#'.  Two idioms are understood:
    #  (A) a loop over a delimiter string with `find(c, 2)` and a running minimum,
    #  (B) `min(...)` over the non-negative `find(<delimiter>, 2)` results with the text length as default;
    # anything else is an unknown idiom (exit 2), not a violation.
    def is_find(t):
        return t[0] == "call" and t[1][0] == "attr" and t[1][2] == "find" and len(t[2]) == 2 and t[2][1] == ("const", 2)

    auth_delims = {}
    min_ok = []
    for e in r.by_kind("call"):
        if is_find(e.value) and e.args[0][0] == "elem":
            src = e.args[0][1]
            url_t = e.func[1]
            hq = truth(("cmp", "In", ("const", "?"), url_t), e.state.facts)
            hh = truth(("cmp", "In", ("const", "#"), url_t), e.state.facts)
            if src[0] == "const":
                auth_delims.setdefault((src[1], hq, hh), e)
    for e in r.by_kind("cond"):
        t = e.test
        if t[0] != "cmp" or t[1] not in ("Lt", "LtE", "Gt", "GtE"):
            continue
        small, big = (t[2], t[3]) if t[1] in ("Lt", "LtE") else (t[3], t[2])
        # position < running minimum (a loop-carried variable), and the position then becomes the minimum
        if is_find(small) and small[2][0][0] == "elem" and big[0] == "phi" and \
                any(st.env.get(big[2]) == small for st in r.backedges.get(big[1], ())):
            min_ok.append(e)
    for e in r.by_kind("call"):
        # min(<iterable of positions>, default=...): the complete candidate set in one call
        if e.func != ("builtin", "min") or len(e.args) != 1:
            continue
        finds = [t for a in e.args for t in walk(a) if is_find(t) and
                 (t[2][0][0] == "const" or (t[2][0][0] == "elem" and t[2][0][1][0] == "const" and isinstance(t[2][0][1][1], str)))]
        selected = [t for a in e.args for t in walk(a) if is_find(t) and t[2][0][0] == "elem" and t[2][0][1][0] != "const"]
        if not finds and not selected:
            continue
        url_t = (finds or selected)[0][1][1]
        hq_t, hh_t = ("cmp", "In", ("const", "?"), url_t), ("cmp", "In", ("const", "#"), url_t)
        if finds:
            chars = "".join(sorted({c for t in finds for c in (t[2][0][1] if t[2][0][0] == "const" else t[2][0][1][1])}))
            auth_delims.setdefault((chars, truth(hq_t, e.state.facts), truth(hh_t, e.state.facts)), e)
        for t in selected:
            # the delimiter string is picked from a table by the presence flags: every combination of the flags is folded
            sel = t[2][0][1]
            for hq in (True, False):
                for hh in (True, False):
                    if truth(hq_t, e.state.facts) not in (None, hq) or truth(hh_t, e.state.facts) not in (None, hh):
                        continue
                    try:
                        chars = Folder(ctx.model, {hq_t: hq, hh_t: hh}).fold(sel)
                    except CannotFold as ex:
                        raise AnalysisError(f"split_url: the authority terminators {show(sel)[:60]} cannot be folded: {ex} (unknown idiom)")
                    if not isinstance(chars, str):
                        raise AnalysisError(f"split_url: the authority terminators fold to {chars!r} (unknown idiom)")
                    auth_delims.setdefault(("".join(sorted(chars)), hq, hh), e)
        # min() keeps the smallest; "not found" (-1) must have been filtered out and the default must be the end of the text
        comps = [t for a in e.args for t in walk(a) if t[0] == "comp" and len(t) > 4]
        nonneg = any(_is_nonneg_filter(f) for c in comps for f in c[4])
        default = dict(e.kwargs).get("default")
        if nonneg and default == ("call", ("builtin", "len"), (url_t,), ()):
            min_ok.append(e)
    # (C) a tree of two-argument min() calls over find(<delimiter>, 2) results and the text length, used as the end of the
    #     authority slice url[2:END]: every leaf must be known non-negative on its path
    rets5 = [(s_, v_) for s_, v_, _n in r.returns if v_[0] == "tuple" and len(v_[1]) == 5]
    for s_, v_ in rets5:
        net = v_[1][1]
        if not (net[0] == "sub" and net[2][0] == "slice" and net[2][1] == ("const", 2)):
            continue
        url_t, end = net[1], net[2][2]
        leaves = _min_leaves(end, url_t, is_find)
        if leaves is None:
            continue
        f_ = s_.facts
        found = {t[2][0][1] for t in leaves if t != "end"}
        # a delimiter that was searched and is known absent on this path is accounted for as well
        absent = {c for c in "/?#" if truth(("cmp", "Lt", ("call", ("attr", url_t, "find"), (("const", c), ("const", 2)), ()), ("const", 0)), f_) is True}
        chars = "".join(sorted(found | absent))
        hq = truth(("cmp", "In", ("const", "?"), url_t), f_)
        hh = truth(("cmp", "In", ("const", "#"), url_t), f_)
        auth_delims.setdefault((chars, hq, hh), None)
        starts = truth(("cmp", "Eq", ("sub", url_t, ("slice", ("const", None), ("const", 2), ("const", None))), ("const", "//")), f_) is True
        nonneg = all(t == "end" or truth(("cmp", "Lt", t, ("const", 0)), f_) is False or
                     (starts and t[2][0][1] != "/" and truth(("cmp", "In", t[2][0], url_t), f_) is True) for t in leaves)
        if nonneg and (len(leaves) == 1 or end[0] == "call"):
            min_ok.append(None)
        else:
            min_ok.append(False)
    # (D) fragment and query are cut off first (each at its first '#' / '?'), then the authority is the text between the
    #     leading '//' and the first '/' of what is left
    for s_, v_ in rets5:
        net = v_[1][1]
        if net[0] in ("item", "sub") and net[2] in (0, ("const", 0)) and net[1][0] == "call" and net[1][1][0] == "attr" \
                and net[1][1][2] == "partition" and net[1][2] == (("const", "/"),):
            rest = net[1][1][1]
            if rest[0] == "sub" and rest[2] == ("slice", ("const", 2), ("const", None), ("const", None)):
                cut = {"/"}
                for t in walk(rest[1]):
                    if t[0] in ("item", "sub") and t[2] in (0, ("const", 0)) and t[1][0] == "call" and t[1][1][0] == "attr" \
                            and t[1][1][2] == "partition" and t[1][2] and t[1][2][0][0] == "const" and t[1][2][0][1] in ("?", "#"):
                        cut.add(t[1][2][0][1])
                auth_delims.setdefault(("".join(sorted(cut)), None, None), None)
                min_ok.append(None)         # partition() cuts at the first occurrence: the earliest by construction
    if any(x is False for x in min_ok):
        min_ok = []
    if not auth_delims:
        raise AnalysisError("split_url: the end of the authority is located by neither a find(c, 2) loop with a running minimum nor "
                            "min() over find() results (unknown idiom)")
    ctx.instance(rule)
    bad = []
    for (chars, hq, hh), e in auth_delims.items():
        need_ = {"/"} | ({"?"} if hq is not False else set()) | ({"#"} if hh is not False else set())
        if not need_ <= set(chars):
            bad.append(f"{chars!r} when '?' present={hq}, '#' present={hh}")
        if set(chars) - {"/", "?", "#"}:
            bad.append(f"{chars!r} contains a non-delimiter")
    ctx.ob(rule, fi.qual, "authority terminators", not bad,
           "the authority must end at the earliest of '/', '?', '#': " + "; ".join(bad),
           where(fi, fi.node), sample=f"{sorted(k[0] for k in auth_delims)}")
    ctx.instance(rule)
    ctx.ob(rule, fi.qual, "earliest terminator wins", bool(min_ok), "no comparison keeps the smallest terminator position", where(fi, fi.node),
           sample="position < current minimum")
    # ORD4: the fragment is split off before the query
    rule4 = "ORD4"
    ctx.rule(rule4, floor=1, what="fragment is split before the query, both at the first occurrence")
    ctx.instance(rule4)
    ok = True
    why = ""
    for s, v in rets:
        path_t, query_t = v[1][2], v[1][3]
        q_parts = [t for t in walk(query_t) if t[0] == "call" and t[1][0] == "attr" and t[1][2] == "partition" and t[2] == (("const", "?"),)]
        for qp in q_parts:
            recv = qp[1][1]
            has_hash = truth(("cmp", "In", ("const", "#"), recv), s.facts)
            inner = [t for t in walk(recv) if t[0] == "call" and t[1][0] == "attr" and t[1][2] == "partition" and t[2] == (("const", "#"),)]
            if not inner and any(t[0] == "call" and t[1][0] == "attr" and t[1][2] == "partition" and t[2] == (("const", "#"),) for t in walk(v)):
                ok, why = False, "the '?' split is not applied to the text before '#'"
    ctx.ob(rule4, fi.qual, "order of the fragment and query splits", ok, why or "", where(fi, fi.node), sample="partition('#') then partition('?') on its head")


def _min_leaves(t, url_t, is_find):
    """Leaves of a tree of min(a, b) calls: find(<const>, 2) on the URL text, or its length ('end'); None = not such a tree."""
    if t[0] == "call" and t[1] == ("builtin", "min") and len(t[2]) >= 2 and not t[3]:
        out = []
        for a in t[2]:
            sub = _min_leaves(a, url_t, is_find)
            if sub is None:
                return None
            out.extend(sub)
        return out
    if is_find(t) and t[1][1] == url_t and t[2][0][0] == "const":
        return [t]
    if t == ("call", ("builtin", "len"), (url_t,), ()):
        return ["end"]
    return None


def _is_nonneg_filter(f):
    """x >= 0, x > -1, x != -1 in any spelling"""
    from ..interp import norm_atom
    k, pol = norm_atom(f)
    if k[0] != "cmp":
        return False
    op, a, b = k[1], k[2], k[3]
    if op == "LtE" and a == ("const", 0) and pol:
        return True
    if op == "Lt" and b == ("const", 0) and not pol:
        return True
    if op == "Lt" and a == ("const", -1) and pol:
        return True
    if op == "LtE" and b == ("const", -1) and not pol:
        return True
    if op == "Eq" and ("const", -1) in (a, b) and not pol:
        return True
    return False


def scheme_detection(ctx, rule, fi, r, by_delim):
    """The scheme ends at the first ':' and consists of scheme characters only. Two idioms are understood: the
    find(':') + per-character membership scan, and an anchored regular expression `<class>+:`; anything else is exit 2."""
    import re._parser as sp
    want = set(need(lambda: __import__("sa.fold", fromlist=["ext_value"]).ext_value("urllib.parse", "scheme_chars"), "scheme_chars"))
    ctx.instance(rule)
    dirs = {d for d, _ in by_delim.get(":", ())}
    if dirs:
        sets = []
        for e in r.by_kind("cond"):
            t = e.test
            if t[0] == "cmp" and t[1] in ("In", "NotIn") and t[3][0] in ("ext", "global") and "scheme" in str(t[3][2]).lower():
                try:
                    sets.append(set(Folder(ctx.model).fold(t[3])))
                except CannotFold:
                    pass
        # ... or `<set of scheme characters>.issuperset(<prefix>)`
        for e in r.by_kind("cond"):
            for t in walk(e.test):
                if t[0] == "call" and t[1][0] == "attr" and t[1][2] == "issuperset" and len(t[2]) == 1:
                    try:
                        sets.append(set(Folder(ctx.model).fold(t[1][1])))
                    except CannotFold:
                        pass
        if not sets:
            raise AnalysisError("split_url: the scheme ends at a ':' search but no membership test of its characters was recognised "
                                "(per-character `in <scheme characters>` or `<set>.issuperset(prefix)`): unknown idiom")
        ok = dirs == {"first"} and bool(sets) and all(s_ == want for s_ in sets)
        ctx.ob(rule, fi.qual, "scheme end ':' and scheme characters", ok,
               f"the scheme must end at the FIRST ':' (found {sorted(dirs)}) and consist of scheme characters only "
               f"(membership sets checked: {len(sets)})", where(fi, fi.node), sample="find(':') + all characters in scheme_chars")
        return
    # regular-expression idiom
    pats = []
    for e in r.by_kind("call"):
        if e.func[0] == "attr" and e.func[2] in ("match", "fullmatch") and e.func[1][0] == "global":
            try:
                v = Folder(ctx.model).fold(e.func[1])
            except CannotFold:
                continue
            if isinstance(v, tuple) and v and v[0] == "regex":
                pats.append((v, e))
    if not pats:
        raise AnalysisError("split_url: the scheme is detected by neither a ':' search nor an anchored regular expression (unknown idiom)")
    problems = []
    for (tag, pat, flags), e in pats:
        items = list(sp.parse(pat, flags))
        if items and str(items[0][0]) == "SUBPATTERN" and len(list(items[0][1][3])) == 1:
            items[0] = list(items[0][1][3])[0]        # (<class>+): a capture group around the scheme characters
        if len(items) != 2 or str(items[0][0]) != "MAX_REPEAT" or str(items[1][0]) != "LITERAL" or chr(items[1][1]) != ":":
            raise AnalysisError(f"split_url: scheme pattern {pat!r} is not `<class>+:` (unknown idiom)")
        lo, hi, body = items[0][1]
        body = list(body)
        cls = set()
        if len(body) == 1 and str(body[0][0]) == "IN":
            for o, a in body[0][1]:
                if str(o) == "RANGE":
                    cls.update(chr(c) for c in range(a[0], a[1] + 1))
                elif str(o) == "LITERAL":
                    cls.add(chr(a))
                else:
                    raise AnalysisError(f"split_url: scheme pattern {pat!r}: class item {o}")
        else:
            raise AnalysisError(f"split_url: scheme pattern {pat!r}: not a character class")
        if lo < 1:
            problems.append("an empty scheme is accepted")
        if cls != want:
            problems.append(f"scheme character class accepts {''.join(sorted(cls - want))!r} and misses {''.join(sorted(want - cls))!r}")
    ctx.ob(rule, fi.qual, "scheme pattern", not problems, "; ".join(problems), where(fi, fi.node), sample="<scheme chars>+ ':'")


def split_netloc_table(ctx: Ctx):
    model = ctx.model
    rule = "B2-NETLOC"
    ctx.rule(rule, floor=4, what="authority split: last '@', first ':' of the userinfo, ':' after the host or ']'")
    fi = model.func("_parse.split_netloc")
    r = analyze(model, fi)
    ctx.functions.add(fi.qual)
    ss = searches(r)
    netloc = ("param", fi.params[0])

    def find(delim, pred):
        return [(e, d) for e, dl, d, recv in ss if dl == delim and pred(recv)]
    # userinfo: the LAST '@'
    at = [(e, d) for e, dl, d, recv in ss if dl == "@"]
    ctx.instance(rule)
    ctx.ob(rule, fi.qual, "userinfo separator '@'", bool(at) and all(d == "last" for _e, d in at),
           "the userinfo must be split off at the LAST '@' of the authority", where(fi, fi.node), sample="last '@'")
    # every ':' split (user/password, host/port) is at the FIRST ':' of the text it is applied to
    colons = [(e, d, recv) for e, dl, d, recv in ss if dl == ":"]
    ctx.instance(rule)
    ctx.ob(rule, fi.qual, "':' separators", len({id(e.node) for e, _d, _r in colons}) >= 2 and all(d == "first" for _e, d, _r in colons),
           "user/password and host/port must be split at the FIRST ':' of the userinfo / of the text after the host "
           f"(found {sorted({d for _e, d, _r in colons})} at {len({id(e.node) for e, _d, _r in colons})} site(s))", where(fi, fi.node),
           sample="first ':'")
    # host/port: bracket-aware
    ctx.instance(rule)
    lb = [(e, d) for e, dl, d, recv in ss if dl == "["]
    rb = [(e, d) for e, dl, d, recv in ss if dl == "]"]

    def after_bracket(e, recv):
        # the ':' is looked for in text cut at the ']' (partition / slice) or from an offset computed from the ']' search
        return any(t[0] == "call" and t[1][0] == "attr" and t[2] and t[2][0] == ("const", "]")
                   for x in (recv,) + tuple(e.args[1:]) for t in walk(x))
    port_after_bracket = [e for e, d, recv in colons if after_bracket(e, recv)]
    plain = [e for e, d, recv in colons if not after_bracket(e, recv)]
    def no_bracket(facts):
        # "there is no '['":  '[' not in x,  x.find('[') < 0,  x.find('[') == -1
        for k, fv in facts.items():
            if k[0] != "cmp":
                continue
            if k[1] == "In" and k[2] == ("const", "[") and fv is False:
                return True
            pos = [x for x in (k[2], k[3]) if x[0] == "call" and x[1][0] == "attr" and x[1][2] in ("find", "index") and x[2][:1] == (("const", "["),)]
            if pos and truth(("cmp", "Lt", pos[0], ("const", 0)), facts) is True:
                return True
            if pos and truth(("cmp", "Eq", pos[0], ("const", -1)), facts) is True:
                return True
        return False
    guarded = [e for e in plain if no_bracket(e.state.facts)]
    ok = bool(lb) and bool(rb) and bool(port_after_bracket) and bool(guarded) and all(d == "first" for _e, d in lb + rb)
    ctx.ob(rule, fi.qual, "host/port separator", ok,
           "the port must be split at the ':' after ']' for bracketed hosts and at the first ':' only when there is no '['",
           where(fi, fi.node), sample="'[' .. ']' then ':' | first ':' when no '['")
    # ... and the test for a bracket looks at the text the bracket is then searched in (the part after the last '@'): a '[' in
    # the userinfo is plain text and must not switch the host/port split to the bracket form
    mism = []
    paired = 0
    for e, dl, d, recv in ss:
        if dl != "[":
            continue
        known = {k[3] for k, fv in e.state.facts.items() if fv is True and k[0] == "cmp" and k[1] == "In" and k[2] == ("const", "[")}
        if known:
            paired += 1
            if recv not in known:
                mism.append((e, recv, known))
    if paired:
        ctx.instance(rule)
        ctx.ob(rule, fi.qual, "bracket test and bracket search", not mism,
               (f"the presence of '[' is established for {sorted(show(x)[:30] for x in mism[0][2])} but the bracket is searched for in "
                f"{show(mism[0][1])[:30]}: a '[' in the userinfo would select the bracketed-host split for a host that has no bracket")
               if mism else "", where(fi, mism[0][0].node if mism else fi.node), sample="same text")
    # empty user -> None, password None only when no ':' was present
    ctx.instance(rule)
    rets = [(s, v) for s, v, _n in r.returns if v[0] == "tuple" and len(v[1]) == 4]
    ok = bool(rets) and all(v[1][0] == NONE or truth(v[1][0], s.facts) is True for s, v in rets)
    ctx.ob(rule, fi.qual, "empty user", ok, "an empty user must be reported as None", where(fi, fi.node), sample="user or None")


CUTS = {"partition", "rpartition", "split", "rsplit", "removeprefix", "removesuffix", "group", "groups", "splitlines"}        # results are substrings
CLEANING = {"lstrip", "strip", "rstrip", "replace", "translate"}                                # decided by T11
CASE = {"lower", "upper", "casefold", "title", "capitalize", "swapcase"}
REWRITING = CASE | {"expandtabs", "zfill", "format", "join", "center", "ljust", "rjust", "encode", "decode", "normalize"}
IDENTITY_CALLS = {"str", "intern"}


def _transformations(res, t, seen, cleaning=CLEANING):
    """Follows the text a component is taken from back to the input and yields (name, term) for every step that is not a
    cut (slice, element of a partition/split): the components of the RFC decomposition are substrings of the cleaned input."""
    while True:
        tag = t[0]
        if tag in ("const", "param"):
            return
        if tag in ("sub", "item", "elem"):
            t = t[1]
        elif tag == "phi":
            if t in seen:
                return
            seen.add(t)
            for alt in res.phis.get((t[1], t[2]), ()):
                yield from _transformations(res, alt, seen, cleaning)
            return
        elif tag == "call" and t[1][0] == "attr" and t[1][1][0] not in ("global", "ext", "builtin", "module"):
            m = t[1][2]
            if m in REWRITING or (m in CLEANING and m not in cleaning):
                yield m, t
            elif m not in CUTS | cleaning:
                raise AnalysisError(f"split_url: a component is produced by .{m}() - neither a cut nor a known rewriting (unknown idiom)")
            t = t[1][1]
        elif tag == "call" and t[1][0] == "attr" and t[1][2] in ("match", "fullmatch", "search") and t[2]:
            t = t[2][-1]            # a group of a pattern match is a substring of the matched text
        elif tag == "call":
            name = t[1][-1] if t[1][0] in ("global", "ext", "builtin", "attr") else show(t[1])
            texts = [a for a in t[2] if a[0] != "const"]
            if name in IDENTITY_CALLS and len(texts) == 1:
                t = texts[0]
                continue
            if name in REWRITING or name.endswith("QUOTER") or name in ("quote", "unquote"):
                yield name, t
                for a in texts:
                    yield from _transformations(res, a, seen, cleaning)
                return
            raise AnalysisError(f"split_url: a component is produced by {show(t)[:60]} (unknown idiom)")
        elif tag == "binop" and t[1] == "Add":
            yield "concatenation", t
            return
        elif tag == "fstr":
            yield "formatting", t
            return
        else:
            raise AnalysisError(f"split_url: a component is computed as {show(t)[:60]} (unknown idiom)")


def split_url_verbatim(ctx: Ctx, positions=(0, 1, 2, 3, 4)):
    """B3: every component split_url returns is a substring of the cleaned input (the scheme lower-cased): nothing between the
    cut and the return rewrites the text. `positions` restricts the components the calling property depends on."""
    rule = "B3"
    names = ("scheme", "authority", "path", "query", "fragment")
    ctx.rule(rule, floor=len(positions), what="components of the split are substrings of the cleaned input")
    fi = ctx.model.func("_parse.split_url")
    r = analyze(ctx.model, fi)
    ctx.functions.add(fi.qual)
    rets = [(v, n) for _s, v, n in r.returns if v[0] == "tuple" and len(v[1]) == 5]
    if not rets:
        raise AnalysisError("split_url does not return 5-tuples (unknown idiom)")
    for i in positions:
        ctx.instance(rule)
        bad = {}
        for v, n in rets:
            for name, t in _transformations(r, v[1][i], set()):
                if i == 0 and name == "lower":
                    continue
                bad.setdefault(name, (t, n))
        for name, (t, n) in sorted(bad.items()):
            ctx.ob(rule, fi.qual, f"{names[i]} rewritten by {name}", False,
                   f"the {names[i]} split_url returns is not a substring of the input: it passes through {name} ({show(t)[:70]}), so the parts "
                   f"are no longer the RFC 3986 decomposition of the string and the text that was supplied is not the text that is stored",
                   where(fi, n), sample="substring of the cleaned input")
        if not bad:
            ctx.ob(rule, fi.qual, f"{names[i]} is a substring", True, "", where(fi, fi.node), sample="substring of the cleaned input")


def pre_encoded_identity(ctx: Ctx):
    model = ctx.model
    rule = "F1-ENC"
    ctx.rule(rule, floor=1, what="encoded=True stores the split parts verbatim")
    fi = model.func("_url.pre_encoded_url")
    r = analyze(model, fi)
    ctx.functions.add(fi.qual)
    split = ("call", ("global", "_parse", "split_url"), (("param", fi.params[0]),), ())
    from .immut import _fresh
    for s, v, node in r.returns:
        ctx.instance(rule)
        if v[0] == "call" and _fresh(model, v) and not v[3]:
            # the un-memoised constructor called with the split parts: *split_url(url) or its five items in order
            items = tuple(("item", split, i) for i in range(5))
            alt = tuple(("sub", split, ("const", i)) for i in range(5))
            ok = v[2] == (("star", split),) or v[2] == items or v[2] == alt
            ctx.ob(rule, fi.qual, "stored parts", ok, "with encoded=True the five split parts must be stored by identity", where(fi, node),
                   sample="constructor(*split_url(url))")
            continue
        ok = v[0] == "new"
        if ok:
            for i, slot in enumerate(("_scheme", "_netloc", "_path", "_query", "_fragment")):
                t = s.heap.get((v, slot))
                if not (t is not None and t[0] in ("item", "sub") and (t[2] == i or t[2] == ("const", i)) and t[1][0] == "call"
                        and t[1][1][0] == "global" and t[1][1][2] == "split_url" and t[1][2] == (("param", fi.params[0]),)):
                    ok = False
        ctx.ob(rule, fi.qual, "stored parts", ok, "with encoded=True the five split parts must be stored by identity", where(fi, node),
               sample="slots = split_url(url)[0..4]")
    # and the constructor dispatches on `encoded`
    fn = model.func("_url.URL.__new__")
    rn = analyze(model, fn)
    ctx.instance(rule)
    ok = True
    for s, v, node in rn.returns:
        if v[0] == "call" and v[1][0] == "global" and v[1][2] in ("pre_encoded_url", "encode_url"):
            enc = truth(("param", "encoded"), s.facts)
            if (v[1][2] == "pre_encoded_url") != (enc is True) or enc is None:
                ok = False
    ctx.ob(rule, fn.qual, "dispatch on `encoded`", ok, "the verbatim constructor must be used exactly when encoded is true", where(fn, fn.node),
           sample="pre_encoded_url iff encoded")


def split_netloc_verbatim(ctx: Ctx):
    """B3-NETLOC: user, password and host returned by split_netloc are substrings of the authority it was given (cuts at '@', ':',
    '[' and ']' only) and the port is int() of one. Nothing is un-escaped, case-mapped or stripped on the way: the parser applies
    the function to the authority as written and the lazy accessors apply it again to the stored one, so any rewriting step that is
    not idempotent makes a freshly parsed URL and its unpickled twin disagree - and the parts would no longer be "the split of the
    authority"."""
    rule = "B3-NETLOC"
    ctx.rule(rule, floor=3, what="components of split_netloc are substrings of its argument")
    fi = ctx.model.func("_parse.split_netloc")
    r = analyze(ctx.model, fi)
    ctx.functions.add(fi.qual)
    rets = [(v, n) for _s, v, n in r.returns if v[0] == "tuple" and len(v[1]) == 4]
    if not rets:
        raise AnalysisError("split_netloc does not return 4-tuples (unknown idiom)")
    names = ("user", "password", "host")
    for i, name in enumerate(names):
        ctx.instance(rule)
        bad = {}
        for v, n in rets:
            t = v[1][i]
            # `x or None` / `x if x else None`: the text alternative is what matters
            alts = [t]
            if t[0] == "boolop":
                alts = list(t[2])
            elif t[0] == "ifexp":
                alts = [t[2], t[3]]
            for a in alts:
                if a[0] == "const":
                    continue
                for what, tt in _transformations(r, a, set(), cleaning=frozenset()):
                    bad.setdefault(what, (tt, n))
        for what, (tt, n) in sorted(bad.items()):
            ctx.ob(rule, fi.qual, f"{name} rewritten by {what}", False,
                   f"the {name} split_netloc returns is not a substring of the authority: it passes through {what} ({show(tt)[:70]}). The "
                   "function runs once on the authority as written and again on the stored one (lazy accessors, unpickled copies): a "
                   "rewriting that is not idempotent makes the two disagree", where(fi, n), sample="substring of the argument")
        if not bad:
            ctx.ob(rule, fi.qual, f"{name} is a substring", True, "", where(fi, fi.node), sample="substring of the argument")
