"""PK1 and SH4 (C09): pickle state = the stored fields; eager cache entries agree with the lazy definitions."""
from __future__ import annotations

import ast

from ..fold import fold_expr, need
from ..interp import Analyzer, State, analyze, truth
from ..model import AnalysisError
from ..report import Ctx, where
from ..shape import Shapes, TOP
from ..strtpl import flatten
from ..terms import show, walk
from .immut import fresh_view
from .shape_rules import cache_root, cache_stores, shapes_contradiction

S = ("param", "self")


def slots_of(model):
    cls = model.module("_url").classes["URL"]
    for st in cls.body:
        if isinstance(st, ast.Assign) and any(isinstance(t, ast.Name) and t.id == "__slots__" for t in st.targets):
            v = need(lambda: fold_expr(model, "_url", st.value), "URL.__slots__")
            return list(v), st
    raise AnalysisError("anchor vanished: URL.__slots__")


def pk1(ctx: Ctx):
    model = ctx.model
    rule = "PK1"
    ctx.rule(rule, floor=4, what="pickle state = exactly the stored fields, same order on both sides, cache reset")
    slots, node = slots_of(model)
    fields = [s for s in slots if s != "_cache"]
    fi_val = model.func("_url.URL._val")
    rv = analyze(model, fi_val)
    vals = {v for _s, v, _n in rv.returns}
    ctx.instance(rule)
    order = None
    if len(vals) == 1:
        v = vals.pop()
        if v[0] == "tuple" and all(e[0] == "attr" and e[1] == S for e in v[1]):
            order = [e[2] for e in v[1]]
    ctx.ob(rule, fi_val.qual, "state tuple", order is not None and sorted(order) == sorted(fields),
           f"_val is {order}, the stored fields are {fields}: pickling would lose or invent a field", where(fi_val, fi_val.node),
           sample=str(order))
    # __getstate__ returns a 1-tuple wrapping _val
    fg = model.func("_url.URL.__getstate__")
    rg = analyze(model, fg)
    ctx.instance(rule)
    ok = all(v[0] == "tuple" and len(v[1]) == 1 and any(t == ("attr", S, "_val") for t in walk(v[1][0])) for _s, v, _n in rg.returns) and rg.returns
    ctx.ob(rule, fg.qual, "pickled state", bool(ok), "__getstate__ does not return (SplitResult(*self._val),)", where(fg, fg.node),
           sample="(tuple.__new__(SplitResult, self._val),)")
    # __setstate__ assigns the same fields in the same order and resets the cache
    fs = model.func("_url.URL.__setstate__")
    rs = analyze(model, fs)
    for st in rs.falls + [s for s, _v, _n in rs.returns]:
        ctx.instance(rule)
        got = {}
        for (obj, attr), v in st.heap.items():
            if obj == S and v[0] == "item" and isinstance(v[2], int):
                got[v[2]] = attr
        seq = [got[i] for i in sorted(got)]
        cache = st.heap.get((S, "_cache"))
        ok = order is not None and seq == order and cache == ("dict", ())
        ctx.ob(rule, fs.qual, "restored fields", ok,
               f"__setstate__ restores {seq} (cache reset: {cache == ('dict', ())}) but the state holds {order}", where(fs, fs.node),
               sample=f"{seq}, _cache = {{}}")
    return fields


def sh4(ctx: Ctx, shapes: Shapes, only_keys=None):
    """Eager cache entries written by the parsing constructor vs the lazy definition of the same accessor,
    evaluated at the constructor's exit with the slots bound to what the constructor stored."""
    model = ctx.model
    rule = "SH4"
    ctx.rule(rule, floor=8 if only_keys is None else 0, what="each pre-filled cache entry agrees with the lazy definition of that accessor")
    methods = model.methods("_url", "URL")
    fillers = {}
    for name, fi in methods.items():
        _st, always, _ = cache_stores(model, fi)
        for k in always:
            if name != k and not name.startswith("__"):
                fillers.setdefault(k, fi)
    eager_funcs = []
    for fi in model.all_funcs():
        if fi.module != "_url" or fi.cls:
            continue
        r = analyze(model, fi)
        if any(e.attr == "_cache" and cache_root(e.value)[0] == "dict" and (e.value[0] == "mut" or (e.value[0] == "dict" and e.value[1]))
               for e in r.by_kind("store_attr")):
            eager_funcs.append((fi, r))
    if not eager_funcs:
        raise AnalysisError("SH4: no constructor pre-fills the cache (anchor vanished)")
    for fi, r in eager_funcs:
        ctx.functions.add(fi.qual)
        results = {}
        for st, rv, node in r.returns:
            view = fresh_view(model, st, rv)
            if view is None:
                continue
            if shapes_contradiction(shapes, st, fi, r):
                continue        # infeasible constructor path
            cache = view.get("_cache")
            entries = {}
            t = cache
            while t is not None and t[0] == "mut":
                if t[2] == "setitem" and t[3][0][0] == "const":
                    entries.setdefault(t[3][0][1], t[3][1])
                t = t[1]
            if t is not None and t[0] == "dict":        # entries written in the display the cache starts from
                for kk, vv in t[1]:
                    if kk[0] == "const" and isinstance(kk[1], str) and kk[1] != "**":
                        entries.setdefault(kk[1], vv)
            init = State(facts=dict(st.facts))
            for attr, v in view.items():
                if attr != "_cache":
                    init.heap[(S, attr)] = v
            _assembly(ctx, rule, fi, r, st, node, entries, init.heap.get((S, "_netloc")), results)
            for k, ev in entries.items():
                lazy = _lazy_values(model, methods, fillers, k, init)
                if lazy is None:
                    ctx.note(f"SH4: no lazy definition found for eager key {k!r}")
                    continue
                if k not in fillers:
                    continue        # handled by SH4c below (needs the unmerged analysis)
                esh = shapes.shape(ev, st.facts, fi, None, r)
                verdicts = []
                same = any(lv == ev for _f, lv, _fi, _r in lazy)
                lsh = frozenset()
                for lfacts, lv, lfi, lres in lazy:
                    if shapes_contradiction(shapes, State(facts=dict(lfacts)), lfi, lres):
                        continue
                    lsh |= shapes.shape(lv, lfacts, lfi, None, lres)
                if same:
                    verdicts.append(("same term", True))
                else:
                    disjoint = bool(esh) and bool(lsh) and not (esh & lsh) and esh != TOP and lsh != TOP
                    verdicts.append((f"eager {sorted(esh)} / lazy {sorted(lsh)}", not disjoint))
                bad = [v for v, ok in verdicts if not ok]
                cond = _cond_sig(st.facts, init.heap)
                auth = init.heap.get((S, "_netloc"))
                ash = "/".join(sorted(shapes.shape(auth, st.facts, fi, None, r))) if auth is not None else "?"
                if not ash:
                    continue        # contradictory path condition
                # the finding is identified by the entry and the authority shape it occurs under; the shape sets the
                # analysis computed are detail (they vary with the precision of the callee summaries)
                bad = [(f"eager value outside the lazy definition's range when the stored authority is {ash}", b) for b in bad]
                results.setdefault((k, tuple(x[0] for x in bad)), []).append((cond, verdicts, node, bad))
        _sh4c(ctx, model, shapes, fi, methods, fillers, results)
        for (k, bad), lst in results.items():
            if only_keys is not None and not any(k == x or k.startswith(x + " ") for x in only_keys):
                continue        # this property claims the entries its own clauses read (e.g. the comparison keys)
            ctx.instance(rule)
            cond, verdicts, node = lst[0][:3]
            if bad:
                detail = lst[0][3][0][1] if len(lst[0]) > 3 and lst[0][3] else ""
                ctx.ob(rule, fi.qual, f"cache[{k!r}]: {bad[0]}", False,
                       f"the parser pre-fills {k!r} with a value the lazy definition can never produce on the same URL "
                       f"({detail}; {bad[0]}): an unpickled copy disagrees with the original", where(fi, node))
            else:
                ctx.ob(rule, fi.qual, f"cache[{k!r}]", True, where=where(fi, node),
                       sample=f"{len(lst)} constructor exit state(s): {verdicts[0][0]}")


def _assembly(ctx, rule, fi, r, st, node, entries, netloc, results):
    """SH4b: the pre-filled userinfo / port entries are exactly the components the stored authority was assembled from."""
    if netloc is None:
        return
    comps = None
    if netloc[0] == "call" and netloc[1][0] == "global" and netloc[1][2] == "make_netloc" and len(netloc[2]) >= 4:
        comps = dict(zip(("raw_user", "raw_password", "host", "explicit_port"), netloc[2][:4]))
    elif flatten(netloc) != [("val", netloc)]:
        # `<host>:<port>` written as a template in any spelling (f-string, format, %, concatenation)
        parts = flatten(netloc)
        if len(parts) == 3 and parts[0][0] != "lit" and parts[1] == ("lit", ":") and parts[2][0] != "lit":
            comps = {"raw_user": ("const", None), "raw_password": ("const", None), "host": parts[0][1], "explicit_port": parts[2][1]}
    elif netloc[0] != "const":
        comps = {"raw_user": ("const", None), "raw_password": ("const", None), "host": netloc, "explicit_port": ("const", None)}
    if comps is None:
        return
    if "raw_host" in entries:
        # the pre-filled host is the host component of the assembled authority (without the brackets of an IP literal)
        e = entries["raw_host"]
        if e[0] == "sub" and e[2] == ("slice", ("const", 1), ("const", -1), ("const", None)):
            e = e[1]
        ok = e == comps["host"]
        bad = () if ok else (f"eager {show(entries['raw_host'])[:50]} but the authority is assembled from {show(comps['host'])[:50]}",)
        results.setdefault(("raw_host (assembly)", bad), []).append(("", [("pre-filled host is the host the authority was assembled from", ok)], node))
    for k in ("raw_user", "raw_password", "explicit_port"):
        if k not in entries:
            continue
        ok = entries[k] == comps[k] or (comps[k] == ("const", None) and truth(("cmp", "Is", entries[k], ("const", None)), st.facts) is True) \
            or (entries[k] == ("const", None) and truth(("cmp", "Is", comps[k], ("const", None)), st.facts) is True)
        bad = () if ok else (f"eager {show(entries[k])[:50]} but the authority is assembled from {show(comps[k])[:50]}",)
        results.setdefault((k + " (assembly)", bad), []).append(("", [("pre-filled value is the component the authority was assembled from", ok)], node))


def _sh4c(ctx, model, shapes, fi, methods, fillers, results):
    """An accessor computed directly by its property body (not through the authority splitter): the pre-filled value
    must be the very term the property computes, on every jointly feasible (constructor exit, property path) pair.
    Uses the unmerged constructor analysis (the correlation between the slots matters), de-duplicated on the facts
    that are about the stored slots and the pre-filled value."""
    from ..interp import assume
    from ..terms import walk
    r = analyze(model, fi, merge=False)
    seen = set()
    for st, rv, node in r.returns:
        view = fresh_view(model, st, rv)
        if view is None:
            continue
        cache = view.get("_cache")
        entries = {}
        t = cache
        while t is not None and t[0] == "mut":
            if t[2] == "setitem" and t[3][0][0] == "const":
                entries.setdefault(t[3][0][1], t[3][1])
            t = t[1]
        if t is not None and t[0] == "dict":
            for kk, vv in t[1]:
                if kk[0] == "const" and isinstance(kk[1], str) and kk[1] != "**":
                    entries.setdefault(kk[1], vv)
        slots = {attr: v for attr, v in view.items() if attr != "_cache"}
        sub = {("attr", S, kk): vv for kk, vv in entries.items()}
        for k, ev in entries.items():
            if k in fillers or k not in methods:
                continue
            pfi = methods[k]
            mentioned = {a for n in __import__("ast").walk(pfi.node) if isinstance(n, __import__("ast").Attribute)
                         and isinstance(n.value, __import__("ast").Name) and n.value.id == "self" for a in [n.attr]}
            rel_terms = [slots[a] for a in mentioned if a in slots] + [entries[a] for a in mentioned if a in entries] + [ev]
            from ..interp import subject
            rset = set(rel_terms)
            rel = {fk: fv for fk, fv in st.facts.items() if subject(fk) in rset}
            key = (k, ev, tuple(sorted((a, slots[a]) for a in mentioned if a in slots)), frozenset(rel.items()))
            if key in seen:
                continue
            seen.add(key)
            base = State(facts=rel)
            if shapes_contradiction(shapes, base, fi, r):
                continue
            init = State(facts=dict(rel))
            for a, v in slots.items():
                init.heap[(S, a)] = v
            res = Analyzer(model, pfi).run(init)
            diffs = []
            for ls, lv, _n in res.returns:
                lv2 = _subst(lv, sub)
                joint = State(facts=dict(ls.facts))
                feasible = not shapes_contradiction(shapes, joint, pfi, res)
                if feasible and lv2 != ev and not _same_empty(shapes, lv2, ev, {**rel, **ls.facts}, fi, r):
                    diffs.append(f"pre-filled {show(ev)[:50]} but the accessor computes {show(lv2)[:60]}")
            bad = tuple(sorted(set(diffs)))[:1]
            results.setdefault((k + " (definition)", bad), []).append(("", [("same term as the accessor's own definition", not bad)], node))


def _same_empty(shapes, a, b, facts, fi, r):
    """'' written as a literal and a text known to be empty on this path are the same value."""
    from ..shape import E
    for x, y in ((a, b), (b, a)):
        if x == ("const", "") and y[0] != "const":
            shp = shapes.shape(y, facts, fi, None, r)
            if shp and shp <= {E}:
                return True
    return False


def _subst(t, sub):
    if t in sub:
        return sub[t]
    if isinstance(t, tuple):
        return tuple(_subst(x, sub) if isinstance(x, tuple) else x for x in t)
    return t


def _cond_sig(facts, heap):
    out = []
    for k, v in facts.items():
        s = show(k)
        if len(s) < 40 and ("netloc" in s or "host" in s or "port" in s):
            out.append(f"{s}={v}")
    return ", ".join(out[:6])


def _lazy_values(model, methods, fillers, key, init: State):
    """[(facts, value term, FuncInfo, Result)] of the lazy computation of accessor `key` from the seeded slots."""
    if key in fillers:
        fi = fillers[key]
        res = Analyzer(model, fi).run(init)
        out = []
        for e in res.by_kind("store_sub"):
            if e.index == ("const", key):
                out.append((e.state.facts, e.value, fi, res))
        return out
    if key in methods:
        fi = methods[key]
        res = Analyzer(model, fi).run(init)
        return [(s.facts, v, fi, res) for s, v, _n in res.returns]
    return None


def sh4_bracket(ctx: Ctx):
    """SH4-BRACKET: the lazy definition of raw_host (split_netloc via the filler) never carries the brackets of an IP literal,
    so a value written under cache key 'raw_host' anywhere else - the parser, a classmethod constructor, a modifier that
    pre-fills the cache of its result - must not be the direct result of a function that can return a bracketed host,
    unless the path excludes the bracket.  Judged: stores whose value is exactly such a call; any other value is left to SH4."""
    from ..interp import subject
    model = ctx.model
    rule = "SH4-BRACKET"
    ctx.rule(rule, floor=2, what="a raw_host cache entry written outside the lazy filler is never the bracketed form the host encoder returns")
    producers = {}
    for fi in model.all_funcs():
        if fi.module != "_url" or fi.cls:
            continue
        r = analyze(model, fi)
        for _s, v, node in r.returns:
            parts = flatten(v)
            if parts and parts[0][0] == "lit" and isinstance(parts[0][1], str) and parts[0][1].startswith("["):
                producers.setdefault(("global", fi.module, fi.name), (fi, node))
    if not producers:
        raise AnalysisError("SH4-BRACKET: no function of _url returns a bracketed host (anchor vanished)")
    for (_g, _m, name), (pfi, node) in sorted(producers.items()):
        ctx.functions.add(pfi.qual)
    methods = model.methods("_url", "URL")
    funcs = [fi for fi in model.all_funcs() if fi.module == "_url" and (not fi.cls or fi.cls == "URL")]
    judged = others = 0
    for fi in funcs:
        stores, always, _r = cache_stores(model, fi)
        stores = {k: list(v) for k, v in stores.items()}
        # ... and entries written in the dict display the cache starts from (`self._cache = {"raw_host": ..., ...}`)
        for e in analyze(model, fi).by_kind("store_attr"):
            if e.attr != "_cache":
                continue
            t = e.value
            while t is not None and t[0] == "mut":
                t = t[1]
            if t is not None and t[0] == "dict":
                for kk, vv in t[1]:
                    if kk == ("const", "raw_host"):
                        stores.setdefault("raw_host", []).append((vv, e.state, None))
        if "raw_host" not in stores:
            continue
        if fi.cls and "raw_host" in always and fi.name != "raw_host" and not fi.name.startswith("__") and \
                not any(v[0] == "call" and v[1] in producers for v, _s, _root in stores["raw_host"]):
            continue        # the lazy filler: the reference definition
        ctx.functions.add(fi.qual)
        seen = set()
        for v, st, _root in stores["raw_host"]:
            stripped = v[0] == "sub" and v[2] == ("slice", ("const", 1), ("const", -1), ("const", None))
            core = v[1] if stripped else v
            if not (core[0] == "call" and core[1] in producers):
                if ("other", show(v)[:40]) not in seen:
                    seen.add(("other", show(v)[:40]))
                    others += 1
                    ctx.instance(rule)
                    ctx.ob(rule, fi.qual, f"cache['raw_host'] = {show(v)[:50]}", True, where=where(fi, fi.node),
                           sample="not the encoder's result as it is: left to SH4 (shape / assembly rules)", nontrivial=False)
                continue
            arg = core[2][0] if core[2] else None
            has = truth(("cmp", "In", ("const", "["), core), st.facts)
            colon = truth(("cmp", "In", ("const", ":"), arg), st.facts) if arg is not None else None
            verdict = None
            if stripped:
                verdict = (has is True, "the first and last character are removed on a path that does not establish the brackets")
            elif has is False or colon is False or (arg is not None and arg[0] == "const"):
                verdict = (True, "")
            else:
                other = [fk for fk in st.facts if fk != core and subject(fk) == core and
                         not (fk[0] == "cmp" and fk[1] == "In" and fk[2] == ("const", "["))]
                # `x is None` / `x == <text without bracket>`: when true the value is that constant, when false they say nothing
                pinned = [fk for fk in other if fk[0] == "cmp" and fk[1] in ("Is", "Eq") and fk[2] == core and fk[3][0] == "const"
                          and not (isinstance(fk[3][1], str) and "[" in fk[3][1])]
                other = [fk for fk in other if fk not in pinned]
                if any(st.facts[fk] is True for fk in pinned):
                    verdict = (True, "")
                elif other:
                    raise AnalysisError(f"SH4-BRACKET: {fi.qual} guards the pre-filled host with {show(other[0])[:60]} (unknown idiom)")
                else:
                    verdict = (False, f"{show(core)[:60]} can return '[v6]' and no test on this path excludes it")
            key = (stripped, verdict)
            if key in seen:
                continue
            seen.add(key)
            judged += 1
            ctx.instance(rule)
            ctx.ob(rule, fi.qual, "cache['raw_host']: " + ("brackets removed" if stripped else "encoder result stored as it is"), verdict[0],
                   f"raw_host is pre-filled with a value that keeps the brackets of an IPv6 literal ({verdict[1]}): the lazy definition "
                   "(split_netloc) never has them, so an unpickled copy disagrees and host_subcomponent brackets it twice",
                   where(fi, fi.node), sample="'[' in host decides between host[1:-1] and host")
    if not judged and not others:
        raise AnalysisError("SH4-BRACKET: no pre-filled raw_host entry found outside the lazy filler (anchor vanished)")


_PQ_EXAMPLES = (
    ("def f(self, q):\n    qm = MultiDict(self._parsed_query)\n    qm.update(q)\n    url = from_parts_uncached(self._scheme, self._netloc, self._path, get_str_query_from_sequence_iterable(qm.items()), self._fragment)\n    url._cache['_parsed_query'] = list(qm.items())\n    return url\n", 1),
    ("def f(self, q):\n    new = get_str_query(q)\n    url = from_parts_uncached(self._scheme, self._netloc, self._path, new, self._fragment)\n    url._cache['_parsed_query'] = list(self._parsed_query) + parse_qsl(new, keep_blank_values=True)\n    return url\n", 0),
    ("def f(self, q):\n    url = from_parts_uncached(self._scheme, self._netloc, self._path, str(q), self._fragment)\n    url._cache['_parsed_query'] = [(k, str(v)) for k, v in ()]\n    return url\n", 0),
)


def _unserialised_inputs(model, r):
    """[(node, stored term, caller-supplied term)] for stores under cache key '_parsed_query' whose value holds a parameter of
    the function (other than self) that did not pass through a call producing text (the query serialisers of _query, the
    quoters, parse_qsl, str)."""
    def textmaker(f):
        if f == ("builtin", "str"):
            return True
        if f[0] == "ext":
            return f[-1] in ("parse_qsl", "quote", "unquote")
        if f[0] == "global":
            return f[1] == "_query" or f[2].endswith("QUOTER") or f[2].startswith("get_str_query") or f[2] == "query_var"
        return False

    def tainted(t):
        if not isinstance(t, tuple) or not t:
            return None
        if isinstance(t[0], tuple):
            pass
        elif t[0] == "param":
            return None if t[1] == "self" else t
        elif t[0] == "attr" and t[1] == S:
            return None        # the URL's own stored text / accessors
        elif t[0] == "call" and textmaker(t[1]):
            return None
        for x in (t if isinstance(t[0], tuple) else t[1:]):
            if isinstance(x, tuple) and x:
                got = tainted(x)
                if got is not None:
                    return got
        return None
    out, seen = [], set()
    for e in r.by_kind("store_sub"):
        if e.index != ("const", "_parsed_query"):
            continue
        p = tainted(e.value)
        if p is None or (e.value, p) in seen:
            continue
        seen.add((e.value, p))
        for fk, fv in e.state.facts.items():
            if fv is True and fk[0] == "call" and fk[1] == ("builtin", "isinstance") and len(fk[2]) == 2 and any(x == p for x in walk(fk[2][0])) \
                    and any(x == ("builtin", "str") for x in walk(fk[2][1])):
                raise AnalysisError(f"PQ-TAINT: the caller's value stored under '_parsed_query' is type-tested first ({show(fk)[:60]}): unknown idiom")
        out.append((e.node, e.value, p))
    return out


def pq_taint(ctx: Ctx):
    """PQ-TAINT: `_parsed_query` is by definition parse_qsl(stored query text): pairs of str. A constructor or modifier that
    pre-fills it for the URL it returns may compute it any way it likes from text, but a caller-supplied value (a Query mapping or
    sequence: int / float / enum values, lists of values) stored there as supplied is read back by .query as the caller's
    objects, while a pickled or copied twin - and the same URL parsed from its string - gives the serialised text."""
    from ..model import FuncInfo
    model = ctx.model
    rule = "PQ-TAINT"
    ctx.rule(rule, floor=0, what="no caller-supplied query object is stored under '_parsed_query' without passing a serialiser")
    for i, (src, want) in enumerate(_PQ_EXAMPLES):
        node = ast.parse(src).body[0]
        got = len(_unserialised_inputs(model, analyze(model, FuncInfo("_url", "URL", f"<pq-example-{i}>", node))))
        if got != want:
            raise AnalysisError(f"PQ-TAINT self-check: {got} unserialised store(s) found in {src!r}, expected {want}")
    n = 0
    nfun = 0
    for fi in model.all_funcs():
        if fi.module != "_url" or (fi.cls and fi.cls != "URL"):
            continue
        nfun += 1
        for node, v, p in _unserialised_inputs(model, analyze(model, fi)):
            n += 1
            ctx.instance(rule)
            ctx.functions.add(fi.qual)
            ctx.ob(rule, fi.qual, f"cache['_parsed_query'] holds {show(p)[:40]} as supplied", False,
                   f"the pre-filled pairs {show(v)[:90]} contain the caller's value {show(p)[:40]} without a serialiser in between: "
                   ".query returns the caller's objects (ints, lists, enums) where the stored text - and an unpickled twin - gives str",
                   where(fi, node), sample="pairs computed from text (parse_qsl of the serialised query)")
    ctx.instance(rule)
    ctx.ob(rule, "<module _url>", "pre-filled '_parsed_query' entries", True,
           sample=f"{n} unserialised store(s) in {nfun} functions; self-check on {len(_PQ_EXAMPLES)} built-in examples", nontrivial=False)
