"""QV1-QV3 and the pair-quoting rule (C12): value-type gate over a finite type lattice, None handling,
sequence expansion only for mappings, every key/value through the query-part quoter."""
from __future__ import annotations

from ..interp import alternatives, analyze, truth
from ..model import AnalysisError, Model
from ..report import Ctx, where
from ..strtpl import flatten
from ..terms import NONE, show, walk

# the lattice: name -> (exact builtin type or None, set of builtin bases it is a subclass of (incl. itself), has __int__)
LATTICE = {
    "int": ("int", {"int", "object"}, True),
    "bool": ("bool", {"bool", "int", "object"}, True),
    "int subclass": (None, {"int", "object"}, True),
    "float": ("float", {"float", "object"}, True),
    "float subclass": (None, {"float", "object"}, True),
    "str": ("str", {"str", "object"}, False),
    "str subclass": (None, {"str", "object"}, False),
    "NoneType": ("NoneType", {"NoneType", "object"}, False),
    "bytes": ("bytes", {"bytes", "object"}, False),
    "bytearray": ("bytearray", {"bytearray", "object"}, False),
    "list": ("list", {"list", "object"}, False),
    "tuple": ("tuple", {"tuple", "object"}, False),
    "dict": ("dict", {"dict", "object"}, False),
    "object without __int__": (None, {"object"}, False),
}
# B5 (C12 statement): what each type must lead to
ORACLE = {
    "int": "str(v)", "bool": "TypeError", "int subclass": "str(int(v))", "float": "str(float(v))", "float subclass": "str(float(v))",
    "str": "v", "str subclass": "v", "NoneType": "TypeError", "bytes": "TypeError", "bytearray": "TypeError", "list": "TypeError",
    "tuple": "TypeError", "dict": "TypeError", "object without __int__": "TypeError",
}


def eval_atom(k, T, cls_terms, v_term):
    """Truth of a guard atom for a value of lattice type T (None = not a type test)."""
    exact, bases, has_int = LATTICE[T]
    if k[0] == "cmp" and k[1] == "Is" and k[2] in cls_terms and k[3][0] == "builtin":
        return exact == k[3][1]
    if k[0] == "call" and k[1] == ("builtin", "issubclass") and k[2][0] in cls_terms and k[2][1][0] == "builtin":
        return k[2][1][1] in bases
    if k[0] == "call" and k[1] == ("builtin", "isinstance") and k[2][0] in cls_terms and k[2][1][0] == "ext" and k[2][1][2] == "SupportsInt":
        return has_int
    if k[0] == "call" and k[1] == ("builtin", "isinstance") and k[2][0] == v_term and k[2][1][0] == "builtin":
        return k[2][1][1] in bases
    if k[0] == "call" and k[1] == ("builtin", "isinstance") and k[2][0] == v_term and k[2][1][0] == "ext" and k[2][1][2] == "SupportsInt":
        return has_int
    return None


def classify(v, vt):
    if v == vt:
        return "v"
    if v[0] == "call" and v[1] == ("builtin", "str") and len(v[2]) == 1:
        a = v[2][0]
        if a == vt:
            return "str(v)"
        if a[0] == "call" and a[1] == ("builtin", "int") and a[2] == (vt,):
            return "str(int(v))"
        if a[0] == "call" and a[1] == ("builtin", "float") and a[2] == (vt,):
            return "str(float(v))"
    return show(v)


def qv1(ctx: Ctx):
    model = ctx.model
    rule = "QV1"
    ctx.rule(rule, floor=len(LATTICE), what="query_var outcome per value type over the finite type lattice")
    fi = model.func("_query.query_var")
    r = analyze(model, fi, merge=False)
    ctx.functions.add(fi.qual)
    vt = ("param", fi.params[0])
    cls_terms = {("call", ("builtin", "type"), (vt,), ())}
    for T in LATTICE:
        outcomes = set()
        nan_guard = False
        for kind, lst in (("ret", r.returns), ("raise", r.raises)):
            for s, v, node in lst:
                ok = True
                for k, fv in s.facts.items():
                    tv = eval_atom(k, T, cls_terms, vt)
                    if tv is not None and tv != fv:
                        ok = False
                        break
                if not ok:
                    continue
                if kind == "ret":
                    c = classify(v, vt)
                    if T == "float" and c == "str(v)":
                        c = "str(float(v))"      # float(v) is v itself for an exact float: the two spellings are one value
                    outcomes.add(c)
                    if c == "str(float(v))":
                        f = s.facts
                        nan_guard = (any(k[0] == "call" and k[1][-1] == "isinf" and not fv for k, fv in f.items()) and
                                     any(k[0] == "call" and k[1][-1] == "isnan" and not fv for k, fv in f.items())) or \
                            any(k[0] == "call" and k[1][-1] == "isfinite" and fv for k, fv in f.items())
                else:
                    cls = v[1][1] if v[0] == "call" and v[1][0] == "builtin" else show(v)
                    if cls == "ValueError" and (any(k[0] == "call" and k[1][-1] in ("isinf", "isnan") and fv for k, fv in s.facts.items()) or
                                                any(k[0] == "call" and k[1][-1] == "isfinite" and fv is False for k, fv in s.facts.items())):
                        continue      # the nan / inf rejection
                    outcomes.add(cls)
        ctx.instance(rule)
        want = ORACLE[T]
        ok = outcomes == {want} and (want != "str(float(v))" or nan_guard)
        ctx.ob(rule, fi.qual, f"value of type {T}", ok,
               f"a query value of type {T} leads to {sorted(outcomes)} (nan/inf guard: {nan_guard}); the statement prescribes {want}",
               where(fi, fi.node), sample=f"{want}")


def qv2(ctx: Ctx):
    model = ctx.model
    rule = "QV2"
    ctx.rule(rule, floor=4, what="None clears the query (with_query, update_query) or is a no-op (extend_query)")
    g = model.func("_query.get_str_query")
    rg = analyze(model, g)
    ctx.instance(rule)
    none_rets = [s for s, v, _n in rg.returns if v == NONE]
    ok = bool(none_rets) and all(any(fv and k[0] == "cmp" and k[1] == "Is" and k[3] == NONE for k, fv in s.facts.items()) for s in none_rets)
    ctx.ob(rule, g.qual, "return None", ok, "get_str_query returns None for something other than a None query", where(g, g.node),
           sample="only when the query argument is None")
    # with_query: the stored query is get_str_query(...) or ""
    w = model.func("_url.URL.with_query")
    rw = analyze(model, w)
    for e in rw.calls(lambda e: e.func[-1] in ("from_parts", "from_parts_uncached")):
        ctx.instance(rule)
        q = e.args[3]
        ok = q == ("const", "") or (q[0] == "call" and q[1][-1] == "get_str_query")
        ctx.ob(rule, w.qual, f"query argument {show(q)[:60]}", ok, "with_query stores something other than the serialised argument or ''",
               where(w, e.node), sample="get_str_query(...) or ''")
    # extend_query: no-op exactly when nothing is to be added
    x = model.func("_url.URL.extend_query")
    rx = analyze(model, x)
    for s, v, node in rx.returns:
        if v == ("param", "self"):
            ctx.instance(rule)
            ok = any((not fv) and k[0] == "call" and k[1][-1] == "get_str_query" for k, fv in s.facts.items())
            ctx.ob(rule, x.qual, "return self", ok, "extend_query returns self although there is something to add", where(x, node),
                   sample="serialised argument is empty/None")
    u = model.func("_url.URL.update_query")
    ru = analyze(model, u)
    found = False
    for e in ru.calls(lambda e: e.func[-1] in ("from_parts", "from_parts_uncached")):
        q = e.args[3]
        for f in alternatives(e.state.facts):
            isnone = [k for k, fv in f.items() if fv and k[0] == "cmp" and k[1] == "Is" and k[3] == NONE]
            if isnone and q == ("const", ""):
                found = True
    ctx.instance(rule)
    ctx.ob(rule, u.qual, "update_query(None)", found, "update_query(None) does not clear the query", where(u, u.node), sample="query = '' under `is None`")


def qv3(ctx: Ctx):
    """Sequence values are expanded only for mappings; bytes-like queries are rejected; dispatch by type."""
    model = ctx.model
    rule = "QV3"
    ctx.rule(rule, floor=4, what="dispatch of the query argument by type")
    for q in ("_query.get_str_query", "_url.URL.update_query"):
        fi = model.func(q)
        r = analyze(model, fi)
        ctx.functions.add(q)
        for e in r.by_kind("call"):
            name = e.func[-1] if e.func[0] == "global" else None
            if name not in ("get_str_query_from_sequence_iterable", "get_str_query_from_iterable"):
                continue
            ctx.instance(rule)
            facts = e.state.facts
            is_map = any(fv and ((k[0] == "call" and k[1] == ("builtin", "isinstance") and k[2][1][-1] == "Mapping") or
                                 (k[0] == "cmp" and k[1] == "Is" and k[3] == ("builtin", "dict"))) for k, fv in facts.items())
            is_str = any(fv and k[0] == "call" and k[1] == ("builtin", "isinstance") and k[2][1] == ("builtin", "str") for k, fv in facts.items())
            is_seq = any(fv and k[0] == "call" and k[1] == ("builtin", "isinstance") and k[2][1][-1] == "Sequence" for k, fv in facts.items())
            if name == "get_str_query_from_sequence_iterable":
                ok = is_map
                msg = "list/tuple values are expanded for a query that is not known to be a mapping"
            else:
                ok = (is_seq or is_str) and not is_map
                msg = "the plain pair serialiser is used for something not known to be a sequence of pairs / parsed string"
            ctx.ob(rule, q, show(e.value)[:90], ok, msg, where(fi, e.node), sample="mapping" if name.endswith("sequence_iterable") else "sequence / string")
        for s, v, node in r.raises:
            if any(fv and k[0] == "call" and k[1] == ("builtin", "isinstance") and "bytes" in show(k[2][1]) for k, fv in s.facts.items()):
                ctx.instance(rule)
                cls = v[1][1] if v[0] == "call" and v[1][0] == "builtin" else show(v)
                ctx.ob(rule, q, f"raise {cls} for bytes-like query", cls == "TypeError", "bytes-like queries must raise TypeError", where(fi, node), sample="TypeError")


def _pair_elements(r, t, q):
    """The element expressions of the list of pairs: a comprehension's element(s), or everything appended to a list
    that starts empty (loop form). None when t is neither; exit 2 on list operations the rule does not know."""
    if t[0] == "comp":
        return list(t[2])
    root = t
    while root[0] == "mut":
        root = root[1]
    if root[0] != "phi":
        return None
    name = root[2]
    start = [x for x in r.phis.get((root[1], name), ()) if x[0] not in ("mut", "phi")]
    if any(x != ("list", ()) for x in start):
        return None
    out = []
    for e in r.by_kind("mutate"):
        if e.on_name != name:
            continue
        if e.method != "append" or len(e.args) != 1:
            raise AnalysisError(f"{q}: list of pairs changed by `{e.method}` (unknown idiom)")
        if e.args[0] not in out:
            out.append(e.args[0])
    return out


def pair_quoting(ctx: Ctx, quoter_roles):
    """Every key and value of a serialised pair passes the query-part quoter; pairs are joined with '&', key and value with '='."""
    model = ctx.model
    rule = "K-PAIR"
    ctx.rule(rule, floor=2, what="keys and values pass the query-part quoter exactly once")
    for q in ("_query.get_str_query_from_sequence_iterable", "_query.get_str_query_from_iterable"):
        fi = model.func(q)
        r = analyze(model, fi)
        ctx.functions.add(q)
        for s, v, node in r.returns:
            ctx.instance(rule)
            problems = []
            elts = None
            if v[0] == "call" and v[1] == ("attr", ("const", "&"), "join") and len(v[2]) == 1:
                elts = _pair_elements(r, v[2][0], q)
            if elts is None:
                problems.append(f"result {show(v)[:60]} is not '&'.join(<pairs>)")
            else:
                if not elts:
                    problems.append("no pair is ever produced")
                for elt in elts:
                    parts = flatten(elt)        # '<key>=<value>' in any spelling
                    lits = [p[1] for p in parts if p[0] == "lit"]
                    vals = [p[1] for p in parts if p[0] == "val"]
                    if lits != ["="] or len(vals) != 2 or len(parts) != 3 or parts[1][0] != "lit":
                        problems.append(f"pair template {show(elt)[:60]} is not '<key>=<value>'")
                        continue
                    for f in vals:
                        if not (f[0] == "call" and quoter_roles(f[1]) == "querypart" and len(f[2]) == 1):
                            problems.append(f"{show(f)[:50]} is not passed through the query-part quoter")
                        else:
                            inner = f[2][0]
                            if any(t[0] == "call" and quoter_roles(t[1]) for t in walk(inner)):
                                problems.append(f"{show(f)[:50]} is quoted twice")
            ctx.ob(rule, q, "serialised pairs", not problems, "; ".join(problems), where(fi, node),
                   sample="'&'.join(f'{Q(k)}={Q(v)}') with the query-part quoter")


def qv4(ctx: Ctx):
    """In the mapping serialiser a value is expanded into repeated keys only when it is a list or tuple (and never a
    str): a wider test (Sequence, Iterable) would split str subclasses into characters and accept bytes."""
    model = ctx.model
    rule = "QV4"
    ctx.rule(rule, floor=1, what="only list/tuple values of a mapping are expanded")
    fi = model.func("_query.get_str_query_from_sequence_iterable")
    r = analyze(model, fi)
    n = 0
    seen = set()
    for e in r.by_kind("call"):
        if not e.args:
            continue
        for t in walk(e.args[0]):
            # an element drawn from the *value* of a pair: elem(<value>) where <value> is item 1 of elem(items)
            if t[0] == "elem" and t[1][0] == "item" and t[1][2] == 1 and t[1][1][0] == "elem":
                val = t[1]
                if val in seen:
                    continue
                seen.add(val)
                n += 1
                ctx.instance(rule)
                oks = []
                for f in alternatives(e.state.facts, val):
                    narrow = False
                    for k, fv in f.items():
                        if fv and k[0] == "call" and k[1] == ("builtin", "isinstance") and k[2][0] == val:
                            ty = k[2][1]
                            names = [x[1] for x in (ty[1] if ty[0] == "tuple" else (ty,)) if x[0] == "builtin"]
                            others = [x for x in (ty[1] if ty[0] == "tuple" else (ty,)) if x[0] != "builtin"]
                            if names and not others and set(names) <= {"list", "tuple"}:
                                narrow = True
                    notstr = truth(("cmp", "Is", ("call", ("builtin", "type"), (val,), ()), ("builtin", "str")), f) is False
                    # a list or tuple instance is never a str (the two layouts cannot be combined in one class), so the
                    # isinstance test alone excludes strings; `type(v) is not str` in front of it is redundant
                    oks.append(narrow)
                ctx.ob(rule, fi.qual, f"expansion of {show(val)}", all(oks),
                       "a mapping value is iterated into repeated keys without being known to be a list or tuple (and not a "
                       "str): str subclasses would be split into characters and bytes accepted", where(fi, e.node),
                       sample="isinstance(value, (list, tuple)) and type(value) is not str")
    if not n:
        raise AnalysisError("QV4: no value expansion found in the mapping serialiser (anchor vanished)")


_FIRST_ONLY = ("pop", "popone", "popitem")
_QV5_EXAMPLES = (
    ("def f(self, names):\n    d = MultiDict(self._parsed_query)\n    for n in names:\n        d.pop(n, None)\n    return d\n", True),
    ("def f(self, names):\n    d = MultiDict(self._parsed_query)\n    for n in names:\n        if n in d:\n            del d[n]\n    return d\n", False),
    ("def f(self, names):\n    return [(k, v) for k, v in self.query.items() if k not in names]\n", False),
)


def _multi_root(r, t, depth=0):
    """Is t a multi-valued mapping of query pairs (a MultiDict / MultiDictProxy built here, or the URL's parsed query)?"""
    while t[0] == "mut":
        t = t[1]
    if t[0] == "call" and t[1][0] in ("ext", "global") and t[1][-1] in ("MultiDict", "MultiDictProxy", "CIMultiDict"):
        return True
    if t[0] == "attr" and t[2] in ("query", "_parsed_query"):
        return True
    if t[0] == "phi" and depth < 3:
        return any(_multi_root(r, x, depth + 1) for x in r.phis.get((t[1], t[2]), ()) if x != t)
    return False


def _first_only_removals(r):
    return [e for e in r.by_kind("call") if e.func[0] == "attr" and e.func[2] in _FIRST_ONLY and _multi_root(r, e.func[1])]


def qv5(ctx: Ctx):
    """Removing a key from a multi-valued query must remove every pair with that key: MultiDict.pop / popone / popitem take
    out the first occurrence only (the dict habit `d.pop(k, None)` leaves `a=3` in `a=1&b=2&a=3`). Expected count is zero, so
    the rule proves on built-in examples that it still fires."""
    from ..model import FuncInfo
    model = ctx.model
    rule = "QV5"
    ctx.rule(rule, floor=0, what="no first-occurrence removal (pop / popone / popitem) on a multi-valued query mapping")
    import ast as _ast
    for i, (src, want) in enumerate(_QV5_EXAMPLES):
        node = _ast.parse(src).body[0]
        rr = analyze(model, FuncInfo("_url", "URL", f"<qv5-example-{i}>", node))
        if bool(_first_only_removals(rr)) != want:
            raise AnalysisError(f"QV5 self-check: example {i} judged {not want}, expected {want}")
    n = 0
    for fi in model.all_funcs():
        if fi.module not in ("_url", "_query"):
            continue
        r = analyze(model, fi)
        seen = set()
        for e in _first_only_removals(r):
            if id(e.node) in seen:
                continue
            seen.add(id(e.node))
            n += 1
            ctx.instance(rule)
            ctx.ob(rule, fi.qual, show(e.value)[:80], False,
                   f"`{e.func[2]}` removes only the first pair of a repeated key from a multi-valued query: the other pairs "
                   "with that key survive (without_query_params('a') on a=1&b=2&a=3 leaves a=3)", where(fi, e.node))
    if not n:
        ctx.instance(rule)
        ctx.ob(rule, "<package>", "first-occurrence removals on query mappings", True, sample="none present (3 built-in examples judged correctly)",
               nontrivial=False)


def qv6(ctx: Ctx):
    """Parsing a query string keeps pairs with an empty value: every parse_qsl call passes keep_blank_values=True
    (`?a=&b` has two pairs; dropping blank values changes which pairs an update keeps)."""
    model = ctx.model
    rule = "QV6"
    ctx.rule(rule, floor=1, what="query strings are parsed with keep_blank_values=True")
    for fi in model.all_funcs():
        if fi.module not in ("_url", "_query"):
            continue
        r = analyze(model, fi)
        seen = set()
        for e in r.by_kind("call"):
            if not (e.func[0] in ("ext", "global") and e.func[-1] == "parse_qsl") or id(e.node) in seen:
                continue
            seen.add(id(e.node))
            ctx.instance(rule)
            kw = dict(e.kwargs)
            ok = kw.get("keep_blank_values") == ("const", True) or (len(e.args) >= 2 and e.args[1] == ("const", True))
            ctx.ob(rule, fi.qual, show(e.value)[:80], ok, "parse_qsl without keep_blank_values=True drops pairs whose value is empty",
                   where(fi, e.node), sample="keep_blank_values=True")


def qv7(ctx: Ctx):
    """What update_query's argument contributes does not depend on the URL it is applied to: the argument is always merged
    into a copy of the existing pairs (a str through parse_qsl, which decodes it) and the *merged* mapping is what gets
    serialised. Handing the argument itself to a serialiser (the with_query route, where '%' in a str is literal text) on
    some path makes `u.update_query("a=%26")` mean different things for URLs with and without a query."""
    model = ctx.model
    rule = "QV7"
    ctx.rule(rule, floor=2, what="update_query serialises the merged copy of the existing pairs, never its argument directly")
    fi = model.func("_url.URL.update_query")
    r = analyze(model, fi)
    ctx.functions.add(fi.qual)
    api = lambda t: t == ("param", "kwargs") or (t[0] in ("sub", "item") and t[1] == ("param", "args"))
    n = 0
    seen = {}
    for e in r.by_kind("call"):
        f = e.func
        if not (f[0] == "global" and f[1] == "_query" and e.args):
            continue
        n += 1
        a = e.args[0]
        inner = a[1][1] if a[0] == "call" and a[1][0] == "attr" and a[1][2] == "items" and not a[2] else a
        root = inner
        while root[0] == "mut":
            root = root[1]
        merged = root[0] == "call" and root[1][-1] in ("MultiDict", "CIMultiDict") and root[2] and \
            any(x[0] == "attr" and x[2] in ("_parsed_query", "query") for x in walk(root[2][0]))
        direct = api(inner) or (not merged and any(api(x) for x in walk(inner)))
        seen.setdefault(id(e.node), [e.node, show(e.value)[:70], []])[2].append((merged, direct))
    if not n:
        raise AnalysisError("QV7: update_query calls no serialiser of the _query module (anchor vanished)")
    for node, cons, res in seen.values():
        ctx.instance(rule)
        bad = [1 for merged, direct in res if direct]
        unknown = [1 for merged, direct in res if not merged and not direct]
        if unknown and not bad:
            raise AnalysisError(f"QV7: cannot tell what {cons} serialises (neither the merged copy nor the argument): unknown idiom")
        ctx.ob(rule, fi.qual, cons, not bad,
               "the argument of update_query is serialised directly on this path instead of being merged into the existing pairs: "
               "a str argument is then quoted as literal text here and decoded (parse_qsl) on the other paths", where(fi, node),
               sample="items() of MultiDict(self._parsed_query) after update(...)")
