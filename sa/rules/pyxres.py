"""PX1-PX8: resource, bounds and critical-section discipline of the compiled quoter's writer and tables (C19, C20)."""
from __future__ import annotations

import ast

from ..interp import analyze, truth
from ..model import AnalysisError, Model
from ..report import Ctx, where
from ..terms import show, walk
from .quoter_pyx import MOD, callee_name

ALLOC = ("PyMem_Malloc", "PyMem_Realloc")


def _buffer_term(t):
    """BUFFER or &BUFFER[0]"""
    if t == ("global", MOD, "BUFFER"):
        return True
    return callee_name(t) == "__addr__" and t[2] and t[2][0] == ("sub", ("global", MOD, "BUFFER"), ("const", 0))


def px_rules(ctx: Ctx):
    model = ctx.model
    model.load_pyx()
    # PX1 ---------------------------------------------------------------------------------
    rule = "PX1"
    ctx.rule(rule, floor=1, what="the writer is released in a finally block on every path that initialised it")
    inits = 0
    for fi in model.all_funcs(("pyx",)):
        tr = lambda kind, t: kind == "call" and callee_name(t) in ("_init_writer", "_release_writer")
        r = analyze(model, fi, trace=tr, trace_key="writerlife")
        for e in r.by_kind("call"):
            if callee_name(e.value) != "_init_writer":
                continue
            inits += 1
            ctx.instance(rule)
            w = e.args[0]
            # every later use of the same writer must sit in a try whose finally releases it
            uses = [u for u in r.by_kind("call") if u is not e and any(a == w for a in u.args)
                    and callee_name(u.value) not in ("_init_writer",)]
            rel = [u for u in uses if callee_name(u.value) == "_release_writer"]
            work = [u for u in uses if callee_name(u.value) != "_release_writer"]
            ok = bool(rel) and all(any(c[0] == "finally" for c in u.state.ctx) for u in rel) and \
                all(any(c[0] == "try" and c[2] for c in u.state.ctx) for u in work)
            # and nothing between init and the try can raise: the init call is immediately followed by the try
            ctx.ob(rule, fi.qual, show(e.value), ok,
                   "writer initialised but not released by a `finally` covering every use (a heap buffer would leak, or "
                   "be freed on a path that skips the release)", where(fi, e.node),
                   sample=f"{len(work)} use(s) inside try/finally, release in finally")
            # exits of the function after init: release executed
            for s, v, node in r.returns:
                names = [callee_name(t) for t in s.trace]
                if "_init_writer" in names:
                    pass
    if inits == 0:
        raise AnalysisError("PX1: no _init_writer call found (anchor vanished)")

    # PX2 ---------------------------------------------------------------------------------
    rule = "PX2"
    ctx.rule(rule, floor=1, what="free only a heap buffer, never the static one")
    for fi in model.all_funcs(("pyx",)):
        r = analyze(model, fi)
        for e in r.by_kind("call"):
            if callee_name(e.value) != "PyMem_Free":
                continue
            ctx.instance(rule)
            x = e.args[0]
            ok = any((not v) and k[0] == "cmp" and k[1] == "Eq" and ((k[2] == x and _buffer_term(k[3])) or (k[3] == x and _buffer_term(k[2])))
                     for k, v in e.state.facts.items())
            ctx.ob(rule, fi.qual, show(e.value), ok, "PyMem_Free of a pointer that may be the static BUFFER", where(fi, e.node),
                   sample="under `buf != BUFFER`")

    # PX3 / PX4 in _write_char ----------------------------------------------------------------
    q = f"{MOD}._write_char"
    fi = model.func(q)
    tr = lambda kind, t: kind in ("store_attr", "store_sub") or (kind == "call" and callee_name(t) in ALLOC + ("memcpy", "PyErr_NoMemory"))
    r = analyze(model, fi, trace=tr, trace_key="alloc")
    rule = "PX3"
    ctx.rule(rule, floor=2, what="allocation results are NULL-checked before use; the writer is updated only after success")
    W = ("param", "writer")
    for e in r.by_kind("store_attr"):
        if e.obj != W or e.attr not in ("buf", "size"):
            continue
        ctx.instance(rule)
        allocs = [t for t in e.state.trace if t[0] == "call" and callee_name(t) in ALLOC]
        ok = bool(allocs) and all(truth(("cmp", "Eq", a, ("ext", "c", "NULL")), e.state.facts) is False for a in allocs)
        ctx.ob(rule, q, f"writer.{e.attr} = {show(e.value)}", ok,
               "writer field updated on a path where the allocation result was not checked against NULL", where(fi, e.node),
               sample="allocation != NULL on this path")
    sets_error = []
    for s, v, node in r.returns:
        allocs = [t for t in s.trace if t[0] == "call" and callee_name(t) in ALLOC]
        failed = [a for a in allocs if truth(("cmp", "Eq", a, ("ext", "c", "NULL")), s.facts) is True]
        if not failed:
            continue
        ctx.instance(rule)
        stores = [t for t in s.trace if t[0] == "store"]
        nomem = any(t[0] == "call" and callee_name(t) == "PyErr_NoMemory" for t in s.trace)
        sets_error.append(nomem)
        ok = v == ("const", -1) and not stores
        ctx.ob(rule, q, f"allocation failure path of {show(failed[0])[:60]}", ok,
               "on allocation failure the function must return -1 and leave the writer untouched "
               f"(returns {show(v)}, writer stores: {len(stores)}); how the failure becomes MemoryError is PX7", where(fi, node),
               sample="return -1; writer untouched" + ("; PyErr_NoMemory()" if nomem else ""))
    for e in r.by_kind("call"):
        if callee_name(e.value) == "memcpy":
            ctx.instance(rule)
            dst, src, n = e.args
            ok = truth(("cmp", "Eq", dst, ("ext", "c", "NULL")), e.state.facts) is False and src == ("attr", W, "buf") \
                and n == ("attr", W, "size")
            ctx.ob(rule, q, show(e.value), ok, "memcpy into an unchecked allocation or with a length other than the old size",
                   where(fi, e.node), sample="dst != NULL, src = writer.buf, n = old writer.size")

    rule = "PX4"
    ctx.rule(rule, floor=1, what="the only store through writer.buf is in bounds: dominated by the growth check")
    stores = 0
    for f2 in model.all_funcs(("pyx",)):
        r2 = r if f2.qual == q else analyze(model, f2)
        for e in r2.by_kind("store_sub"):
            base = e.base
            while base[0] == "mut":
                base = base[1]
            is_buf = any(t[0] == "attr" and t[2] == "buf" for t in walk(base)) or callee_name(base) in ALLOC
            if not is_buf:
                continue
            stores += 1
            ctx.instance(rule)
            if f2.qual != q:
                ctx.ob(rule, f2.qual, f"store through {show(base)[:60]}", False,
                       "write through the writer's buffer outside _write_char (no growth check)", where(f2, e.node))
                continue
            pos, size0 = ("attr", W, "pos"), ("attr", W, "size")
            full = truth(("cmp", "Eq", pos, size0), e.state.facts)
            if full is None:        # the same test spelled as a difference: size - pos == 0
                full = truth(("cmp", "Eq", ("binop", "Sub", size0, pos), ("const", 0)), e.state.facts)
            if full is None:        # ... or as an order test: "room left" is pos < size (pos never exceeds size: +1 per bounded store)
                for op, a, b, room_when in (("Lt", pos, size0, True), ("Gt", size0, pos, True), ("GtE", pos, size0, False), ("LtE", size0, pos, False)):
                    tv = truth(("cmp", op, a, b), e.state.facts)
                    if tv is not None:
                        full = (not tv) if room_when else tv
                        break
            # (buf + pos)[0] is buf[pos]
            if e.index == ("const", 0) and base[0] == "binop" and base[1] == "Add" and base[3] == pos:
                e_index = pos
            else:
                e_index = e.index
            if full is False:
                ok, why = e_index == pos, "pos != size (room left), index is writer.pos"
            elif full is True:
                new_size = e.state.heap.get((W, "size"))
                new_buf = e.state.heap.get((W, "buf"))
                grown = new_size is not None and new_size[0] == "binop" and new_size[1] == "Add" and new_size[2] == size0 \
                    and new_size[3][0] == "const" and isinstance(new_size[3][1], int) and new_size[3][1] > 0
                sized = new_buf is not None and callee_name(new_buf) in ALLOC and new_buf[2][-1] == new_size
                ok, why = grown and sized and e_index == pos, f"buffer regrown to {show(new_size) if new_size else None} before the store"
            else:
                ok, why = False, "no growth check dominates the store"
            ctx.ob(rule, q, f"writer.buf[{show(e.index)}] = ...", ok, "store through writer.buf not dominated by the growth check: " + why,
                   where(fi, e.node), sample=why)
    if stores == 0:
        raise AnalysisError("PX4: no store through writer.buf found (anchor vanished)")
    # writer.pos only advanced in _write_char, by exactly one per store
    for f2 in model.all_funcs(("pyx",)):
        r2 = analyze(model, f2)
        for e in r2.by_kind("store_attr"):
            if e.attr == "pos" and e.obj[0] == "param":
                ctx.instance(rule)
                ok = (f2.qual == q and e.value == ("binop", "Add", ("attr", e.obj, "pos"), ("const", 1))) or \
                     (f2.name == "_init_writer" and e.value == ("const", 0))
                ctx.ob(rule, f2.qual, f"writer.pos = {show(e.value)}", ok, "writer.pos changed other than by +1 after a store / reset in init",
                       where(f2, e.node), sample="pos += 1 after the bounded store")

    _px_failures(ctx, model, any(sets_error) and all(sets_error))


def _px_failures(ctx: Ctx, model: Model, leaf_sets_error: bool):
    """PX6: the result of every call that can report an allocation failure (-1) is looked at - tested, or handed on as
    the caller's own result - never dropped (a dropped failure loses output: the next write retries the growth and may
    succeed).  PX7: where the chain of int results ends (a function that returns an object), a failed call leads to an
    exception on that path: `raise MemoryError`, or a bare `raise` when the allocating function has set MemoryError."""
    funcs = list(model.all_funcs(("pyx",), helpers=True))
    byname = {f.name: f for f in funcs}
    res = {f.qual: analyze(model, f) for f in funcs}
    # functions that can fail with -1: they allocate, or return -1 / the result of such a function
    fallible = set()
    changed = True
    while changed:
        changed = False
        for f in funcs:
            if f.name in fallible:
                continue
            r = res[f.qual]
            rets = [v for _s, v, _n in r.returns]
            allocs = any(callee_name(e.value) in ALLOC for e in r.by_kind("call"))
            calls_f = any(callee_name(e.value) in fallible for e in r.by_kind("call"))
            minus1 = any(v == ("const", -1) for v in rets) or any(callee_name(v) in fallible for v in rets)
            if minus1 and (allocs or calls_f):
                fallible.add(f.name)
                changed = True
    r6, r7 = "PX6", "PX7"
    ctx.rule(r6, floor=4, what="the -1 of a failed write / growth is never dropped: every such result is tested or returned")
    ctx.rule(r7, floor=1, what="an allocation failure surfaces as MemoryError where the chain of int results ends")
    if not fallible:
        raise AnalysisError("PX6: no function of the writer can report an allocation failure (anchor vanished)")
    for f in funcs:
        r = res[f.qual]
        tests = [t for e in r.by_kind("cond") for t in walk(e.test)]
        rets = [t for _s, v, _n in r.returns for t in walk(v)]
        raises_on = []
        seen = set()
        for e in r.by_kind("call"):
            if callee_name(e.value) not in fallible or id(e.node) in seen:
                continue
            seen.add(id(e.node))
            ctx.instance(r6)
            looked_at = any(t == e.value for t in tests) or any(t == e.value for t in rets)
            ctx.ob(r6, f.qual, show(e.value)[:80], looked_at,
                   "the result of a call that returns -1 on allocation failure is dropped: the failure is lost, a later write may "
                   "succeed and the call returns a result with characters missing instead of raising MemoryError", where(f, e.node),
                   sample="tested (< 0) or returned")
            raises_on.append(e)
        if f.name in fallible:
            # ... and a failure that was detected is handed on: the function's own result on that path is negative
            for e in raises_on:
                for x, v, node in r.returns:
                    if truth(("cmp", "Lt", e.value, ("const", 0)), x.facts) is not True:
                        continue
                    ctx.instance(r6)
                    neg = v == e.value or (v[0] == "const" and isinstance(v[1], int) and not isinstance(v[1], bool) and v[1] < 0)
                    ctx.ob(r6, f.qual, f"return {show(v)[:30]} after a failed {show(e.value)[:50]}", neg,
                           "a failed write is detected but the function reports success: the caller goes on with an exception set "
                           "and characters missing", where(f, node), sample="return -1")
        if f.name in fallible or not raises_on:
            continue
        # the chain ends here: every failing branch must raise
        for e in raises_on:
            ctx.instance(r7)
            failing = [x for x, exc, _n in r.raises if truth(("cmp", "Lt", e.value, ("const", 0)), x.facts) is True]
            kinds = {("reraise" if exc == ("const", "<reraise>") else show(exc)) for x, exc, _n in r.raises
                     if truth(("cmp", "Lt", e.value, ("const", 0)), x.facts) is True}
            ok = bool(failing) and all(k == "reraise" and leaf_sets_error or k.startswith("MemoryError") for k in kinds)
            ctx.ob(r7, f.qual, f"failure of {show(e.value)[:60]}", ok,
                   f"a failed write does not end in MemoryError here (raises on the failing branch: {sorted(kinds) or 'none'}; the "
                   f"allocating function sets MemoryError: {leaf_sets_error})", where(f, e.node),
                   sample="raise MemoryError" if "reraise" not in kinds else "bare raise of the MemoryError set by the allocator")


CRITICAL = ["_Quoter._do_quote", "_Quoter._write", "_write_char", "_write_pct", "_write_utf8", "_to_hex", "_restore_ch",
            "_from_hex", "_is_lower_hex", "bit_at"]
C_CALLS = {"PyUnicode_READ", "PyMem_Malloc", "PyMem_Realloc", "memcpy", "PyErr_NoMemory", "__addr__", "sizeof"}


def px5(ctx: Ctx):
    """While the static buffer is live (inside _do_quote and everything it calls) the code never releases the GIL
    and performs no Python-level operation that could run arbitrary code or switch threads."""
    model = ctx.model
    model.load_pyx()
    rule = "PX5"
    ctx.rule(rule, floor=8, what="static-buffer critical section: no nogil, no Python-object call/operation")
    cy = model.module(MOD).tree._cy
    cdefs = {k.split(".")[-1] for k, v in cy["functions"].items() if v.get("cdef")}
    # reachable set from _do_quote, computed (not assumed)
    reach, todo = set(), [f"{MOD}._Quoter._do_quote"]
    while todo:
        q = todo.pop()
        if q in reach or not model.has_func(q):
            continue
        reach.add(q)
        r = analyze(model, model.func(q))
        for e in r.by_kind("call"):
            n = callee_name(e.value)
            for cand in (f"{MOD}.{n}", f"{MOD}._Quoter.{n}"):
                if model.has_func(cand):
                    todo.append(cand)
    for q in sorted(reach):
        fi = model.func(q)
        meta = getattr(fi.node, "_cy", {})
        ctx.instance(rule)
        ctx.functions.add(q)
        problems = []
        if not meta.get("cdef"):
            problems.append("is a Python-level `def` function")
        if meta.get("nogil") or meta.get("with_gil"):
            problems.append("declared nogil / with gil")
        # `for i in range(...)` with a C integer loop variable is compiled to a C loop: no iterator object, no Python call
        c_ints = {nm for nm, ty in {**meta.get("argtypes", {}), **meta.get("locals", {})}.items()
                  if ty in ("int", "long", "short", "char", "unsigned int", "unsigned long", "Py_ssize_t", "size_t", "uint8_t", "uint16_t",
                            "uint32_t", "uint64_t", "int64_t", "int32_t", "Py_UCS4")}
        c_loops = {id(n) for n in ast.walk(fi.node) if isinstance(n, ast.For) and isinstance(n.target, ast.Name) and n.target.id in c_ints and
                   isinstance(n.iter, ast.Call) and isinstance(n.iter.func, ast.Name) and n.iter.func.id == "range" and not n.orelse}
        c_range_calls = {id(n.iter) for n in ast.walk(fi.node) if id(n) in c_loops}
        for n in ast.walk(fi.node):
            if id(n) in c_loops:
                continue
            if isinstance(n, ast.With):
                problems.append(f"`with {ast.unparse(n.items[0].context_expr)}` block (line {n.lineno})")
            if isinstance(n, (ast.JoinedStr, ast.ListComp, ast.GeneratorExp, ast.DictComp, ast.SetComp, ast.Dict, ast.List,
                              ast.Try, ast.For, ast.Import, ast.ImportFrom)):
                if isinstance(n, ast.Try) or isinstance(n, ast.For):
                    problems.append(f"{type(n).__name__} statement (Python-level control flow, line {n.lineno})")
                else:
                    problems.append(f"Python object construction {type(n).__name__} (line {n.lineno})")
        r = analyze(model, fi)
        for e in r.by_kind("call"):
            n = callee_name(e.value)
            f = e.func
            if n in cdefs or n in C_CALLS or (cy["cimports"].get(n) and n != "PyUnicode_DecodeASCII"):
                continue
            if n == "range" and id(e.node) in c_range_calls:
                continue
            if n == "PyUnicode_DecodeASCII":
                # the copy-out: must be the return value (nothing is written to the buffer afterwards)
                if any(v == e.value for _s, v, _n in r.returns):
                    continue
            problems.append(f"call of {show(f)} (line {e.node.lineno}) is not a C-level call")
        # locals / parameters of Python-object type used in the section
        for name, ty in {**meta.get("argtypes", {}), **meta.get("locals", {})}.items():
            if ty in ("object", "str", "list", "dict", "bytes") and name not in ("self", "val"):
                problems.append(f"Python-object variable `{name}: {ty}`")
        ctx.ob(rule, q, "critical section of the static buffer", not problems,
               "; ".join(problems), where(fi, fi.node), sample="only C-level operations")


def px8(ctx: Ctx):
    """PX8: the fixed-size C arrays are never indexed past their declared size. (a) at every call of the bit-table helpers
    (`bit_at` / `set_bit`, whatever they are called: the cdef functions that index their array parameter by a shift of
    their integer parameter) the unit is bounded on the path and the byte it selects lies inside the array that is passed;
    (b) every store into a local C array is preceded by a bound on the index (assert or test) that is within its size."""
    from ..fold import CannotFold, Folder
    from .quoter_pyx import interval, module_result
    model = ctx.model
    model.load_pyx()
    rule = "PX8"
    ctx.rule(rule, floor=6, what="fixed-size C arrays (bit tables, decode buffer) are indexed inside their declared size")
    mi = model.module(MOD)
    dims = getattr(mi.tree, "_cy", {}).get("array_dims", {})
    funcs = list(model.all_funcs(("pyx",), helpers=True))
    # the bit-table helpers: (array parameter, unit parameter, byte-index expression)
    helpers = {}
    for f in funcs:
        meta = getattr(f.node, "_cy", {})
        arr = [p for p, ty in meta.get("argtypes", {}).items() if ty.endswith("[]") or ty.endswith("*")]
        if len(arr) != 1 or len(f.params) != 2:
            continue
        r = analyze(model, f)
        idx = [e.index for e in r.events if e.kind in ("sub", "store_sub") and getattr(e, "base", None) == ("param", arr[0])]
        unit = [p for p in f.params if p != arr[0]][0]
        if idx and all(("param", unit) in walk(i) for i in idx):
            helpers[f.name] = (f.params.index(arr[0]), f.params.index(unit), unit, idx)
    if not helpers:
        raise AnalysisError("PX8: no bit-table helper found (anchor vanished)")

    def size_of(t, f):
        if t[0] == "global" and t[2] in dims.get("<module>", {}):
            return dims["<module>"][t[2]]
        if t[0] == "attr" and (t[1] == ("param", "self") or (t[1][0] == "phi" and t[1][2] == "self")) and f is not None and f.cls and \
                t[2] in dims.get(f.cls, {}):
            return dims[f.cls][t[2]]
        if t[0] == "phi" and t[2] in dims.get("<module>", {}):      # the array name inside a module-level loop
            return dims["<module>"][t[2]]
        return None

    def upper(x, facts):
        best = None
        for cand in (x, ("call", ("builtin", "ord"), (x,), ())):
            l, h = interval(facts, cand, 0, 1 << 62)
            if h < (1 << 62):
                best = h if best is None else min(best, h)
        if best is None:
            # an element of range(n)
            for t in walk(x):
                if t[0] == "elem":
                    try:
                        dom = Folder(model).fold(t[1])
                        if x == t:
                            return max(dom)
                    except (CannotFold, ValueError, TypeError):
                        pass
        return best

    results = [(None, module_result(model, MOD))] + [(f, analyze(model, f)) for f in funcs]
    seen = set()
    for f, r in results:
        for e in r.by_kind("call"):
            name = callee_name(e.value)
            if name not in helpers or id(e.node) in seen:
                continue
            ai, ui, unit, idxs = helpers[name]
            if len(e.args) < 2:
                continue
            seen.add(id(e.node))
            n = size_of(e.args[ai], f)
            if n is None:
                raise AnalysisError(f"PX8: size of the array passed to {name} is not declared with a literal dimension: {show(e.args[ai])}")
            ctx.instance(rule)
            hi = upper(e.args[ui], e.state.facts)
            fn = f.qual if f is not None else f"{MOD}.<module>"
            if hi is None:
                ctx.ob(rule, fn, show(e.value)[:70], False,
                       f"the unit passed to {name} is not bounded on this path: a code point above {n * 8 - 1} indexes past the "
                       f"{n}-byte table", where(f, e.node) if f is not None else f"yarl/_quoting_c.pyx:{getattr(e.node, 'lineno', 0)}")
                continue
            try:
                worst = max(Folder(model, {("param", unit): hi}).fold(i) for i in idxs)
            except CannotFold as ex:
                raise AnalysisError(f"PX8: byte index of {name} cannot be folded: {ex}")
            ctx.ob(rule, fn, show(e.value)[:70], worst < n,
                   f"a unit up to {hi} selects byte {worst} of a table declared with {n} byte(s)",
                   where(f, e.node) if f is not None else f"yarl/_quoting_c.pyx:{getattr(e.node, 'lineno', 0)}",
                   sample=f"unit <= {hi}, byte {worst} < {n}")
    # (b) local arrays
    for f, r in results:
        if f is None:
            continue
        local = getattr(f.node, "_cy", {}).get("array_dims", {})
        for e in r.events:
            if e.kind != "store_sub":
                continue
            base = e.base
            while base[0] in ("mut", "phi") and base[0] == "mut":
                base = base[1]
            nm = base[1] if base[0] == "local" else (base[2] if base[0] == "phi" else None)
            if nm not in local or id(e.node) in seen:
                continue
            seen.add(id(e.node))
            ctx.instance(rule)
            if e.index[0] == "const" and isinstance(e.index[1], int):
                hi = e.index[1]
            elif e.index[0] == "elem":
                # the loop variable of `for k in range(...)` with bounds that are constants on this path
                try:
                    dom = list(Folder(model).fold(e.index[1]))
                except (CannotFold, TypeError, ValueError):
                    dom = None
                if dom is None:
                    lo, hi = interval(e.state.facts, e.index, 0, 1 << 62)
                elif not dom:
                    ctx.ob(rule, f.qual, f"{nm}[{show(e.index)[:30]}] = ...", True, where=where(f, e.node), sample="empty range on this path", nontrivial=False)
                    continue
                else:
                    hi = max(dom) if min(dom) >= 0 else 1 << 62
            else:
                lo, hi = interval(e.state.facts, e.index, 0, 1 << 62)
            ctx.ob(rule, f.qual, f"{nm}[{show(e.index)[:30]}] = ...", hi < local[nm],
                   f"store into the {local[nm]}-element local array `{nm}` at an index only known to be <= "
                   f"{hi if hi < (1 << 62) else 'unbounded'}", where(f, e.node), sample=f"index <= {hi} < {local[nm]}")


C_BITS = {"uint8_t": 8, "char": 8, "unsigned char": 8, "signed char": 8, "int8_t": 8, "uint16_t": 16, "int16_t": 16, "short": 16,
          "unsigned short": 16, "Py_UCS1": 8, "Py_UCS2": 16}
WIDE = {"Py_UCS4", "uint32_t", "int", "unsigned int", "long", "unsigned long", "Py_ssize_t", "size_t", "uint64_t", "int64_t", "Py_UCS2", "uint16_t"}
UNIT_READS = {"PyUnicode_READ", "PyUnicode_READ_CHAR", "ord"}


def px9(ctx: Ctx):
    """PX9: an input code unit is never squeezed into a narrower C type. A value read from the text (PyUnicode_READ) or received
    as a code-point parameter has up to 21 bits; C converts it silently when it is assigned to / passed as uint8_t, char or
    uint16_t and keeps the low bits, so U+0434 becomes '4'. Such a conversion is accepted only on a path that bounds the value
    within the narrow type. Values the module computes itself (helper results, masks and shifts) are not judged here."""
    model = ctx.model
    model.load_pyx()
    rule = "PX9"
    ctx.rule(rule, floor=1, what="code units read from the text reach narrower C types only under a bound")
    funcs = list(model.all_funcs(("pyx",), helpers=True))
    byname = {f.name: f for f in funcs if f.cls is None}
    n = 0

    methods = {f.name: f for f in funcs if f.cls is not None}

    def callee_of(e):
        if e.func[0] == "global" and e.func[2] in byname:
            return byname[e.func[2]], 0
        if e.func[0] == "attr" and e.func[1] == ("param", "self") and e.func[2] in methods:
            return methods[e.func[2]], 1        # skip `self`
        return None, 0

    # which parameters carry a code unit of the text: passed a PyUnicode_READ result at some call site, directly or through a
    # parameter that does (a parameter fed only with values the module computed - a restored octet - is not one)
    unit_params = set()
    results = {f.qual: analyze(model, f) for f in funcs}
    grew = True
    while grew:
        grew = False
        for f in funcs:
            for e in results[f.qual].by_kind("call"):
                callee, skip = callee_of(e)
                if callee is None:
                    continue
                for pn, a in zip(callee.params[skip:], e.args):
                    src = (a[0] == "call" and a[1][-1] in UNIT_READS) or (a[0] == "param" and (f.qual, a[1]) in unit_params)
                    if src and (callee.qual, pn) not in unit_params:
                        unit_params.add((callee.qual, pn))
                        grew = True

    def unit_source(t, fq):
        if t[0] == "call" and t[1][-1] in UNIT_READS:
            return True
        return t[0] == "param" and (fq, t[1]) in unit_params

    def bounded(t, bits, facts):
        lim = 1 << bits
        for k, v in facts.items():
            if k[0] != "cmp" or t not in (k[2], k[3]):
                continue
            other = k[3] if k[2] == t else k[2]
            if other[0] != "const" or not isinstance(other[1], (int, str)) or isinstance(other[1], bool):
                continue
            c = ord(other[1]) if isinstance(other[1], str) and len(other[1]) == 1 else other[1]
            if not isinstance(c, int):
                continue
            left = k[2] == t
            op = k[1]
            if (op == "Eq" and v is True) or (op == "NotEq" and v is False):
                if 0 <= c < lim:
                    return True
            # t < c / t <= c true, or c > t / c >= t true, or their negations the other way round
            if left and ((op == "Lt" and v is True and c <= lim) or (op == "LtE" and v is True and c < lim) or
                         (op == "GtE" and v is False and c <= lim) or (op == "Gt" and v is False and c < lim)):
                return True
            if not left and ((op == "Gt" and v is True and c <= lim) or (op == "GtE" and v is True and c < lim) or
                             (op == "LtE" and v is False and c <= lim) or (op == "Lt" and v is False and c < lim)):
                return True
        return False

    for f in funcs:
        meta = getattr(f.node, "_cy", {})
        env = dict(meta.get("argtypes", {}))
        env.update(meta.get("locals", {}))
        r = results[f.qual]
        sites = {}
        for e in r.events:
            if e.kind == "assign" and env.get(e.name) in C_BITS:
                sites.setdefault((id(e.node), e.name), [e.node, f"{env[e.name]} {e.name} = {show(e.value)[:50]}", env[e.name], []])[3].append((e.value, e.state))
            elif e.kind == "call" and callee_of(e)[0] is not None:
                callee, skip = callee_of(e)
                ptypes = list(getattr(callee.node, "_cy", {}).get("argtypes", {}).items())[skip:]
                for (pn, pt), a in zip(ptypes, e.args):
                    if pt in C_BITS:
                        sites.setdefault((id(e.node), pn), [e.node, f"{callee.name}({pt} {pn} = {show(a)[:50]})", pt, []])[3].append((a, e.state))
        for node, cons, ty, vals in sites.values():
            judged = [(v, st) for v, st in vals if unit_source(v, f.qual)]
            if not judged:
                continue
            n += 1
            ctx.instance(rule)
            ok = all(any(bounded(v, C_BITS[ty], fx) for fx in [st.facts]) for v, st in judged)
            ctx.ob(rule, f.qual, cons, ok,
                   f"a code unit of the text is converted to {ty} ({C_BITS[ty]} bits) on a path that does not bound it: C keeps the low "
                   "bits, so a non-ASCII character is taken for the ASCII character it shares them with (the pure-Python quoter "
                   "compares whole characters)", where(f, node), sample=f"value known < {1 << C_BITS[ty]} on the path")
    ctx.instance(rule)
    ctx.ob(rule, "<module _quoting_c>", "narrowing conversions of code units", True, sample=f"{n} conversion(s) of text units judged", nontrivial=False)
