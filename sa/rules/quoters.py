"""T1/T2 and EM-PYQ: the quoter/unquoter configurations in use and the emission audit of the
pure-Python quoter. The per-configuration policy (which character is literal, which escape is decoded)
is *derived* from the guards that dominate the emission sites, then compared with the oracle elsewhere.
"""
from __future__ import annotations

import ast
import re

from ..fold import CannotFold, Folder, fold_expr, module_const, need
from ..interp import analyze, truth
from ..model import AnalysisError, Model
from ..report import Ctx, where
from ..strtpl import flatten
from ..terms import NONE, show, walk

QUOTERS_MODULE = "_quoters"


# ---------------------------------------------------------------------------------------------
# T1: configurations
# ---------------------------------------------------------------------------------------------

def class_init_defaults(model: Model, module: str, cls: str):
    fi = model.func(f"{module}.{cls}.__init__")
    out = {}
    for p in fi.params[1:]:
        d = fi.param_default(p)
        if d is None:
            raise AnalysisError(f"{fi.qual}: parameter {p} has no default")
        out[p] = need(lambda: fold_expr(model, module, d), f"default of {fi.qual}({p})")
    a = fi.node.args
    kwonly = [x.arg for x in a.kwonlyargs]
    return out, kwonly


def constructor_call(model: Model, module: str, t, depth=0):
    """(class name, {keyword: value term}) when t is a call of _Quoter / _Unquoter: directly, through a
    functools.partial object (whose stored keywords are overridden by the call's), or None."""
    if t[0] != "call" or depth > 3:
        return None
    f, args = t[1], t[2]
    kwargs = {}
    for kw, vt in t[3]:
        if kw is None:
            # **MAPPING: a dict display or a module-level constant dict of keyword -> literal
            try:
                d = Folder(model).fold(vt)
            except CannotFold:
                raise AnalysisError(f"{module}: keyword mapping {show(vt)[:50]} of a quoter constructor cannot be folded")
            if not isinstance(d, dict) or not all(isinstance(k, str) for k in d):
                raise AnalysisError(f"{module}: `**{show(vt)[:40]}` in a quoter constructor is not a keyword mapping")
            kwargs.update({k: ("const", v) for k, v in d.items()})
        else:
            kwargs[kw] = vt

    def through_partial(base):
        # partial(Class, **kw)(**kw2)
        if base[0] == "call" and base[1][0] == "ext" and base[1][1] == "functools" and base[1][2] == "partial" and len(base[2]) == 1:
            inner = constructor_call(model, module, ("call", base[2][0], (), base[3]), depth + 1)
            if inner is not None and not args:
                kw = dict(inner[1])
                kw.update(kwargs)
                return inner[0], kw
        return None
    if f[0] == "call":
        return through_partial(f)          # a partial object held in a local variable (or used in place)
    if f[0] == "global":
        r = model.resolve_global(f[1], f[2])
        if r and r[0] == "class" and r[2] in ("_Quoter", "_Unquoter"):
            if args:
                raise AnalysisError(f"{module}: positional constructor arguments in {show(t)[:60]}")
            return r[2], kwargs
        if r and r[0] == "value":
            from ..fold import module_value
            try:
                base = module_value(model, r[1], r[2])
            except CannotFold:
                return None
            # P = partial(Class, **kw);  P(**kw2)
            return through_partial(base)
    return None


def configurations(model: Model, backend_module: str = "_quoting_py"):
    """name -> (class name, full keyword configuration) for every module-level _Quoter/_Unquoter instance, however it is
    spelled: a direct constructor call, a functools.partial of the class, or a (non-anchor) factory function."""
    from ..fold import module_value
    mi = model.module(QUOTERS_MODULE)
    out = {}
    for name, sts in mi.assigns.items():
        try:
            t = module_value(model, QUOTERS_MODULE, name)
        except CannotFold:
            if any(isinstance(n, ast.Name) and n.id in ("_Quoter", "_Unquoter") for st in sts for n in ast.walk(st)):
                raise AnalysisError(f"{QUOTERS_MODULE}.{name} is built from _Quoter/_Unquoter but not by a single unconditional initialiser")
            continue
        c = constructor_call(model, QUOTERS_MODULE, t)
        if c is None:
            continue
        cls, kwargs = c
        defaults, _ = class_init_defaults(model, backend_module, cls)
        cfg = dict(defaults)
        for k, vt in kwargs.items():
            if k is None or k not in defaults:
                raise AnalysisError(f"{QUOTERS_MODULE}.{name}: unknown constructor keyword {k}")
            cfg[k] = need(lambda: Folder(model).fold(vt), f"{name}({k}=...)")
        out[name] = (cls, cfg)
    return out


def inner_quoters(model: Model, module: str):
    """The _Quoter instances every _Unquoter builds for re-quoting: attr -> configuration."""
    fi = model.func(f"{module}._Unquoter.__init__")
    r = analyze(model, fi)
    defaults, _ = class_init_defaults(model, module, "_Quoter")
    out = {}
    for e in r.by_kind("store_attr"):
        v = e.value
        if v[0] == "call" and v[1][0] == "global" and v[1][2] == "_Quoter":
            cfg = dict(defaults)
            for k, t in v[3]:
                cfg[k] = need(lambda: Folder(model).fold(t), f"{fi.qual}: {e.attr}")
            out[e.attr] = cfg
    return out, {e.attr: e.value[1] for e in r.by_kind("store_attr") if e.value[0] == "param"}


# ---------------------------------------------------------------------------------------------
# helpers
# ---------------------------------------------------------------------------------------------

def self_attr_params(model: Model, init_qual: str):
    """attribute name -> constructor parameter it is initialised from (store `self._x = x`)."""
    r = analyze(model, model.func(init_qual))
    out = {}
    for e in r.by_kind("store_attr"):
        if e.obj == ("param", "self") and e.value[0] == "param":
            out[e.attr] = e.value[1]
    return out


def consistent(state, cfg, attr_map):
    """Is the path condition compatible with the configuration (facts about self._qs, self._requote...)?"""
    for k, v in state.facts.items():
        if k[0] == "attr" and k[1] == ("param", "self") and k[2] in attr_map:
            if bool(cfg[attr_map[k[2]]]) != v:
                return False
    return True


def cfg_leaves(cfg, attr_map):
    return {("attr", ("param", "self"), a): cfg[p] for a, p in attr_map.items()}


def derived_attr_leaves(model: Model, init_qual: str, cfg: dict):
    """Attributes the constructor computes from its arguments (e.g. a safe set assembled once in __init__): their value under
    a configuration, folded from the constructor's own stores on the path the configuration takes."""
    fi = model.func(init_qual)
    try:
        r = analyze(model, fi, merge=False)
    except AnalysisError:
        r = analyze(model, fi)
    pl = {("param", p): v for p, v in cfg.items()}
    out = {}
    for st in list(r.falls) + [s_ for s_, _v, _n in r.returns]:
        f = Folder(model, pl)
        try:
            if not all(bool(f.fold(k)) == v for k, v in st.facts.items()):
                continue
        except CannotFold:
            continue
        for (obj, attr), val in st.heap.items():
            if obj != ("param", "self") or val[0] == "param":
                continue
            try:
                out[("attr", ("param", "self"), attr)] = f.fold(val)
            except CannotFold:
                pass
    # lazily memoised attributes: `self.X = <pure function of the constructor-time attributes>` stored by another method
    cls = fi.cls
    for name, m in model.methods(fi.module, cls).items():
        if name == "__init__":
            continue
        for e in analyze(model, m).by_kind("store_attr"):
            key = ("attr", ("param", "self"), e.attr)
            if e.obj != ("param", "self") or key in out:
                continue
            try:
                out[key] = Folder(model, {**pl, **out, **cfg_leaves(cfg, self_attr_params(model, init_qual))}).fold(e.value)
            except CannotFold:
                pass
    return out


def fact_in(state, x):
    """All (set term, truth) such that the state knows `x in set`."""
    return [(k[3], v) for k, v in state.facts.items() if k[0] == "cmp" and k[1] == "In" and k[2] == x]


def is_call_to(t, name):
    return t[0] == "call" and ((t[1][0] in ("builtin", "global", "ext") and t[1][-1] == name))


ESCAPES_RE = re.compile(rb"(%[0-9A-F]{2})+\Z")


class PyQuoter:
    """Emission audit of yarl/_quoting_py.py:_Quoter.__call__."""

    QUAL = "_quoting_py._Quoter.__call__"

    def __init__(self, ctx: Ctx, model: Model):
        self.ctx, self.model = ctx, model
        self.fi = model.func(self.QUAL)
        self.r = analyze(model, self.fi, merge=False)       # a small function: every path is kept apart
        self.attr_map = self_attr_params(model, "_quoting_py._Quoter.__init__")
        ctx.functions.update([self.QUAL, "_quoting_py._Quoter.__init__"])
        self.sites = []           # dicts: cls, event, ...
        self.win_starts = []      # events that start an escape window
        self.fast_returns = []    # (node, [pattern tests]) of identity returns justified by a stored pattern
        self._locate()

    # -- structure -------------------------------------------------------------------------
    def _locate(self):
        r = self.r
        acc_names = set()
        for s, v, node in r.returns:
            if v == NONE or v == ("const", "") or v == ("param", "val"):
                continue
            # <acc>.decode("ascii")
            if v[0] == "call" and v[1][0] == "attr" and v[1][2] == "decode" and v[1][1][0] in ("phi", "mut", "call"):
                base = v[1][1]
                while base[0] == "mut":
                    base = base[1]
                if base[0] == "phi":
                    acc_names.add(base[2])
                    continue
            raise AnalysisError(f"{self.QUAL}: return value {show(v)} is not None, '', the argument or the decoded output buffer")
        if len(acc_names) != 1:
            raise AnalysisError(f"{self.QUAL}: cannot identify the output buffer (candidates {sorted(acc_names)})")
        self.acc = acc_names.pop()
        # the input byte string and the scan index: while <idx> < len(<B>)
        self.loops = {}
        for lid, node in r.loops.items():
            if isinstance(node, ast.While):
                self.loops[lid] = node
        if not self.loops:
            raise AnalysisError(f"{self.QUAL}: no scanning loop found")
        self.B = None
        for e in r.by_kind("cond"):
            if isinstance(e.node, ast.While):
                t = e.test
                if t[0] == "cmp" and t[1] == "Lt" and is_call_to(t[3], "len"):
                    self.B = t[3][2][0]
                    self.idx_name = t[2][2] if t[2][0] == "phi" else None
        if self.B is None or not any(x == ("param", "val") for x in walk(self.B)):
            raise AnalysisError(f"{self.QUAL}: scanning loop is not of the form `while i < len(<input>)`")
        # any other write to the output buffer is unclassifiable
        for n in ast.walk(self.fi.node):
            if isinstance(n, ast.Name) and n.id == self.acc and isinstance(n.ctx, ast.Store):
                par = getattr(n, "_parent", None)
                if not (isinstance(par, ast.Assign) and is_empty_buffer(par.value)):
                    raise AnalysisError(f"{self.QUAL}: output buffer `{self.acc}` is re-bound at line {n.lineno}")
        # the escape window: the other bytearray that is cleared
        wins = {e.on_name for e in r.by_kind("mutate") if e.method == "clear" and e.on_name and e.on_name != self.acc}
        if len(wins) > 1:
            raise AnalysisError(f"{self.QUAL}: several escape windows {sorted(wins)}")
        self.win = wins.pop() if wins else None

    def is_unit(self, t):
        return t[0] == "sub" and t[1] == self.B and t[2][0] == "phi"

    def win_root(self, t):
        """Is t the escape window (a mut chain over the loop-head value of the window variable)?"""
        while t[0] == "mut":
            t = t[1]
        return t[0] == "phi" and t[2] == self.win

    # -- the audit -----------------------------------------------------------------------------
    def audit(self, prop_rules=("RAW", "DEC", "REEMIT", "CONST", "BYTE", "PROGRESS", "WINDOW", "RETURN")):
        ctx, r = self.ctx, self.r
        rule = "EM-PYQ"
        ctx.rule(rule, floor=8, what="every byte appended to the pure-Python quoter's output is a guarded literal, "
                                     "a validated upper-case escape, or %XX of a byte")
        fold = Folder(self.model)
        for e in r.by_kind("mutate"):
            if e.on_name != self.acc:
                continue
            if e.method not in ("append", "extend") or len(e.args) != 1:
                raise AnalysisError(f"{self.QUAL}:{e.node.lineno}: unclassifiable operation on the output buffer: {e.method}")
            a = e.args[0]
            w = where(self.fi, e.node)
            site = {"event": e, "arg": a, "where": w}
            ctx.instance(rule)
            cons = f"{self.acc}.{e.method}({show(a)})"
            # (a) raw unit
            if e.method == "append" and self.is_unit(a):
                sets = [s for s, v in fact_in(e.state, a) if v]
                site.update(cls="RAW", sets=sets)
                ctx.ob(rule, self.QUAL, cons, bool(sets), "input byte copied to the output without a membership test "
                       "against the safe set", w, sample=[f"{show(a)} in {show(s)}" for s in sets][:1])
                self.sites.append(site)
                continue
            # (b) constant
            try:
                c = fold.fold(a)
            except CannotFold:
                c = None
            if c is not None:
                if isinstance(c, int):
                    c = bytes([c])
                if not isinstance(c, (bytes, bytearray)):
                    raise AnalysisError(f"{self.QUAL}:{e.node.lineno}: constant emission of {c!r}")
                c = bytes(c)
                site.update(cls="CONST", value=c)
                self.sites.append(site)
                if ESCAPES_RE.match(c):
                    ctx.ob(rule, self.QUAL, cons, True, where=w, sample="constant is a well-formed upper-case escape")
                elif c == b"+":
                    unit = self.current_unit(e.state)
                    qs_ok = any(k[0] == "attr" and k[2] in self.attr_map and self.attr_map[k[2]] == "qs" and v
                                for k, v in e.state.facts.items())
                    sp_ok = unit is not None and self.unit_is(e.state, unit, ord(" "))
                    ctx.ob(rule, self.QUAL, cons, qs_ok and sp_ok,
                           "'+' is emitted for something other than a space under qs", w,
                           sample="facts: qs is set, unit == ord(' ')")
                else:
                    ctx.ob(rule, self.QUAL, cons, False, f"constant {c!r} is neither an escape nor '+' for space", w)
                continue
            # (c) %XX of the current unit
            m = self.byte_escape(a)
            if m is not None:
                unit, spec = m
                site.update(cls="BYTE", spec=spec)
                self.sites.append(site)
                ctx.ob(rule, self.QUAL, cons, self.is_unit(unit) and spec == "02X",
                       f"byte escape must be '%' + the current input byte formatted '02X' (found spec {spec!r})", w,
                       sample="'%' + format(unit, '02X')")
                continue
            # (d) re-emitted escape window
            if e.method == "extend" and self.win and self.win_root(a):
                ok, why = self.validated(e.state, a)
                site.update(cls="REEMIT")
                self.sites.append(site)
                ctx.ob(rule, self.QUAL, cons, ok, "escape window re-emitted without validation: " + why, w, sample=why)
                continue
            # (d') the canonical spelling stored in the escape table is written back
            tabref = self._escape_table(a) if (e.method == "extend" and a[0] in ("item", "sub")) else None
            if tabref is not None:
                ok, why = self.validated(e.state, tabref[0])
                if getattr(self, "_bad_tables", None):
                    ok, why = False, "; ".join(f"escape table {n}: {'; '.join(p[:3])}" for n, p in sorted(self._bad_tables.items()))
                site.update(cls="REEMIT")
                self.sites.append(site)
                ctx.ob(rule, self.QUAL, cons, ok, "escape re-emitted from the escape table without a successful look-up: " + why, w, sample=why)
                continue
            # (e) decoded escape
            d = self.decoded_char(a)
            if d is not None:
                ch, window = d
                pos = [s for s, v in fact_in(e.state, ch) if v]
                neg = [s for s, v in fact_in(e.state, ch) if not v]
                okv, why = self.validated(e.state, window)
                if getattr(self, "_bad_tables", None):
                    okv, why = False, "; ".join(f"escape table {n}: {'; '.join(p[:3])}" for n, p in sorted(self._bad_tables.items()))
                site.update(cls="DEC", char=ch, pos=pos, neg=neg)
                self.sites.append(site)
                ctx.ob(rule, self.QUAL, cons, bool(pos) and bool(neg) and okv,
                       "escape decoded without the guards `in safe` and `not in protected` on a validated escape"
                       f" (in: {[show(x) for x in pos]}, not in: {[show(x) for x in neg]}, {why})", w,
                       sample=f"in {[show(x) for x in pos]}, not in {[show(x) for x in neg]}, {why}")
                continue
            raise AnalysisError(f"{self.QUAL}:{e.node.lineno}: unclassifiable emission {cons}")
        self._window_invariant()
        self._progress()
        self._rewind()
        self._returns()

    def unit_is(self, state, unit, code):
        """The path knows `unit == <code>`, however the code is spelled (ord("%"), 37, a module constant holding either)."""
        for k, v in state.facts.items():
            if v is True and k[0] == "cmp" and k[1] == "Eq" and unit in (k[2], k[3]):
                other = k[3] if k[2] == unit else k[2]
                if self._folded(other) == code:
                    return True
        return False

    def current_unit(self, state):
        for k in state.facts:
            for t in walk(k):
                if self.is_unit(t):
                    return t
        return None

    def byte_escape(self, a):
        # f"%{unit:02X}".encode("ascii") in any spelling of the template ...
        if a[0] == "call" and a[1][0] == "attr" and a[1][2] == "encode":
            parts = flatten(a[1][1])
            if len(parts) == 2 and parts[0] == ("lit", "%") and parts[1][0] == "fmt":
                return parts[1][1], parts[1][2]
        # b"%%%02X" % unit
        if a[0] == "binop" and a[1] == "Mod" and a[2][0] == "const" and isinstance(a[2][1], bytes):
            m = re.fullmatch(rb"%%%(0?\d*[xX])", a[2][1])
            if m and a[3][0] != "tuple":
                return a[3], m.group(1).decode()
        # ... or a precomputed table of the 256 escapes indexed by the byte
        if a[0] == "sub" and a[1][0] == "global":
            table = self._folded(a[1])
            if isinstance(table, (tuple, list)) and len(table) == 256:
                if all(bytes(table[i]) == b"%%%02X" % i for i in range(256)):
                    return a[2], "02X"
                return a[2], "table that is not '%' + two upper-case hex digits of the index"
        return None

    def _folded(self, t):
        try:
            return Folder(self.model).fold(t)
        except CannotFold:
            return None

    def _window_is_uppercased(self):
        """Are letters upper-cased when they enter the escape window (`unit - 32` under a lower-case test)?"""
        for e in self.r.by_kind("mutate"):
            if e.on_name == self.win and e.method == "append" and e.args and e.args[0][0] == "binop" and e.args[0][1] == "Sub" \
                    and self.is_unit(e.args[0][2]) and e.args[0][3] == ("const", 32):
                return True
        return False

    def _table_verdict(self, table):
        """Is the folded escape table right?  keys b'%XX'; a str among the value (or the value) = chr(0xXX); a bytes among the
        value = the upper-case spelling; every escape the window can hold is a key: all 256 upper-case ones when the window
        upper-cases its letters, every case spelling of the two digits otherwise."""
        problems = []
        hexd = b"0123456789abcdefABCDEF"
        for k, v in table.items():
            if not (isinstance(k, (bytes, bytearray)) and len(k) == 3 and k[:1] == b"%" and k[1] in hexd and k[2] in hexd):
                problems.append(f"key {k!r} is not '%' + two hex digits")
                continue
            vals = v if isinstance(v, (tuple, list)) else (v,)
            code = int(bytes(k[1:]).decode(), 16)
            for x in vals:
                if isinstance(x, str) and x != chr(code):
                    problems.append(f"{bytes(k)!r} decodes to {x!r}")
                elif isinstance(x, (bytes, bytearray)) and bytes(x) != bytes(k).upper():
                    problems.append(f"{bytes(k)!r} is re-emitted as {bytes(x)!r}")
                elif isinstance(x, int) and not isinstance(x, bool) and x != code:
                    problems.append(f"{bytes(k)!r} has code {x}")
        if self._window_is_uppercased():
            need_ = {b"%%%02X" % i for i in range(256)}
        else:
            need_ = {b"%" + bytes([a, b]) for a in hexd for b in hexd}
        missing = sorted(need_ - {bytes(k) for k in table})
        if missing:
            problems.append(f"{len(missing)} escape spelling(s) are not recognised, e.g. {missing[:3]}")
        return problems

    def _escape_table(self, t):
        """t = TABLE.get(K) / TABLE[K] (optionally one element of a tuple value) where TABLE is a module-level dict keyed by
        escapes and K is the escape window (or bytes(window)): returns (window, is_get). The table's content is judged by
        _table_verdict and becomes part of the verdict of the sites that use it."""
        while t[0] in ("item",) or (t[0] == "sub" and t[2][0] == "const" and isinstance(t[2][1], int) and t[1][0] in ("sub", "call")):
            t = t[1]
        if t[0] == "call" and t[1][0] == "attr" and t[1][2] == "get" and len(t[2]) == 1:
            tab, key, is_get = t[1][1], t[2][0], True
        elif t[0] == "sub":
            tab, key, is_get = t[1], t[2], False
        else:
            return None
        if tab[0] != "global":
            return None
        if is_call_to(key, "bytes") and len(key[2]) == 1:
            key = key[2][0]
        if not (self.win and self.win_root(key) and key[0] != "phi"):
            return None
        table = self._folded(tab)
        if not isinstance(table, dict):
            return None
        self.__dict__.setdefault("_bad_tables", {})
        probs = self._table_verdict(table)
        if probs:
            self._bad_tables[show(tab)] = probs
        return key, is_get

    def decoded_char(self, a):
        """(character term, window) when `a` is the code of the character an escape window spells:
        ord(chr(int(W[1:], 16))), int(W[1:], 16) itself, or ord(TABLE[bytes(W)])."""
        if is_call_to(a, "int") and any(kw == ("base", ("const", 16)) for kw in a[3]) or \
                (is_call_to(a, "int") and len(a[2]) == 2 and a[2][1] == ("const", 16)):
            for t in walk(a):
                if self.win and self.win_root(t) and t[0] != "phi":
                    return ("call", ("builtin", "chr"), (a,), ()), t
        if is_call_to(a, "ord") and len(a[2]) == 1:
            ch = a[2][0]
            if is_call_to(ch, "chr") and len(ch[2]) == 1 and is_call_to(ch[2][0], "int"):
                for t in walk(ch[2][0]):
                    if self.win and self.win_root(t) and t[0] != "phi":
                        return ch, t
            tab = self._escape_table(ch)
            if tab is not None:
                return ch, tab[0]
        return None

    def validated(self, state, window):
        """The window holds '%' + two characters accepted by the hex regex and by int(.., 16)."""
        if truth(("cmp", "Eq", ("call", ("builtin", "len"), (window,), ()), ("const", 3)), state.facts) is not True:
            return False, "len(window) == 3 not established"
        # validated by a successful look-up in the table of all well-formed escapes
        for k in list(state.facts) + [x for v in state.env.values() for x in (v,)]:
            for t in walk(k):
                tab = self._escape_table(t) if t[0] in ("call", "sub") else None
                if tab is not None and tab[0] == window:
                    if (tab[1] and truth(("cmp", "Is", t, NONE), state.facts) is False) or not tab[1]:
                        return True, "window found in the table of the 256 upper-case escapes"
        rx = None
        for k, v in state.facts.items():
            if v and k[0] == "call" and k[1][0] == "attr" and k[1][2] in ("match", "fullmatch") and k[2] \
                    and k[2][0] == ("sub", window, ("slice", ("const", 1), NONE, NONE)):
                rx = k[1][1]
        if rx is None:
            return False, "no successful hex-pattern match on window[1:]"
        try:
            pat = Folder(self.model).fold(rx)
        except CannotFold as e:
            raise AnalysisError(f"{self.QUAL}: hex pattern {show(rx)} cannot be folded: {e}")
        classes = regex_two_classes(pat)
        if classes is None:
            return False, f"pattern {pat[1]!r} is not two single-character classes"
        hexup = set(b"0123456789ABCDEF")
        alnum_up = set(b"0123456789ABCDEFGHIJKLMNOPQRSTUVWXYZ")
        if all(c <= hexup for c in classes):
            return True, f"window[1:] matches {pat[1]!r}"
        if all(c <= alnum_up for c in classes):
            # then int(.., 16) must have succeeded on this path
            ok = any(is_call_to(v, "chr") and v[2] and is_call_to(v[2][0], "int") and
                     any(kw == ("base", ("const", 16)) for kw in v[2][0][3]) and any(t == window for t in walk(v))
                     for v in state.env.values())
            ok = ok or any(is_call_to(v, "int") and any(kw == ("base", ("const", 16)) for kw in v[3]) and
                           any(t == window for t in walk(v)) for v in state.env.values())
            if ok:
                return True, f"window[1:] matches {pat[1]!r} and int(window[1:], 16) succeeded"
            return False, f"pattern {pat[1]!r} admits non-hex characters and no successful int(.., 16)"
        return False, f"pattern {pat[1]!r} admits lower-case or non-alphanumeric characters"

    def _window_invariant(self):
        """The escape window is empty or starts with '%', and hex digits are upper-cased on entry."""
        if not self.win:
            return
        ctx, r = self.ctx, self.r
        rule = "EM-PYQ-WINDOW"
        ctx.rule(rule, floor=2, what="escape window invariant: empty or '%' + upper-cased bytes")
        upper_seen = False
        pct = ("call", ("builtin", "ord"), (("const", "%"),), ())
        for e in r.by_kind("mutate"):
            if e.on_name != self.win or e.method != "append":
                continue
            ctx.instance(rule)
            a = e.args[0]
            w = where(self.fi, e.node)
            cons = f"{self.win}.append({show(a)})"
            nonempty = truth(e.recv, e.state.facts) is True
            after_clear = e.recv[0] == "mut" and e.recv[2] == "clear"
            if after_clear or not nonempty:
                self.win_starts.append(e)
                ok = self.is_unit(a) and self.unit_is(e.state, a, ord("%"))
                ctx.ob(rule, self.QUAL, cons, ok, "escape window is started with something that is not known to be '%'", w,
                       sample="window emptied, unit == ord('%')")
            else:
                # continuation byte: the unit, or unit - 32 when the unit is a lower-case letter
                if self.is_unit(a):
                    lows = [s for s, v in fact_in(e.state, a) if not v]
                    ok = True
                    ctx.ob(rule, self.QUAL, cons, ok, "", w, sample=f"unit appended as is; not in {[show(x) for x in lows]}")
                elif a[0] == "binop" and a[1] == "Sub" and self.is_unit(a[2]) and a[3] == ("const", 32):
                    lows = [s for s, v in fact_in(e.state, a[2]) if v]
                    good = False
                    for s in lows:
                        try:
                            val = Folder(self.model).fold(s)
                        except CannotFold:
                            continue
                        if isinstance(val, (bytes, str)) and set(val if isinstance(val, bytes) else val.encode()) >= set(b"abcdef") \
                                and set(val if isinstance(val, bytes) else val.encode()) <= set(b"abcdefghijklmnopqrstuvwxyz"):
                            good = True
                    upper_seen = upper_seen or good
                    ctx.ob(rule, self.QUAL, cons, good, "case conversion applied outside the lower-case letter class", w,
                           sample="unit - 32 under unit in a..z")
                else:
                    ctx.ob(rule, self.QUAL, cons, False, "escape window receives something other than the current input byte", w)
        # a table keyed by every case spelling of the digits (judged by _table_verdict) needs no upper-casing
        by_table = hasattr(self, "_bad_tables") and not self._bad_tables
        ctx.ob(rule, self.QUAL, "upper-casing of hex digits entering the window", upper_seen or by_table,
               "lower-case hex digits are not upper-cased before validation (a lower-case escape would be "
               "treated as malformed)", where(self.fi, self.fi.node), sample="unit - 32 branch present")

    def _progress(self):
        """Every iteration of the scanning loop emits something or buffers the unit in the window."""
        ctx, r = self.ctx, self.r
        rule = "EM-PYQ-PROGRESS"
        ctx.rule(rule, floor=1, what="no input byte is consumed without being emitted or buffered")
        for lid in self.loops:
            for s in r.backedges.get(lid, []):
                ctx.instance(rule)
                acc = s.env.get(self.acc)
                win = s.env.get(self.win) if self.win else None
                emitted = acc is not None and acc != ("phi", lid, self.acc)
                buffered = win is not None and win[0] == "mut" and win[2] == "append"
                facts = "; ".join(sorted(f"{show(k)}={v}" for k, v in s.facts.items() if any(self.is_unit(t) for t in walk(k))))
                ctx.ob(rule, self.QUAL, f"loop iteration under [{facts}]", emitted or buffered,
                       "an iteration of the scanning loop consumes an input byte without emitting or buffering it",
                       where(self.fi, r.loops[lid]), sample="output or window extended")

    def _rewind(self):
        """Position accounting of the scanner: an iteration advances the index by one; when a malformed escape is flushed
        as '%25' (only the '%' is consumed) the index is moved back to the byte after the '%', i.e. by len(window) - 1."""
        from .unquoters import lin
        ctx, r = self.ctx, self.r
        rule = "EM-PYQ-REWIND"
        ctx.rule(rule, floor=3, what="scanner position accounting: +1 per iteration, back to the byte after '%' when a malformed escape is flushed")
        if not self.idx_name:
            raise AnalysisError(f"{self.QUAL}: scan index not identified")
        groups = {}
        for lid in self.loops:
            phi = ("phi", lid, self.idx_name)
            for s in r.backedges.get(lid, []):
                base, off = lin(s.env.get(self.idx_name, phi))
                win = s.env.get(self.win) if self.win else None
                acc = s.env.get(self.acc)
                flushed = acc is not None and acc[0] == "mut" and acc[2] == "extend" and len(acc[3]) == 1 and \
                    self._folded(acc[3][0]) == b"%25" and win is not None and win[0] == "mut" and win[2] == "clear"
                want = 1
                why = "advance by one"
                if flushed:
                    w0 = win[1]
                    n = None
                    for k, v in s.facts.items():
                        if v and k[0] == "cmp" and k[1] == "Eq" and k[2] == ("call", ("builtin", "len"), (w0,), ()) and k[3][0] == "const":
                            n = k[3][1]
                    if n is None:
                        # not tested on this path: the lengths the window can have here, from its own life cycle
                        # (emptied by clear(), grown by one per append) and the tests that were made
                        poss = self._window_lengths(lid, s, w0)
                        if poss is not None and len(poss) == 1:
                            n = next(iter(poss))
                    if n is None:
                        groups.setdefault("flush without a known window length", []).append(False)
                        continue
                    want = 1 - (n - 1)
                    why = f"window of {n} flushed as %25: back to the byte after '%'"
                ok = base == phi and off == want
                groups.setdefault(why, []).append(ok)
        for why, oks in groups.items():
            ctx.instance(rule)
            ctx.ob(rule, self.QUAL, why, all(oks),
                   "the scan index is not where the consumed/emitted bytes say it should be: input bytes would be skipped or "
                   "scanned twice", where(self.fi, self.fi.node), sample=f"{len(oks)} iteration path(s)")

    # -- the escape window's length, as a small set ------------------------------------------------------------------
    def _len_of(self, t, head_len):
        """Length of a window term when the window holds head_len bytes at the loop head; None = unknown operation."""
        if t[0] == "phi":
            return head_len
        if t[0] == "mut":
            b = self._len_of(t[1], head_len)
            if b is None:
                return None
            if t[2] == "append":
                return b + 1
            if t[2] == "clear":
                return 0
        return None

    def _consistent_len(self, state, head_len):
        """Do the path's tests on window terms (truthiness, len(w) == c) agree with this head length?"""
        for k, v in state.facts.items():
            t = None
            if self.win_root(k):
                n = self._len_of(k, head_len)
                if n is not None and (n > 0) != v:
                    return False
            elif k[0] == "cmp" and k[1] == "Eq" and is_call_to(k[2], "len") and k[3][0] == "const" and self.win_root(k[2][2][0]):
                n = self._len_of(k[2][2][0], head_len)
                if n is not None and (n == k[3][1]) != v:
                    return False
        return True

    def _head_lengths(self, lid):
        """Least fixpoint of the window length at the loop head (starts empty; every iteration transforms it)."""
        cache = self.__dict__.setdefault("_hl", {})
        if lid in cache:
            return cache[lid]
        L = {0}
        for _ in range(8):
            new = set(L)
            for s in self.r.backedges.get(lid, []):
                w = s.env.get(self.win)
                if w is None:
                    continue
                for h in L:
                    if self._consistent_len(s, h):
                        n = self._len_of(w, h)
                        if n is None:
                            cache[lid] = None
                            return None
                        new.add(n)
            if new == L:
                break
            L = new
            if len(L) > 6:
                cache[lid] = None
                return None
        cache[lid] = L
        return L

    def _window_lengths(self, lid, state, w):
        heads = self._head_lengths(lid)
        if heads is None:
            return None
        out = set()
        for h in heads:
            if self._consistent_len(state, h):
                n = self._len_of(w, h)
                if n is None:
                    return None
                out.add(n)
        return out

    def _returns(self):
        ctx, r = self.ctx, self.r
        rule = "EM-PYQ-RETURN"
        ctx.rule(rule, floor=3, what="return values: None for None, '' for '', the input only when equal to the output, "
                                     "else the ASCII-decoded output buffer")
        for s, v, node in r.returns:
            ctx.instance(rule)
            w = where(self.fi, node)
            if v == NONE:
                ok = s.facts.get(("cmp", "Is", ("param", "val"), NONE)) is True
                ctx.ob(rule, self.QUAL, "return None", ok, "None returned for a non-None argument", w, sample="val is None")
            elif v == ("const", ""):
                ok = s.facts.get(("param", "val")) is False
                ctx.ob(rule, self.QUAL, "return ''", ok, "'' returned for a non-empty argument", w, sample="not val")
            elif v == ("param", "val"):
                ok = any(k[0] == "cmp" and k[1] == "Eq" and fv and ("param", "val") in (k[2], k[3]) and
                         any(self._is_decoded_acc(x) for x in (k[2], k[3])) for k, fv in s.facts.items())
                if not ok:
                    # ... or a pattern stored by the constructor matched the whole argument (an "all characters are literal"
                    # fast path): judged per configuration by fast_paths(), once the literal sets are known
                    cands = [k for k, fv in s.facts.items() if fv is True and self._pattern_test(k)]
                    if cands:
                        self.fast_returns.append((node, cands))
                        continue
                ctx.ob(rule, self.QUAL, "return val", ok, "the argument is returned unchanged without comparing it with "
                       "the quoted output", w, sample="decoded output == val")
            else:
                ok = self._is_decoded_acc(v) and v[2] and v[2][0] == ("const", "ascii")
                ctx.ob(rule, self.QUAL, f"return {show(v)}", ok, "result is not the ASCII-decoded output buffer", w,
                       sample="acc.decode('ascii')")

    # -- pattern-justified identity returns --------------------------------------------------------
    _MATCHERS = ("match", "fullmatch", "search")

    def _pattern_test(self, k):
        """`self.X(val)` / `self.X.fullmatch(val)`: a pattern object (or bound matcher) kept by the constructor, applied to the argument."""
        if k[0] != "call" or k[2] != (("param", "val"),) or k[3]:
            return False
        f = k[1]
        me = ("param", "self")
        return (f[0] == "attr" and f[1] == me) or (f[0] == "attr" and f[2] in self._MATCHERS and f[1][0] == "attr" and f[1][1] == me)

    def fast_paths(self, cfgs, policies):
        """EM-PYQ-RETURN for identity returns under `<stored pattern> matched the argument`: for every configuration in use the
        pattern, folded from the constructor, must be one character class repeated over the WHOLE text (`fullmatch`, or `match`
        closed by \\Z - `$` also matches before a final newline) and the class must lie inside the characters this configuration
        copies literally ('%' and, under qs, ' ' never are)."""
        import re._parser as sre
        import re._constants as sc
        ctx = self.ctx
        rule = "EM-PYQ-RETURN"
        if not self.fast_returns:
            return
        init = self.model.func("_quoting_py._Quoter.__init__")
        try:
            ri = analyze(self.model, init, merge=False)
        except AnalysisError:
            ri = analyze(self.model, init)
        me = ("param", "self")
        for node, cands in self.fast_returns:
            problems = []
            judged = 0
            for name, (cls, cfg) in sorted(cfgs.items()):
                if cls != "_Quoter":
                    continue
                pl = {("param", p): v for p, v in cfg.items()}
                fold = Folder(self.model, pl)
                ok_cfg = False
                for k in cands:
                    f_ = k[1]
                    attr, how = (f_[2], None) if f_[1] == me else (f_[1][2], f_[2])
                    # what the constructor stored under that attribute on the path this configuration takes
                    stored = None
                    for st in list(ri.falls) + [s_ for s_, _v, _n in ri.returns]:
                        try:
                            if not all(bool(fold.fold(q)) == v for q, v in st.facts.items()):
                                continue
                        except CannotFold:
                            continue
                        stored = st.heap.get((me, attr))
                    if stored is None:
                        raise AnalysisError(f"{self.QUAL}: self.{attr} is tested but the constructor does not store it (unknown idiom)")
                    if stored[0] == "attr" and stored[2] in self._MATCHERS:
                        how, stored = stored[2], stored[1]
                    if not (stored[0] == "call" and stored[1][-1] == "compile" and stored[2]) or how is None:
                        raise AnalysisError(f"{self.QUAL}: self.{attr} = {show(stored)[:50]} is not a compiled pattern / bound matcher (unknown idiom)")
                    pat = need(lambda: fold.fold(stored[2][0]), f"pattern of self.{attr} for {name}")
                    if isinstance(pat, bytes) or not isinstance(pat, str):
                        raise AnalysisError(f"{self.QUAL}: pattern of self.{attr} is not text (unknown idiom)")
                    try:
                        items = list(sre.parse(pat))
                    except Exception as ex:
                        raise AnalysisError(f"{self.QUAL}: pattern {pat!r} does not parse: {ex}")
                    closed = how == "fullmatch"
                    if items and items[-1][0] == sc.AT:
                        at = items.pop()[1]
                        if at == sc.AT_END_STRING:
                            closed = closed or how == "match"
                        elif at == sc.AT_END and how != "fullmatch":
                            problems.append(f"{name}: `{how}` with `$` also matches before a final newline - 'text\\n' takes the shortcut "
                                            "and is returned with its raw line feed")
                            continue
                    if items and items[0][0] == sc.AT and items[0][1] in (sc.AT_BEGINNING, sc.AT_BEGINNING_STRING):
                        items.pop(0)
                    elif how == "search":
                        closed = False
                    if not closed:
                        problems.append(f"{name}: the pattern is not anchored at the end of the text ({how}, {pat[-12:]!r})")
                        continue
                    if not (len(items) == 1 and items[0][0] in (sc.MAX_REPEAT, sc.MIN_REPEAT) and len(items[0][1][2]) == 1 and
                            items[0][1][2][0][0] in (sc.IN, sc.LITERAL)):
                        raise AnalysisError(f"{self.QUAL}: pattern {pat!r} is not one repeated character class (unknown idiom)")
                    body = items[0][1][2][0]
                    chars = set()
                    members = [body] if body[0] == sc.LITERAL else body[1]
                    for op, arg in members:
                        if op == sc.LITERAL:
                            chars.add(chr(arg))
                        elif op == sc.RANGE:
                            chars.update(chr(c) for c in range(arg[0], arg[1] + 1))
                        else:
                            raise AnalysisError(f"{self.QUAL}: character class member {op} in {pat!r} (unknown idiom)")
                    lit = set(policies[name]["literal"])
                    extra = sorted(chars - lit)
                    if extra:
                        problems.append(f"{name}: the class lets {''.join(extra)!r} through although this configuration does not copy "
                                        "them literally")
                        continue
                    ok_cfg = True
                judged += 1
            ctx.instance(rule)
            ctx.ob(rule, self.QUAL, "return val (pattern fast path)", not problems,
                   "the argument is returned unchanged when a stored pattern matches, but that does not mean every character is one "
                   "the quoter would copy: " + "; ".join(problems[:3]), where(self.fi, node),
                   sample=f"whole-text match of a class inside the literal set, for {judged} configuration(s)")

    def _is_decoded_acc(self, v):
        if v[0] == "call" and v[1][0] == "attr" and v[1][2] == "decode":
            b = v[1][1]
            while b[0] == "mut":
                b = b[1]
            return b[0] == "phi" and b[2] == self.acc
        return False

    # -- derived policy --------------------------------------------------------------------------
    def policy(self, cfg):
        """-> dict(literal=set(str), decodable=set(str), plus=bool, escapes=bool) for a configuration."""
        leaves = cfg_leaves(cfg, self.attr_map)
        leaves.update(derived_attr_leaves(self.model, "_quoting_py._Quoter.__init__", cfg))
        fold = Folder(self.model, leaves)

        def chars(t):
            v = need(lambda: fold.fold(t), f"set term {show(t)} for configuration {cfg}")
            if isinstance(v, (bytes, bytearray)):
                return frozenset(chr(b) for b in v)
            if isinstance(v, str):
                return frozenset(v)
            raise AnalysisError(f"{self.QUAL}: {show(t)} folds to {type(v).__name__}, not a character set")

        lit, dec, plus, esc = None, None, False, False
        window_active = any(consistent(e.state, cfg, self.attr_map) for e in self.win_starts)
        for site in self.sites:
            st = site["event"].state
            if not consistent(st, cfg, self.attr_map):
                continue
            if site["cls"] in ("DEC", "REEMIT") and not window_active:
                continue   # the escape window is never started under this configuration
            if site["cls"] == "RAW":
                sets = [chars(s) for s in site["sets"]]
                if sets:
                    cur = frozenset.intersection(*sets)
                    lit = cur if lit is None else (lit | cur)
            elif site["cls"] == "DEC":
                pos = [chars(s) for s in site["pos"]]
                neg = [chars(s) for s in site["neg"]]
                if pos:
                    cur = frozenset.intersection(*pos) - (frozenset.union(*neg) if neg else frozenset())
                    dec = cur if dec is None else (dec | cur)
                esc = True
            elif site["cls"] == "CONST" and site["value"] == b"+":
                plus = True
            elif site["cls"] == "REEMIT":
                esc = True
        return {"literal": lit or frozenset(), "decodable": dec or frozenset(), "plus": plus, "escapes": esc}


def is_empty_buffer(v):
    return isinstance(v, ast.Call) and isinstance(v.func, ast.Name) and v.func.id in ("bytearray", "list") and not v.args \
        or isinstance(v, ast.List) and not v.elts


def regex_two_classes(pat):
    """('regex', pattern, flags) -> [set(byte), set(byte)] when the pattern is exactly two one-character classes."""
    import re._parser as sp  # stdlib regex parser: gives the regex AST without compiling repository code
    if not (isinstance(pat, tuple) and pat and pat[0] == "regex"):
        return None
    p = pat[1]
    try:
        parsed = sp.parse(p, pat[2])
    except Exception:
        return None
    items = list(parsed)
    if len(items) != 2:
        return None
    out = []
    for op, av in items:
        s = set()
        if str(op) == "IN":
            for o2, a2 in av:
                if str(o2) == "RANGE":
                    s.update(range(a2[0], a2[1] + 1))
                elif str(o2) == "LITERAL":
                    s.add(a2)
                else:
                    return None
        elif str(op) == "LITERAL":
            s.add(av)
        else:
            return None
        out.append(s)
    return out
