"""EM-CQ, CH1/CH2 and the bit-table derivation for yarl/_quoting_c.pyx (lowered by sa.pyx).

The compiled quoter is held to the same emission contract as the pure-Python one; its per-configuration
policy is derived from the guards at its emission sites and from the folded bit tables.
"""
from __future__ import annotations

import ast

from ..fold import CannotFold, Folder, module_analyzer, need
from ..interp import order_facts, Analyzer, State, analyze, truth
from ..model import AnalysisError, FuncInfo, Model
from ..report import Ctx, where
from ..terms import NONE, show, walk
from .quoters import consistent, self_attr_params

MOD = "_quoting_c"
WRITERS = ("_write_char", "_write_pct", "_write_utf8", "_write")


def callee_name(t):
    """Name of the callee of a call term: global/ext function or self.method."""
    if t[0] != "call":
        return None
    f = t[1]
    if f[0] in ("global", "ext", "builtin"):
        return f[-1]
    if f[0] == "attr":
        return f[2]
    return None


def module_result(model: Model, module: str):
    mi = model.module(module)
    fi = FuncInfo(module, None, "<module>", ast.FunctionDef(
        name="<module>", args=ast.arguments(posonlyargs=[], args=[], vararg=None, kwonlyargs=[], kw_defaults=[],
                                            kwarg=None, defaults=[]),
        body=[s for s in mi.tree.body if not isinstance(s, (ast.FunctionDef, ast.ClassDef))],
        decorator_list=[], returns=None, type_params=[]), backend=mi.backend)
    return Analyzer(model, fi).run()


class ArrayFolder(Folder):
    """Folder that also reads the module-level C arrays of the .pyx (as folded by Tables._module_arrays)."""

    def __init__(self, model, leaves, arrays):
        super().__init__(model, leaves)
        self.arrays = arrays

    def fold(self, t):
        # C semantics: a character literal compared / combined with an integer is its code
        if t[0] in ("cmp", "binop") and len(t) == 4:
            a, b = super().fold(t[2]) if t[2] not in self.leaves else self.leaves[t[2]], None
            b = super().fold(t[3]) if t[3] not in self.leaves else self.leaves[t[3]]
            if isinstance(a, str) and len(a) == 1 and isinstance(b, int):
                a = ord(a)
            elif isinstance(b, str) and len(b) == 1 and isinstance(a, int):
                b = ord(b)
            else:
                return super().fold(t)
            sub = type(self).__new__(type(self))
            sub.__dict__.update(self.__dict__)
            sub.leaves = {**self.leaves, ("const", "__a__"): a, ("const", "__b__"): b}
            return Folder.fold(sub, (t[0], t[1], ("const", "__a__"), ("const", "__b__")))
        return super().fold(t)

    def f_sub(self, t):
        base = t[1]
        if base[0] == "global" and base[2] in self.arrays and t[2][0] != "slice":
            default, cells = self.arrays[base[2]]
            i = self.fold(t[2])
            if i in cells:
                return cells[i]
            if default is None:
                raise CannotFold(f"{base[2]}[{i}] is never initialised")
            return default
        return super().f_sub(t)


class InlineFolder(ArrayFolder):
    """ArrayFolder that also evaluates calls of the small pure helpers of the .pyx by folding the callee's own return
    paths under the argument values (partial evaluation over constants; nothing is executed)."""

    def f_call(self, t):
        f = t[1]
        if f[0] == "global" and f[1] == MOD and self.model.has_func(f"{MOD}.{f[2]}"):
            callee = self.model.func(f"{MOD}.{f[2]}")
            args = [self.fold(a) for a in t[2]]
            leaves = {("param", p): a for p, a in zip(callee.params, args)}
            vals = set()
            for s_, v, _n in analyze(self.model, callee, merge=False).returns:
                fo = InlineFolder(self.model, leaves, self.arrays)
                if all(bool(fo.fold(k)) == fv for k, fv in s_.facts.items()):
                    vals.add(fo.fold(v))
            if len(vals) != 1:
                raise CannotFold(f"{f[2]}{tuple(args)} has {len(vals)} feasible results")
            return vals.pop()
        return super().f_call(t)


class Tables:
    """Bit tables of the .pyx: module-level tables folded from the initialiser loop, instance tables
    per configuration from _Quoter.__init__."""

    def __init__(self, model: Model):
        self.model = model
        self.module_tables = self._module_tables()
        self.attr_map = self_attr_params(model, f"{MOD}._Quoter.__init__")
        self.init = analyze(model, model.func(f"{MOD}._Quoter.__init__"))

    def _module_arrays(self, r):
        """Module-level C arrays filled by memset + loops of item stores: name -> (default, {index: value}); folded by
        enumerating the loop domains (nothing is executed)."""
        fold = Folder(self.model)
        arrays = {}
        for e in r.events:
            if e.kind == "call" and callee_name(e.value) == "memset" and e.args and e.args[0][0] == "global":
                try:
                    arrays[e.args[0][2]] = (fold.fold(e.args[1]), {})
                except CannotFold:
                    pass
            elif e.kind == "store_sub":
                base = e.base
                while base[0] == "mut":
                    base = base[1]
                if base[0] == "phi":        # the array name inside an initialiser loop
                    base = ("global", MOD, base[2])
                if base[0] != "global":
                    continue
                default, cells = arrays.setdefault(base[2], (None, {}))
                elems = sorted({t for x in (e.index, e.value) for t in walk(x) if t[0] == "elem"}, key=show)
                if len(elems) > 1:
                    raise AnalysisError(f"{MOD}: module-level store into {base[2]} depends on several loop variables")
                doms = [need(lambda: fold.fold(elems[0][1]), f"domain of the initialiser of {base[2]}")] if elems else [[None]]
                for c in doms[0]:
                    f2 = Folder(self.model, {elems[0]: c} if elems else {})
                    try:
                        if all(bool(f2.fold(k)) == v for k, v in e.state.facts.items() if elems and any(t == elems[0] for t in walk(k))):
                            cells[f2.fold(e.index)] = f2.fold(e.value)
                    except CannotFold as ex:
                        raise AnalysisError(f"{MOD}: initialiser of {base[2]} cannot be folded: {ex}")
        return arrays

    def _module_tables(self):
        r = module_result(self.model, MOD)
        tabs = {}
        fold = Folder(self.model)
        self.module_arrays = self._module_arrays(r)
        for e in r.by_kind("call"):
            name = callee_name(e.value)
            if name == "memset" and e.args and e.args[0][0] == "global":
                if e.args[1] != ("const", 0):
                    continue        # not a bit table: a value array, folded in module_arrays
                tabs[e.args[0][2]] = set()
            elif name == "set_bit" and e.args and e.args[0][0] == "global":
                tname, idx = e.args[0][2], e.args[1]
                if idx[0] != "elem":
                    raise AnalysisError(f"{MOD}: module-level set_bit with a non-loop index {show(idx)}")
                dom = need(lambda: fold.fold(idx[1]), f"domain of the table initialiser {show(idx[1])}")
                members = set()
                conds = [(k, v) for k, v in e.state.facts.items() if any(t == idx for t in walk(k))]
                for c in dom:
                    f2 = Folder(self.model, {idx: c})
                    try:
                        if all(bool(f2.fold(k)) == v for k, v in conds):
                            members.add(c)
                    except CannotFold as ex:
                        raise AnalysisError(f"{MOD}: table initialiser condition cannot be folded: {ex}")
                tabs.setdefault(tname, set()).update(members)
        return {k: frozenset(chr(c) for c in v) for k, v in tabs.items()}

    def instance_tables(self, cfg):
        tabs = {}
        for e in self.init.by_kind("call"):
            if not (consistent(e.state, cfg, self.attr_map) and self._stored_consistent(e.state, cfg)):
                continue
            name = callee_name(e.value)
            if name not in ("memcpy", "memset", "set_bit"):
                continue
            dst = e.args[0]
            if not (dst[0] == "attr" and dst[1] == ("param", "self")):
                continue
            if name == "memcpy":
                src = e.args[1]
                # &TABLE[0] and TABLE are the same address
                if src[0] == "call" and callee_name(src) == "__addr__" and len(src[2]) == 1 and src[2][0][0] == "sub" \
                        and src[2][0][2] == ("const", 0):
                    src = src[2][0][1]
                if src[0] != "global" or src[2] not in self.module_tables:
                    raise AnalysisError(f"{MOD}._Quoter.__init__: memcpy from {show(src)}, not a folded module table")
                tabs[dst[2]] = set(self.module_tables[src[2]])
            elif name == "memset":
                tabs[dst[2]] = set()
            else:
                x = e.args[1]
                if x[0] == "elem" and x[1][0] == "param" and x[1][1] in cfg:
                    tabs.setdefault(dst[2], set()).update(cfg[x[1][1]])
                else:
                    raise AnalysisError(f"{MOD}._Quoter.__init__: set_bit({show(dst)}, {show(x)}) is not over a constructor string")
        return {k: frozenset(v) for k, v in tabs.items()}

    def _stored_consistent(self, state, cfg):
        # inside __init__ the facts are about the heap value of self._qs, i.e. the parameter itself
        for k, v in state.facts.items():
            if k[0] == "param" and k[1] in cfg and bool(cfg[k[1]]) != v:
                return False
        return True


def interval(facts, x, lo, hi):
    """Interval of the integer term x implied by the comparison facts with constants (no arithmetic beyond that)."""
    for k, v in facts.items():
        if k[0] != "cmp" or k[1] not in ("Lt", "LtE"):
            continue
        op, a, b = k[1], k[2], k[3]
        if a == x and b[0] == "const" and isinstance(b[1], int):
            c = b[1]
            if op == "Lt":
                hi, lo = (min(hi, c - 1), lo) if v else (hi, max(lo, c))
            else:
                hi, lo = (min(hi, c), lo) if v else (hi, max(lo, c + 1))
        elif b == x and a[0] == "const" and isinstance(a[1], int):
            c = a[1]
            if op == "Lt":
                lo, hi = (max(lo, c + 1), hi) if v else (lo, min(hi, c))
            else:
                lo, hi = (max(lo, c), hi) if v else (lo, min(hi, c - 1))
    return lo, hi


class CQuoter:
    QUALS = [f"{MOD}._Quoter._do_quote", f"{MOD}._Quoter._write", f"{MOD}._write_utf8", f"{MOD}._write_pct",
             f"{MOD}._Quoter._do_quote_or_skip", f"{MOD}._Quoter.__call__"]

    def __init__(self, ctx: Ctx, model: Model):
        self.ctx, self.model = ctx, model
        model.load_pyx()
        self.tables = Tables(model)
        self.attr_map = self.tables.attr_map
        tr = lambda kind, t: (kind == "call" and callee_name(t) in WRITERS) or (kind == "store_attr" and t[2] == "changed")
        self.res = {q: analyze(model, model.func(q), trace=tr, trace_key="writers") for q in self.QUALS}
        ctx.functions.update(self.QUALS + [f"{MOD}._Quoter.__init__", f"{MOD}.<module>"])
        self.sites = []

    # ------------------------------------------------------------------
    def audit(self, ch2=True):
        self._do_quote()
        self._write()
        self._write_utf8_and_pct()
        if ch2:
            self._ch2()
        self._skip()
        self._hex_decode()
        self._utf8_bytes()
        self._utf8_surrogates()
        self._advance()
        self._writer_contract()
        from .unquoters import read_bounds
        for q in (f"{MOD}._Quoter._do_quote", f"{MOD}._Quoter._do_quote_or_skip"):
            read_bounds(self.ctx, self.model, self.model.func(q), self.res[q])

    def _writer_contract(self):
        """EM-CQ-WRITER: the audits above read `_write_char(writer, ch, changed)` as "stores ch and records `changed`". Here the
        primitive itself is held to that: every success return (a non-negative constant) has stored the `ch` argument through the
        writer's buffer and has accumulated the `changed` argument into writer.changed - on every path, the buffer-growth branch
        included. A path that forgets the flag lets the quoter return its input although a byte written at a growth boundary
        differs from it."""
        ctx = self.ctx
        rule = "EM-CQ-WRITER"
        ctx.rule(rule, floor=1, what="every success path of the byte writer stores the unit and accumulates the changed flag")
        q = f"{MOD}._write_char"
        fi = self.model.func(q)
        tr = lambda kind, t: kind in ("store_attr", "store_sub")
        r = analyze(self.model, fi, trace=tr, trace_key="writer-contract", merge=False)
        params = fi.params
        if len(params) != 3:
            raise AnalysisError("_write_char does not take (writer, unit, changed) (unknown idiom)")
        W, CH, CHG = (("param", p) for p in params)
        groups = {}
        for s, v, node in r.returns:
            if not (v[0] == "const" and isinstance(v[1], int) and not isinstance(v[1], bool) and v[1] >= 0):
                continue
            stored = any(t[0] == "store" and t[1][0] == "sub" and any(x == CH for x in walk(t[2])) for t in s.trace)
            hv = s.heap.get((W, "changed"))
            flag = truth(CHG, s.facts)
            # old flag OR argument (`|=`, `or`), or nothing to record (argument false), or set outright under a true argument
            acc = (hv is not None and any(x == CHG for x in walk(hv)) and any(x == ("attr", W, "changed") for x in walk(hv))) or \
                flag is False or (flag is True and hv is not None and hv[0] == "const" and bool(hv[1]))
            groups.setdefault(id(node), [node, [], []])
            groups[id(node)][1].append(stored)
            groups[id(node)][2].append(acc)
        if not groups:
            raise AnalysisError("_write_char has no success return (anchor vanished)")
        for node, stored, acc in groups.values():
            ctx.instance(rule)
            ctx.ob(rule, q, "success return: unit stored", all(stored),
                   "a success path of the byte writer has not stored its unit through the buffer: a character is missing from the output",
                   where(fi, node), sample="writer.buf[writer.pos] = ch on the path")
            ctx.instance(rule)
            ctx.ob(rule, q, "success return: changed accumulated", all(acc),
                   "a success path of the byte writer does not fold its `changed` argument into writer.changed: when that write is "
                   "the only difference from the input (a space written as '+', a decoded escape) the quoter returns the input "
                   "unchanged - only at the positions where this path is taken (the 8 KiB growth boundaries)",
                   where(fi, node), sample="writer.changed |= changed on the path")

    def _unit_do_quote(self, r):
        # PyUnicode_READ(kind, data, <idx phi>)
        def is_unit(t):
            return callee_name(t) == "PyUnicode_READ" and len(t[2]) == 3 and t[2][2][0] == "phi"
        return is_unit

    def _do_quote(self):
        ctx = self.ctx
        q = f"{MOD}._Quoter._do_quote"
        fi, r = self.model.func(q), self.res[q]
        rule = "EM-CQ"
        ctx.rule(rule, floor=6, what="every write of the compiled quoter is a guarded literal, a validated escape "
                                     "re-emitted through the %XX writer, or a byte escape")
        is_unit = self._unit_do_quote(r)
        for e in r.by_kind("call"):
            name = callee_name(e.value)
            if name not in WRITERS:
                continue
            ctx.instance(rule)
            w = where(fi, e.node)
            cons = show(e.value)
            x = e.args[1] if len(e.args) > 1 else None
            st = e.state
            if name == "_write":
                ok = is_unit(x) or (x == ("const", "%") and any(
                    k[0] == "cmp" and k[1] == "Eq" and is_unit(k[2]) and k[3] == ("const", "%") and v for k, v in st.facts.items()))
                ctx.ob(rule, q, cons, ok, "the generic writer receives something other than the current input unit", w,
                       sample="argument is the current unit (or '%' when the unit is '%')")
                self.sites.append(dict(cls="UNIT", event=e, func=q))
                continue
            if callee_name(x) != "_restore_ch":
                ctx.ob(rule, q, cons, False, "write of a value that is neither the current unit nor a restored escape", w)
                continue
            valid = st.facts.get(("cmp", "Eq", x, ("const", -1))) is False
            # the two digits are the two units after '%'
            d1, d2 = x[2]
            digits_ok = callee_name(d1) == "PyUnicode_READ" and callee_name(d2) == "PyUnicode_READ" and \
                d2[2][2] == ("binop", "Add", d1[2][2], ("const", 1))
            look = any(op == "LtE" and a == d1[2][2] for op, a, _b in order_facts(st.facts))
            if not look:
                # the same bound in another spelling (`pos + 2 <= length`): both digits lie inside the string
                from .unquoters import _is_length, lin
                b1, c1 = lin(d1[2][2])
                for op, a, b in order_facts(st.facts):
                    (ba, ka), (bb, kb) = lin(a), lin(b)
                    if ba == b1 and _is_length(bb) and ka - kb + (1 if op == "Lt" else 0) >= c1 + 2:
                        look = True
            if name == "_write_pct":
                ctx.ob(rule, q, cons, valid and digits_ok and look,
                       "escape re-emitted without validation of both hex digits / look-ahead bound", w,
                       sample="restored value != -1, digits are the next two units, look-ahead bound holds")
                self.sites.append(dict(cls="REEMIT", event=e, func=q))
            elif name == "_write_char":
                pos = [k[2][0] for k, v in st.facts.items() if v and callee_name(k) == "bit_at" and k[2][1] == x]
                neg = [k[2][0] for k, v in st.facts.items() if not v and callee_name(k) == "bit_at" and k[2][1] == x]
                lt128 = truth(("cmp", "Lt", x, ("const", 128)), st.facts) is True
                changed = e.args[2] == ("const", True)
                ctx.ob(rule, q, cons, valid and digits_ok and look and lt128 and bool(pos) and bool(neg) and changed,
                       "escape decoded without the guards `< 128`, `in safe table`, `not in protected table` on a validated "
                       f"escape (in: {[show(t) for t in pos]}, not in: {[show(t) for t in neg]}, <128: {lt128}, changed flag: {changed})", w,
                       sample=f"in {[show(t) for t in pos]}, not in {[show(t) for t in neg]}, < 128")
                self.sites.append(dict(cls="DEC", event=e, func=q, pos=pos, neg=neg))
            else:
                ctx.ob(rule, q, cons, False, "unexpected writer for a restored escape", w)
        # CH1 for re-emitted escapes: changed flag must be set when a digit is lower-case (output differs from input)
        rule2 = "CH1"
        ctx.rule(rule2, floor=2, what="a write with changed=False is the identity copy of the current input unit")
        tested = {}
        for site in self.sites:
            e = site["event"]
            if site["cls"] == "REEMIT":
                ch = e.args[2]
                if ch == ("const", True):
                    tested.setdefault(id(e.node), [e, None])
                    continue
                digits = set(e.args[1][2]) if callee_name(e.args[1]) == "_restore_ch" else set()
                seen_d = {k[2][0] for k in list(e.state.facts) + [ch] if callee_name(k) == "_is_lower_hex" and k[2]}
                # the index terms are compared after linearisation (idx - 2 after idx += 2 is the first digit)
                from .unquoters import lin
                norm = lambda t: (callee_name(t), lin(t[2][2])) if callee_name(t) == "PyUnicode_READ" else t
                ent = tested.setdefault(id(e.node), [e, set()])
                if ent[1] is not None:
                    ent[1] |= {norm(d) for d in seen_d} & {norm(d) for d in digits}
                    ent.append({norm(d) for d in digits})
        for e, seen_d, *digit_sets in tested.values():
            ctx.instance(rule2)
            if seen_d is None:
                ctx.ob(rule2, f"{MOD}._Quoter._do_quote", show(e.value), True, where=where(fi, e.node), sample="changed=True")
                continue
            want = digit_sets[0] if digit_sets else set()
            ctx.ob(rule2, f"{MOD}._Quoter._do_quote", show(e.value)[:100], bool(want) and seen_d >= want,
                   "an escape is re-emitted upper-case but the `changed` flag does not depend on the case of BOTH of its hex "
                   "digits: an escape whose untested digit is lower-case leaves the flag clear and the input is returned unchanged",
                   where(fi, e.node), sample="changed = lower(d1) or lower(d2)")
        # ... and the case test itself answers yes for every lower-case hex digit
        ql = f"{MOD}._is_lower_hex"
        if any(callee_name(k) == "_is_lower_hex" for site in self.sites if site["cls"] == "REEMIT" and len(site["event"].args) > 2
               for k in walk(site["event"].args[2])) and self.model.has_func(ql):
            fl = self.model.func(ql)
            got = self.fold_function(ql, fl.params[0], [ord(c) for c in "abcdef"])
            missed = [c for c, v in zip("abcdef", got) if not v]
            ctx.instance(rule2)
            ctx.ob(rule2, ql, "lower-case test over a-f", not missed,
                   f"the lower-case test that sets the `changed` flag answers no for {missed}: an escape like '%{missed[0] if missed else 'a'}a' "
                   "is re-emitted upper-case without the flag and the input is returned unchanged", where(fl, fl.node),
                   sample="true for each of a-f")
        # result: ASCII-decoded buffer, or the input when nothing changed
        rule3 = "EM-CQ-RETURN"
        ctx.rule(rule3, floor=2)
        for s, v, node in r.returns:
            ctx.instance(rule3)
            if v == ("param", "val"):
                ok = s.facts.get(("attr", ("param", "writer"), "changed")) is False
                ctx.ob(rule3, q, "return val", ok, "input returned although the writer may have changed it", where(fi, node),
                       sample="not writer.changed")
            else:
                ok = callee_name(v) == "PyUnicode_DecodeASCII" and v[2][0] == ("attr", ("param", "writer"), "buf") \
                    and v[2][1] == ("attr", ("param", "writer"), "pos")
                ctx.ob(rule3, q, f"return {show(v)}", ok, "result is not the ASCII-decoded writer buffer [0:pos]", where(fi, node),
                       sample="PyUnicode_DecodeASCII(writer.buf, writer.pos)")
        # progress: every iteration writes
        rule4 = "EM-CQ-PROGRESS"
        ctx.rule(rule4, floor=1)
        for lid, states in r.backedges.items():
            for s in states:
                ctx.instance(rule4)
                ctx.ob(rule4, q, "loop iteration [" + "; ".join(sorted(show(k) + "=" + str(v) for k, v in s.facts.items()))[:300] + "]",
                       any(callee_name(t) in WRITERS for t in s.trace),
                       "an iteration of the scanning loop performs no write", where(fi, r.loops[lid]), sample="a writer call on the path")

    def _write(self):
        ctx = self.ctx
        q = f"{MOD}._Quoter._write"
        fi, r = self.model.func(q), self.res[q]
        rule = "EM-CQ"
        unit = ("param", "ch")
        for e in r.by_kind("call"):
            name = callee_name(e.value)
            if name not in WRITERS:
                continue
            ctx.instance(rule)
            w = where(fi, e.node)
            cons = show(e.value)
            x = e.args[1]
            st = e.state
            if name == "_write_char" and x == unit:
                tabs = [k[2][0] for k, v in st.facts.items() if v and callee_name(k) == "bit_at" and k[2][1] == unit]
                lt = truth(("cmp", "Lt", unit, ("const", 128)), st.facts) is True
                ident = e.args[2] == ("const", False)
                ctx.ob(rule, q, cons, bool(tabs) and lt, "input unit copied to the output without `< 128` and a safe-table test", w,
                       sample=f"ch < 128 and bit_at({[show(t) for t in tabs]}, ch)")
                self.sites.append(dict(cls="RAW", event=e, func=q, tabs=tabs))
            elif name == "_write_char" and x[0] == "const":
                ok = x == ("const", "+") and st.facts.get(("cmp", "Eq", unit, ("const", " "))) is True and \
                    any(k[0] == "attr" and self.attr_map.get(k[2]) == "qs" and v for k, v in st.facts.items()) and \
                    e.args[2] == ("const", True)
                ctx.ob(rule, q, cons, ok, "constant written for something other than '+' for a space under qs (changed=True)", w,
                       sample="qs set, unit == ' ', changed=True")
                self.sites.append(dict(cls="CONST", event=e, func=q, value=x[1]))
            elif name == "_write_utf8" and x == unit:
                ctx.ob(rule, q, cons, True, where=w, sample="unit handed to the UTF-8 %XX writer")
                self.sites.append(dict(cls="BYTE", event=e, func=q))
            else:
                ctx.ob(rule, q, cons, False, "unclassifiable write in the generic writer", w)

    def _write_utf8_and_pct(self):
        ctx = self.ctx
        rule = "EM-CQ"
        q = f"{MOD}._write_utf8"
        fi, r = self.model.func(q), self.res[q]
        for e in r.by_kind("call"):
            name = callee_name(e.value)
            if name not in WRITERS:
                continue
            ctx.instance(rule)
            ok = name == "_write_pct" and e.args[2] == ("const", True)
            ctx.ob(rule, q, show(e.value), ok, "the UTF-8 writer emits something other than %XX escapes flagged as changed",
                   where(fi, e.node), sample="_write_pct(.., True)")
        # _write_pct: '%' then two hex digits produced by the nibble table, upper-case (T13)
        q = f"{MOD}._write_pct"
        fi, r = self.model.func(q), self.res[q]
        seq = []
        for e in r.by_kind("call"):
            if callee_name(e.value) == "_write_char":
                ctx.instance(rule)
                if e.args[1] not in seq:
                    seq.append(e.args[1])
        hi = ("call", ("global", MOD, "_to_hex"), (("binop", "RShift", ("param", "ch"), ("const", 4)),), ())
        lo = ("call", ("global", MOD, "_to_hex"), (("binop", "BitAnd", ("param", "ch"), ("const", 15)),), ())
        ok = seq == [("const", "%"), hi, lo]
        ctx.ob(rule, q, "writes: " + ", ".join(show(x) for x in seq), ok,
               "_write_pct does not write '%', hex(high nibble), hex(low nibble) in this order", where(fi, fi.node),
               sample="'%', _to_hex(ch >> 4), _to_hex(ch & 15)")
        # nibble table folded over its 16 inputs
        rule13 = "T13"
        ctx.rule(rule13, floor=1, what="escape rendering is upper-case hex")
        ctx.instance(rule13)
        digits = self.fold_function(f"{MOD}._to_hex", "v", range(16))
        got = "".join(chr(d) if isinstance(d, int) else str(d) for d in digits)
        ctx.ob(rule13, f"{MOD}._to_hex", "nibble -> digit table", got == "0123456789ABCDEF",
               f"hex digit table is {got!r}, expected '0123456789ABCDEF'", where(self.model.func(f"{MOD}._to_hex"), self.model.func(f"{MOD}._to_hex").node),
               sample=got)

    def _hex_decode(self):
        """The compiled escape decoder accepts exactly the hex digits: _from_hex(c) is the digit's value for 0-9 A-F a-f and
        -1 for every other code point - also for code points above 255 whose low byte happens to be a digit's code (a
        table look-up behind a narrowing cast) - and _restore_ch(d1, d2) is 16*d1 + d2 or -1."""
        ctx = self.ctx
        rule = "T14"
        ctx.rule(rule, floor=2, what="the escape decoder of the compiled quoter accepts exactly [0-9A-Fa-f]")
        q = f"{MOD}._from_hex"
        fi = self.model.func(q)
        # every code point below 0x250, plus code points whose low byte (and whose low 16 bits) is a hex digit's code
        probe = list(range(0x250)) + [0x100 * k + c for k in (1, 2, 4, 0x10, 0xFF, 0x100, 0x1F6, 0x10FF) for c in b"09AFaf" if 0x100 * k + c <= 0x10FFFF] \
            + [0xFF10, 0xFF19, 0xFF21, 0xFF26, 0xFF41, 0xFF46, 0x10FFFF]
        got = self.fold_function(q, fi.params[0], probe)
        bad = []
        for c, v in zip(probe, got):
            want = int(chr(c), 16) if chr(c) in "0123456789abcdefABCDEF" else -1
            if v != want:
                bad.append(f"U+{c:04X} -> {v} (expected {want})")
        ctx.instance(rule)
        ctx.ob(rule, q, f"digit values over {len(probe)} probe code points", not bad,
               "the hex digit decoder accepts or mis-values: " + "; ".join(bad[:6]) + (" ..." if len(bad) > 6 else "") +
               " - an escape like '%\u01411' would be taken for %A1 and the input returned as it is", where(fi, fi.node),
               sample="value for 0-9A-Fa-f, -1 otherwise (including code points above 255)")
        # _restore_ch: both digits valid -> 16*d1 + d2, else -1
        q2 = f"{MOD}._restore_ch"
        f2 = self.model.func(q2)
        r2 = analyze(self.model, f2, merge=False)
        arrays = getattr(self.tables, "module_arrays", {})
        samples = [(ord(a), ord(b)) for a in "0 9 A F a f G g / : @ ` \u0141".split() for b in "0 9 a F G \u0430".split()]
        bad = []
        for d1, d2 in samples:
            leaves = {("param", f2.params[0]): d1, ("param", f2.params[1]): d2}
            vals = set()
            for s_, v, _n in r2.returns:
                fo = InlineFolder(self.model, leaves, arrays)
                try:
                    if all(bool(fo.fold(k)) == fv for k, fv in s_.facts.items()):
                        vals.add(fo.fold(v))
                except CannotFold as ex:
                    raise AnalysisError(f"{q2}: cannot fold for ({d1:#x}, {d2:#x}): {ex}")
            ok1, ok2 = chr(d1) in "0123456789abcdefABCDEF", chr(d2) in "0123456789abcdefABCDEF"
            want = int(chr(d1) + chr(d2), 16) if ok1 and ok2 else -1
            vals = {(-1 if v in (-1, 0xFFFFFFFF) else v) for v in vals}
            if vals != {want}:
                bad.append(f"({chr(d1)!r}, {chr(d2)!r}) -> {sorted(vals)} (expected {want})")
        ctx.instance(rule)
        ctx.ob(rule, q2, f"escape value over {len(samples)} digit pairs", not bad,
               "the escape decoder mis-values or accepts: " + "; ".join(bad[:6]), where(f2, f2.node),
               sample="16*d1 + d2 for two hex digits, -1 otherwise")

    def fold_function(self, qual, param, domain):
        """Table of a pure arithmetic helper over a tiny finite domain (partial evaluation of its paths)."""
        r = analyze(self.model, self.model.func(qual), merge=False)     # tiny helpers: every path kept apart
        out = []
        arrays = getattr(self.tables, "module_arrays", {}) if hasattr(self, "tables") else {}
        for c in domain:
            f = ArrayFolder(self.model, {("param", param): c}, arrays)
            vals = []
            for s, v, _ in r.returns:
                try:
                    if all(bool(f.fold(k)) == fv for k, fv in s.facts.items()):
                        vals.append(f.fold(v))
                except CannotFold as ex:
                    raise AnalysisError(f"{qual}: cannot fold for {param}={c}: {ex}")
            if len(set(vals)) != 1:
                raise AnalysisError(f"{qual}: {len(vals)} feasible return paths for {param}={c}")
            out.append(vals[0])
        return out

    def _ch2(self):
        """Every success return of a unit-consuming helper has written something or set writer.changed."""
        ctx = self.ctx
        rule = "CH2"
        ctx.rule(rule, floor=4, what="a consumed input unit is never dropped silently: success returns have written or flagged a change")
        for q in (f"{MOD}._write_utf8", f"{MOD}._Quoter._write"):
            fi, r = self.model.func(q), self.res[q]
            meta = getattr(fi.node, "_cy", {})
            units = [p for p, ty in meta.get("argtypes", {}).items() if "Py_UCS4" in ty]
            for s, v, node in r.returns:
                if v == ("const", -1):
                    continue
                ctx.instance(rule)
                rng = ""
                feasible = True
                for u in units:
                    lo, hi = interval(s.facts, ("param", u), 0, 0x10FFFF)
                    if lo > hi:
                        feasible = False
                    rng = f"{u} in [{lo:#x}, {hi:#x}]"
                if not feasible:
                    ctx.ob(rule, q, f"return {show(v)} [infeasible for a Py_UCS4]", True,
                           sample="path condition is empty over the Py_UCS4 range 0..0x10FFFF", nontrivial=False)
                    continue
                def flags_change(t):
                    # writer.changed = <true constant>, or `|=` with one (a store of False / 0 flags nothing)
                    if not (t[0] == "store" and t[1][0] == "attr" and t[1][2] == "changed"):
                        return False
                    val = t[2]
                    if val[0] == "binop" and val[1] == "BitOr":
                        return any(x[0] == "const" and bool(x[1]) for x in (val[2], val[3]))
                    return val[0] == "const" and bool(val[1])
                wrote = callee_name(v) in WRITERS or any(
                    (t[0] == "call" and callee_name(t) in WRITERS) or flags_change(t) for t in s.trace)
                ctx.ob(rule, q, f"success return without a write for {rng}" if not wrote else f"return {show(v)} for {rng}", wrote,
                       "the helper reports success for an input unit without writing anything or flagging a change: "
                       "the unit is dropped and the quoter may return its input unchanged", where(fi, node),
                       sample="write on the path")

    def _utf8_bytes(self):
        """The byte expressions of _write_utf8 are the UTF-8 encoding: for every feasible interval of the code point the
        number of %XX writes is the UTF-8 length and the folded byte expressions agree with the codec at both ends and
        in the middle of the interval (the expressions are bit-field extractions, monotone in between)."""
        ctx = self.ctx
        rule = "EM-UTF8"
        q = f"{MOD}._write_utf8"
        fi, r = self.model.func(q), self.res[q]
        ctx.rule(rule, floor=3, what="bytes written for a code point are its UTF-8 encoding")
        sym = ("param", fi.params[1])
        seen = set()
        for s, v, node in r.returns:
            if v == ("const", -1):
                continue
            lo, hi = interval(s.facts, sym, 0, 0x10FFFF)
            if lo > hi or (lo, hi) in seen:
                continue
            seen.add((lo, hi))
            writes = [t for t in s.trace if t[0] == "call" and callee_name(t) == "_write_pct"]
            if not writes:
                continue        # the drop branch: CH2 / DROP
            ctx.instance(rule)
            problems = []
            for c in sorted({lo, hi, (lo + hi) // 2}):
                try:
                    want = list(chr(c).encode("utf-8"))
                except UnicodeEncodeError:
                    continue
                f = Folder(self.model, {sym: c})
                try:
                    got = [f.fold(w[2][1]) & 0xFF for w in writes]
                except CannotFold as e:
                    raise AnalysisError(f"{q}: byte expression cannot be folded: {e}")
                if got != want:
                    problems.append(f"U+{c:04X}: writes {[hex(b) for b in got]}, UTF-8 is {[hex(b) for b in want]}")
            ctx.ob(rule, q, f"code points U+{lo:04X}..U+{hi:04X}", not problems, "; ".join(problems), where(fi, node),
                   sample=f"{len(writes)} byte(s), codec agrees at both ends and the middle")

    def _utf8_surrogates(self):
        """The branch of _write_utf8 that writes nothing is taken exactly for the surrogate code points (the Python quoter
        drops exactly those: `encode("utf8", errors="ignore")`): path conditions folded at both edges of the surrogate block."""
        ctx = self.ctx
        rule = "EM-UTF8-SURR"
        ctx.rule(rule, floor=1, what="nothing is written exactly for the surrogate code points (as the pure-Python quoter does)")
        q = f"{MOD}._write_utf8"
        fi = self.model.func(q)
        # every path kept apart: which branch a code point takes is a conjunction of range tests
        tr = lambda kind, t: (kind == "call" and callee_name(t) in WRITERS) or (kind == "store_attr" and t[2] == "changed")
        r = analyze(self.model, fi, trace=tr, trace_key="writers-unmerged", merge=False)
        sym = ("param", fi.params[1])
        problems = []
        first = None
        for c in (0x7FF, 0x800, 0xD7FF, 0xD800, 0xD801, 0xDBFF, 0xDC00, 0xDFFE, 0xDFFF, 0xE000, 0xFFFF, 0x10000, 0x10FFFF):
            f = Folder(self.model, {sym: c})
            taken = []
            for s, v, node in r.returns:
                if v == ("const", -1):
                    continue
                try:
                    if all(bool(f.fold(k)) == fv for k, fv in s.facts.items() if not any(callee_name(t) in WRITERS for t in walk(k))):
                        taken.append((s, node))
                except CannotFold as e:
                    raise AnalysisError(f"{q}: path condition cannot be folded for U+{c:04X}: {e}")
            if not taken:
                raise AnalysisError(f"{q}: no success path for U+{c:04X}")
            writes = {sum(1 for t in s.trace if t[0] == "call" and callee_name(t) == "_write_pct") for s, _n in taken}
            surrogate = 0xD800 <= c <= 0xDFFF
            if surrogate and writes != {0}:
                problems.append(f"U+{c:04X} is a surrogate but is written ({sorted(writes)} bytes): the Python quoter drops it")
                first = first or taken[0][1]
            if not surrogate and 0 in writes:
                problems.append(f"U+{c:04X} is not a surrogate but nothing is written for it")
                first = first or taken[0][1]
        ctx.instance(rule)
        written = [p_ for p_ in problems if "is a surrogate" in p_]
        dropped = [p_ for p_ in problems if "is not a surrogate" in p_]
        ctx.ob(rule, q, "surrogate block U+D800..U+DFFF", not written, "; ".join(written), where(fi, first or fi.node),
               sample="every surrogate is written as nothing")
        rule2 = "EM-UTF8-DROP"
        ctx.rule(rule2, floor=1, what="only surrogate code points are written as nothing")
        ctx.instance(rule2)
        ctx.ob(rule2, q, "code points next to the surrogate block", not dropped, "; ".join(dropped) +
               ": ordinary text (e.g. Hangul syllables just below U+D800) would vanish from the URL", where(fi, first or fi.node),
               sample="U+D7FF and U+E000 are written")

    def _advance(self):
        """Scanner position accounting of the compiled quoter: +1 per unit, +3 when a valid escape was consumed."""
        from .unquoters import lin
        ctx = self.ctx
        rule = "EM-CQ-ADVANCE"
        q = f"{MOD}._Quoter._do_quote"
        fi, r = self.model.func(q), self.res[q]
        ctx.rule(rule, floor=2, what="scanner position accounting: +1 per unit, +3 for a consumed escape")
        groups = {}
        for lid, states in r.backedges.items():
            for s in states:
                idxs = [n for n, t in s.env.items() if t[0] != "phi" and lin(t)[0] == ("phi", lid, n)]
                for n in idxs:
                    base, off = lin(s.env[n])
                    consumed = any((not v) and k[0] == "cmp" and k[1] == "Eq" and callee_name(k[2]) == "_restore_ch" and k[3] == ("const", -1)
                                   for k, v in s.facts.items())
                    want = 3 if consumed else 1
                    groups.setdefault("escape consumed" if consumed else "single unit", []).append(off == want)
        for why, oks in groups.items():
            ctx.instance(rule)
            ctx.ob(rule, q, why, all(oks), "the scan index does not advance by the number of units consumed", where(fi, fi.node),
                   sample=f"{len(oks)} iteration path(s)")

    def _skip(self):
        """Fast path: the input object is returned unscanned only when every unit is < 128 and in the safe table."""
        ctx = self.ctx
        rule = "CH1-SKIP"
        q = f"{MOD}._Quoter._do_quote_or_skip"
        fi, r = self.model.func(q), self.res[q]
        ctx.rule(rule, floor=1, what="identity fast path only when every unit is literal-safe")
        for s, v, node in r.returns:
            if v != ("param", "val"):
                continue
            ctx.instance(rule)
            flags = [k for k, fv in s.facts.items() if k[0] == "phi" and fv is False]
            ok = False
            why = "no flag"
            for fl in flags:
                srcs = r.phi_sources(fl)
                # the flag is raised exactly on the must-quote condition and the loop is left by break there
                raised = [e for e in r.by_kind("cond") if False]
                ok_src = all(x[0] == "const" for x in srcs)
                lid = fl[1]
                back = r.backedges.get(lid, [])
                safe_back = all(
                    any(callee_name(k) == "bit_at" and fv for k, fv in b.facts.items()) and
                    any(k[0] == "cmp" and k[1] == "LtE" and k[2] == ("const", 128) and fv is False for k, fv in b.facts.items())
                    for b in back if b.env.get(fl[2]) == fl)
                unflagged = [b for b in back if b.env.get(fl[2]) == fl]
                ok = ok_src and safe_back and bool(unflagged)
                why = f"flag sources {[show(x) for x in srcs]}, {len(unflagged)} unflagged iteration state(s) all under `< 128 and bit_at(safe)`"
                if ok:
                    ok, how = self._scan_covers(r, lid, unflagged)
                    why = how if not ok else why + "; " + how
            if not ok:
                # for-else / while-else idiom: the return sits in the `else` of a loop over range(length) that is left by `break` as soon
                # as a unit is not literal-safe, so it is reached only when every iteration ran to its end
                ok2, why2 = self._skip_for_else(r, node)
                if ok2 or not flags:
                    ok, why = ok2, why2
            if not ok:
                # predicate idiom: the scan lives in a helper analysed in place (`if self._all_safe(val): return val`); the input is
                # returned on paths that left the scanning loop by exhaustion (its test is false there) - every early exit of the
                # loop returns the negative answer, which the caller's test prunes
                for lid, loop in r.loops.items():
                    if not isinstance(loop, ast.While) or self._countdown_var(loop.test) is None:
                        continue
                    cvar = self._countdown_var(loop.test)
                    phis = [k for k, fv in s.facts.items() if k[0] == "phi" and k[1] == lid and fv is False and k[2].split(":")[-1] == cvar] or \
                        [k for k, fv in s.facts.items() if k[0] == "cmp" and fv is False and any(x[0] == "phi" and x[1] == lid and
                                                                                              x[2].split(":")[-1] == cvar for x in (k[2], k[3]))]
                    back = r.backedges.get(lid, [])
                    if not phis or not back:
                        continue
                    safe_all = all(
                        any(callee_name(k) == "bit_at" and fv for k, fv in b.facts.items()) and
                        any(op == "Lt" and x == ("const", 128) and callee_name(a_) == "PyUnicode_READ" for op, a_, x in order_facts(b.facts))
                        for b in back)
                    if not safe_all:
                        continue
                    try:
                        ok3, how3 = self._scan_covers(r, lid, back)
                    except AnalysisError:
                        continue
                    if ok3:
                        ok, why = True, f"scan in a helper, left by exhaustion: {len(back)} completed-iteration state(s) all under `< 128 and bit_at(safe)`; {how3}"
                        break
            ctx.ob(rule, q, "return val (skip)", ok, "the unscanned input is returned without every unit being tested against "
                   "`< 128` and the safe table: " + why, where(fi, node), sample=why)

    @staticmethod
    def _countdown_var(test):
        """The counter of `while n:` / `while n > 0:` / `while n != 0:` / `while 0 < n:` (it stops at 0), else None."""
        import ast as _ast
        if isinstance(test, _ast.Name):
            return test.id
        if isinstance(test, _ast.Compare) and len(test.ops) == 1:
            l, op, rr = test.left, test.ops[0], test.comparators[0]
            zero = lambda n: isinstance(n, _ast.Constant) and n.value == 0 and not isinstance(n.value, bool)
            if isinstance(l, _ast.Name) and zero(rr) and isinstance(op, (_ast.Gt, _ast.NotEq)):
                return l.id
            if isinstance(rr, _ast.Name) and zero(l) and isinstance(op, (_ast.Lt, _ast.NotEq)):
                return rr.id
        return None

    def _scan_covers(self, r, lid, back):
        """Does the scanning loop `lid` test every unit of the input? (a) the unit tested on each completed iteration is
        `PyUnicode_READ(kind, data, <i>)` where <i> is the loop index as it stands at the end of that iteration, and (b) the
        index visits every position: `for <i> in range(length)`, or a counter that starts at the length, goes down by exactly
        one per iteration and stops at 0 (`while <i>:`). Returns (True/False, reason) or raises on an unknown loop shape."""
        import ast as _ast
        from .unquoters import _is_length, lin
        loop = r.loops.get(lid)
        if loop is None:
            raise AnalysisError("CH1-SKIP: scanning loop not found")
        if isinstance(loop, _ast.For):
            rng = loop.iter
            if not (isinstance(rng, _ast.Call) and isinstance(rng.func, _ast.Name) and rng.func.id == "range" and
                    isinstance(loop.target, _ast.Name)):
                raise AnalysisError("CH1-SKIP: the scanning for-loop is not over range(...) (unknown idiom)")
            if len(rng.args) != 1:
                return False, "the scan does not run over range(length): some positions are never tested"
            var = loop.target.id
            how = "for over range(length)"
        elif isinstance(loop, _ast.While) and self._countdown_var(loop.test) is not None:
            var = self._countdown_var(loop.test)
            # inside a helper analysed in place the variable carries the helper's name as a prefix
            keys = [n for (l_, n) in r.phis if l_ == lid and (n == var or n.endswith(":" + var))]
            if len(keys) == 1:
                var = keys[0]
            phi = ("phi", lid, var)
            srcs = r.phis.get((lid, var), set())
            if not srcs:
                raise AnalysisError("CH1-SKIP: the scan index of the while loop has no recorded sources (unknown idiom)")
            steps = [x for x in srcs if not _is_length(x) and x != phi]
            if not all(lin(x)[0] == phi for x in steps):
                raise AnalysisError("CH1-SKIP: the scan index is not a counter (unknown idiom)")
            if not any(_is_length(x) for x in srcs):
                return False, "the scan index does not start at the length of the input"
            if any(lin(x)[1] != -1 for x in steps):
                return False, f"the scan index moves by {sorted({lin(x)[1] for x in steps})} per iteration: positions are skipped"
            how = "while counting the index down from the length by one"
        else:
            raise AnalysisError("CH1-SKIP: scanning loop of an unknown shape")
        for b in back:
            tested = [k[2][1] for k, fv in b.facts.items() if callee_name(k) == "bit_at" and fv and len(k[2]) == 2]
            cur = b.env.get(var)
            if isinstance(loop, _ast.For):
                cur = cur if cur is not None else ("phi", lid, var)
            ok = bool(tested) and all(callee_name(x) == "PyUnicode_READ" and len(x[2]) == 3 and
                                      (x[2][2] == cur or (isinstance(loop, _ast.For) and x[2][2][0] in ("phi", "elem", "iter") )) for x in tested)
            if not ok:
                return False, (f"the unit tested against the safe table is {[show(x)[:50] for x in tested]}, not the unit read at the "
                               f"current scan index {show(cur) if cur else var}")
        return True, how

    def _skip_for_else(self, r, node):
        import ast as _ast
        loop = None
        n = node
        while getattr(n, "_parent", None) is not None:
            p = n._parent
            if isinstance(p, (_ast.For, _ast.While)) and any(n is x for x in p.orelse):
                loop = p
                break
            n = p
        if loop is None:
            return False, "no flag and not in the else branch of a scanning loop"
        lids = [lid for lid, nd in r.loops.items() if nd is loop]
        if not lids:
            return False, "scanning loop not analysed"
        back = r.backedges.get(lids[0], [])
        if not back:
            return False, "the scanning loop has no iteration that runs to its end"

        def safe(b):
            below = any(op == "Lt" and x == ("const", 128) and callee_name(a) == "PyUnicode_READ" for op, a, x in order_facts(b.facts))
            in_table = any(callee_name(k) == "bit_at" and fv for k, fv in b.facts.items())
            return below and in_table
        ok = all(safe(b) for b in back)
        if isinstance(loop, _ast.For):
            rng = loop.iter
            full = isinstance(rng, _ast.Call) and isinstance(rng.func, _ast.Name) and rng.func.id == "range" and len(rng.args) == 1
            how = "for-else over range(length)"
        else:
            # while <index>: ... else: - the index starts at the length and goes down by one per iteration until it is 0
            from .unquoters import _is_length, lin
            full = False
            cv = self._countdown_var(loop.test)
            if cv is not None:
                phi = ("phi", lids[0], cv)
                srcs = r.phis.get((lids[0], cv), set())
                full = bool(srcs) and all(_is_length(x) or lin(x) == (phi, -1) or x == phi for x in srcs)
            how = "while-else counting the index down from the length"
        if ok and full:
            ok, how2 = self._scan_covers(r, lids[0], back)
            if not ok:
                return False, how2
        return ok and full, f"{how}: {len(back)} completed-iteration state(s) all under `< 128 and bit_at(safe)`"

    # ------------------------------------------------------------------
    def policy(self, cfg):
        tabs = self.tables.instance_tables(cfg)

        def tab(t):
            if t[0] == "attr" and t[1] == ("param", "self") and t[2] in tabs:
                return frozenset(c for c in tabs[t[2]] if ord(c) < 128)
            raise AnalysisError(f"{MOD}: bit table {show(t)} is not an instance table set up by __init__")

        lit, dec, plus, esc = None, None, False, False
        for site in self.sites:
            st = site["event"].state
            if not consistent(st, cfg, self.attr_map):
                continue
            if site["cls"] == "RAW":
                cur = frozenset.intersection(*[tab(t) for t in site["tabs"]]) if site["tabs"] else frozenset()
                lit = cur if lit is None else lit | cur
            elif site["cls"] == "DEC":
                cur = frozenset.intersection(*[tab(t) for t in site["pos"]]) - frozenset().union(*[tab(t) for t in site["neg"]])
                dec = cur if dec is None else dec | cur
                esc = True
            elif site["cls"] == "REEMIT":
                esc = True
            elif site["cls"] == "CONST" and site["value"] == "+":
                plus = True
        return {"literal": lit or frozenset(), "decodable": dec or frozenset(), "plus": plus, "escapes": esc,
                "tables": tabs}
