"""ORD1, ORD2, EM-NORM (C15, C03): dot-segment removal happens after quoting, exactly when an authority is present
and the quoted path contains a dot; the resolver never emits a dot segment."""
from __future__ import annotations

import ast

from ..interp import alternatives, analyze, truth
from ..strtpl import flatten
from ..kinds import DEC, RAW, UNK
from ..model import AnalysisError, Model
from ..report import Ctx, where
from ..terms import show, walk

NORMALISERS = ("normalize_path", "normalize_path_segments")
ENTRY = ("_url.encode_url", "_url.URL.build", "_url.URL.with_path", "_url.URL._make_child")


def is_norm_call(t):
    return t[0] == "call" and t[1][0] == "global" and t[1][2] in NORMALISERS


def _base(t):
    while t[0] == "mut":
        t = t[1]
    return t


def em_norm(ctx: Ctx):
    model = ctx.model
    rule = "EM-NORM"
    ctx.rule(rule, floor=2, what="the dot-segment resolver never appends '.' or '..' (for all segment sequences)")
    fi = model.func("_path.normalize_path_segments")
    r = analyze(model, fi)
    ctx.functions.add(fi.qual)
    acc = None
    for s, v, node in r.returns:
        b = v
        while b[0] == "mut":
            b = b[1]
        if b[0] == "phi":
            acc = b[2]
    if acc is None:
        raise AnalysisError("_path.normalize_path_segments: cannot identify the result list")
    for e in r.by_kind("mutate"):
        if e.on_name != acc or e.method not in ("append", "extend", "insert"):
            continue
        ctx.instance(rule)
        a = e.args[-1]
        if a == ("const", ""):
            ok, why = True, "constant ''"
        else:
            nd = truth(("cmp", "Eq", a, ("const", ".")), e.state.facts) is False
            ndd = truth(("cmp", "Eq", a, ("const", "..")), e.state.facts) is False
            ok, why = nd and ndd and e.method == "append", "segment != '.' and segment != '..'"
        ctx.ob(rule, fi.qual, f"{acc}.{e.method}({show(a)})", ok,
               "a segment is appended to the resolved path without being known to differ from '.' and '..'", where(fi, e.node), sample=why)
    # a '..' takes back exactly one segment (RFC 3986 5.2.4 2C: "removing the last segment"): the removal is not repeated
    # within one iteration of the segment loop - neither by a second removal on the same path nor by an inner loop around it
    outer = {b[1] for _s, v, _n in r.returns for b in [_base(v)] if b[0] == "phi"}
    for e in r.by_kind("mutate"):
        if not ((e.method == "pop" and not e.args) or (e.method == "delitem" and e.args and e.args[0][0] == "const")):
            continue
        if _base(e.recv)[0] != "phi" or _base(e.recv)[2] != acc:
            continue
        ctx.instance(rule)
        n_removed, t = 1, e.recv
        while t[0] == "mut":
            n_removed += t[2] in ("pop", "delitem")
            t = t[1]
        loops, p_ = 0, getattr(e.node, "_parent", None)
        while p_ is not None and not isinstance(p_, (ast.FunctionDef, ast.Lambda)):
            loops += isinstance(p_, (ast.For, ast.While, ast.ListComp, ast.GeneratorExp, ast.SetComp))
            p_ = getattr(p_, "_parent", None)
        # in the resolver itself the only loop around the removal is the segment loop; a helper analysed in place either holds that
        # loop or is called from it (the list it changes is the loop-carried one)
        ok = t[1] in outer and n_removed == 1 and (loops == 1 if p_ is fi.node else loops <= 1)
        ctx.ob(rule, fi.qual, f"{acc}.{e.method}() per '..' segment", ok,
               "one '..' segment can take back more than one segment of the resolved path (the removal is repeated within one "
               "iteration of the segment loop): RFC 3986 5.2.4 removes exactly the last segment, so 'a//..' keeps 'a/'",
               where(fi, e.node), sample="one removal per iteration of the segment loop")
    # the trailing-slash rule (RFC 3986 5.2.4 2B/2C: "/." and "/.." are replaced by "/"): when the last input segment is a dot
    # segment the result ends with one added '' - on every such path, whatever the resolved segments look like - and never otherwise
    tr_app = lambda kind, t: kind == "call" and t[1][0] == "attr" and t[1][2] in ("append", "extend", "insert")
    ru = analyze(model, fi, merge=False, trace=tr_app, trace_key="appends")
    segs = ("param", fi.params[0])
    last = ("sub", segs, ("const", -1))

    def members(t):
        if t[0] in ("tuple", "list", "set"):
            return {x[1] for x in t[1] if x[0] == "const"}
        try:
            from ..fold import CannotFold, Folder
            return set(Folder(model).fold(t))
        except Exception:
            return set()

    def last_is_dot(f):
        for k, v in f.items():
            if k[0] == "cmp" and k[1] in ("In", "NotIn") and k[2] == last and members(k[3]) == {".", ".."}:
                return (k[1] == "In") == bool(v)
        a, b = truth(("cmp", "Eq", last, ("const", ".")), f), truth(("cmp", "Eq", last, ("const", "..")), f)
        if a is True or b is True:
            return True
        if a is False and b is False:
            return False
        return None
    verdicts = {}
    for s_, v, node in ru.returns:
        closed = v[0] == "mut" and v[2] == "append" and v[3] == (("const", ""),)
        if v[0] == "binop" and v[1] == "Add" and v[3] == ("list", (("const", ""),)):
            closed = True
        # `[*resolved, ""]`
        if v[0] == "list" and len(v[1]) == 2 and v[1][0][0] == "star" and v[1][1] == ("const", ""):
            closed = True
        # ... or the same append through a bound-method alias (`append = resolved_path.append`): seen as a call on the path
        if any(t[0] == "call" and t[1][2] == "append" and t[2] == (("const", ""),) and
               ((_base(t[1][1])[0] == "phi" and _base(t[1][1])[2] == acc) or _base(t[1][1])[0] == "list") for t in s_.trace):
            closed = True
        d = False if truth(segs, s_.facts) is False else last_is_dot(s_.facts)
        if d is None:
            raise AnalysisError("normalize_path_segments: a return path does not know whether the last segment is a dot segment "
                                "(the trailing-slash rule is spelled in an unknown idiom)")
        verdicts.setdefault((id(node), d), [node, d, []])[2].append(closed == d)
    for node, d, oks in verdicts.values():
        ctx.instance(rule)
        ctx.ob(rule, fi.qual, "trailing '' after a final dot segment" if d else "no '' added when the last segment is not a dot segment", all(oks),
               ("the last segment is '.' or '..' but a path returns without the added '': the trailing slash RFC 3986 5.2.4 keeps ('/a//.' "
                "-> '/a//') depends on what the resolved segments happen to end with") if d else
               "a '' is appended although the last segment is not a dot segment: a trailing slash is invented",
               where(fi, node), sample="append('') exactly when segments[-1] is '.' or '..'")
    # normalize_path: keeps the root, splits on '/', re-joins the resolver's output
    fp = model.func("_path.normalize_path")
    rp = analyze(model, fp, merge=False)        # small function: keep every path apart (rootedness is a two-test condition)
    ctx.functions.add(fp.qual)
    path = ("param", fp.params[0])
    split = ("call", ("attr", path, "split"), (("const", "/"),), ())
    rest = ("slice", ("const", 1), ("const", None), ("const", None))
    # ways of saying "the path is rooted": path.startswith('/'), its first character is '/', or its first '/'-segment is empty (and there
    # is more than one segment, i.e. the path is not empty)
    by_char = ("cmp", "Eq", ("sub", path, ("const", 0)), ("const", "/"))
    by_seg = ("cmp", "Eq", ("sub", split, ("const", 0)), ("const", ""))
    several = ("cmp", "Gt", ("call", ("builtin", "len"), (split,), ()), ("const", 1))

    by_start = ("call", ("attr", path, "startswith"), (("const", "/"),), ())

    def rooted(f):
        if truth(by_start, f) is not None:
            return truth(by_start, f)
        if truth(by_char, f) is True and truth(path, f) is not False:
            return True
        if truth(by_seg, f) is True and truth(several, f) is True:
            return True
        if truth(path, f) is False or truth(by_char, f) is False:
            return False
        if truth(by_seg, f) is False or truth(several, f) is False:
            return False
        return None

    for s, v, node in rp.returns:
        ctx.instance(rule)
        parts = flatten(v)          # any spelling of  [ "/" ] + "/".join(resolver(<segments>))
        prefix = ""
        if parts and parts[0][0] == "lit":
            prefix, parts = parts[0][1], parts[1:]
        body = parts[0][1] if len(parts) == 1 and parts[0][0] == "val" else None
        segs = None
        if body is not None and body[0] == "call" and body[1] == ("attr", ("const", "/"), "join") and len(body[2]) == 1:
            c = body[2][0]
            if c[0] == "call" and c[1][0] == "global" and c[1][2] == "normalize_path_segments" and len(c[2]) == 1:
                segs = c[2][0]
        if segs is None or prefix not in ("", "/"):
            raise AnalysisError(f"_path.normalize_path: return value {show(v)[:80]} is not [root] + '/'.join(resolver(segments)) "
                                "(unknown idiom)")
        is_rooted = rooted(s.facts)
        if prefix == "/":
            # the root is kept for a rooted path and the resolver sees the segments after it
            after_root = segs in (("call", ("attr", ("sub", path, rest), "split"), (("const", "/"),), ()), ("sub", split, rest))
            ok = is_rooted is True and after_root
        else:
            ok = is_rooted is False and segs == split
        ctx.ob(rule, fp.qual, f"return {show(v)[:70]}", ok,
               "normalize_path must return root-prefix + '/'.join(resolver(path.split('/'))) with the root kept only for rooted paths",
               where(fp, node), sample="prefix + '/'.join(normalize_path_segments(path.split('/')))")


def ord1(ctx: Ctx, K):
    """The normaliser's input is encoded text: quoting (which can decode %2E into '.') happens first."""
    model = ctx.model
    rule = "ORD1"
    ctx.rule(rule, floor=4, what="dot-segment removal is applied to quoted text, never to decoded / raw text")
    for fi in model.all_funcs():
        if fi.module != "_url":
            continue
        r = analyze(model, fi)
        sites = {}
        for e in r.by_kind("call"):
            if not is_norm_call(e.value) or not e.args:
                continue
            kd = K.kind(e.args[0], e.state.facts, fi, None, r)
            bad = sorted(x for x in kd if x in (DEC, RAW, UNK))
            sites.setdefault(id(e.node), [e.node, show(e.value)[:80], []])[2].append(bad)
        for node, cons, bads in sites.values():
            ctx.instance(rule)
            flat = [b for bb in bads for b in bb]
            ctx.ob(rule, fi.qual, cons, not flat,
                   f"dot segments are removed from text of kind {sorted(set(flat))}: an escaped dot (%2E) decoded by the later "
                   "quoting step would survive as a dot segment", where(fi, node), sample="argument is quoted text")


def ord2(ctx: Ctx, K=None):
    model = ctx.model
    rule = "ORD2"
    ctx.rule(rule, floor=6, what="normalise iff authority and '.' in the quoted path, at every entry point that can introduce dots")
    for q in ENTRY:
        fi = model.func(q)
        r = analyze(model, fi, merge=False)     # the (authority, dot) correlation must not be lost by state merging
        ctx.functions.add(q)
        sinks = []
        for e in r.by_kind("call"):
            if e.func[0] == "global" and e.func[2] in ("from_parts", "from_parts_uncached") and len(e.args) == 5:
                sinks.append((e.node, e.state, e.args[1], e.args[2]))
        for s, v, node in r.returns:
            if v[0] == "new":
                p = s.heap.get((v, "_path"))
                n = s.heap.get((v, "_netloc"))
                if p is not None and n is not None:
                    sinks.append((node, s, n, p))
        groups = {}
        for node, st, netloc, path in sinks:
            new_text = any(t[0] == "call" and t[1][0] == "global" and t[1][1] == "_quoters" for t in walk(path))
            normalised = any(is_norm_call(t) for t in walk(path))
            for f in alternatives(st.facts, [netloc, path]):
                n_truth = truth(netloc, f)
                if normalised:
                    groups.setdefault((id(node), "norm"), [node, f"normalised path {show(path)[:60]}", "b", []])[3].append(n_truth is True)
                elif new_text:
                    dotfree = False
                    for k, fv in f.items():
                        if fv:
                            continue
                        for t in walk(k):
                            if t[0] == "cmp" and t[1] == "In" and t[2] == ("const", "."):
                                # the dot test must look at *quoted* text: quoting decodes %2E into '.'
                                kd = K.kind(t[3], f, fi, None, r) if K is not None else frozenset()
                                if not (kd & {DEC, RAW, UNK}):
                                    dotfree = True
                    encoded_flag = truth(("param", "encoded"), f) is True if "encoded" in fi.params else False
                    groups.setdefault((id(node), "raw"), [node, f"un-normalised path {show(path)[:60]}", "a", []])[3].append(
                        n_truth is False or dotfree or encoded_flag or truth(path, f) is False)
        for node, cons, which, oks in groups.values():
            ctx.instance(rule)
            if which == "b":
                ctx.ob(rule, q, cons, all(oks), "dot segments are removed although no authority is known to be present: URLs without "
                       "an authority must keep their dot segments verbatim", where(fi, node), sample="authority present on every path")
            else:
                ctx.ob(rule, q, cons, all(oks), "newly quoted path text is stored without dot-segment removal on a path where an "
                       "authority may be present and the text may contain '.'", where(fi, node), sample="no authority, or no '.' in the quoted path")
        # the dot test is literally '.' (a test for '..' would miss single-dot segments)
        for e in r.by_kind("cond"):
            t = e.test
            if t[0] == "cmp" and t[1] == "In" and t[2][0] == "const" and isinstance(t[2][1], str) and t[2][1].startswith(".") and t[2][1] != ".":
                ctx.instance(rule)
                ctx.ob(rule, q, show(t)[:60], False, f"the dot test looks for {t[2][1]!r} instead of '.'", where(fi, e.node))


def flag_accumulates(ctx: Ctx):
    """A loop-carried flag that later decides whether dot segments are removed must accumulate over every iteration
    (`flag |= c`, `flag = flag or c`): a plain assignment keeps only the last iteration's verdict (with reversed(paths),
    that of the *first* argument), so joinpath('a', '..') would skip the normalisation that joinpath('a').joinpath('..') does."""
    model = ctx.model
    rule = "FLAG-ACC"
    ctx.rule(rule, floor=1, what="a dot-detection flag accumulates over all path arguments")
    n = 0
    for q in ENTRY:
        fi = model.func(q)
        r = analyze(model, fi)
        for (lid, name), srcs in r.phis.items():
            phi = ("phi", lid, name)

            def is_dot(k):
                return k[0] == "cmp" and k[1] == "In" and k[2] == ("const", ".")
            # the flag records dot detection: a source computed from `'.' in x`, or the constant True stored under it
            dot_srcs = [t for t in srcs if any(is_dot(x) for x in walk(t))]
            dot_srcs += [t for t in srcs if t[0] == "const" and t[1] in (True, 1) and
                         any(fv is True and is_dot(k) for f in r.phi_facts.get((lid, name, t), ()) for k, fv in f.items())]
            if not dot_srcs:
                continue
            # loop-carried means the value of a previous iteration is read somewhere (in the loop or after it); a variable
            # that every iteration assigns before using it is a per-iteration temporary, not a flag
            if not any(x == phi for e in r.events for val in e.data.values()
                       if isinstance(val, tuple) and val and isinstance(val[0], str) for x in walk(val)):
                continue
            n += 1
            ctx.instance(rule)
            # monotone over the iterations: every value the flag has at the end of an iteration is the old flag, the old
            # flag or-ed with something, a true constant, or anything at all when the old flag was false anyway
            bad = []
            for st in r.backedges.get(lid, ()):
                t = st.env.get(name)
                if t is None or t == phi:
                    continue
                if t[0] == "const" and bool(t[1]):
                    continue
                if t[0] == "binop" and t[1] in ("BitOr", "Or") and phi in (t[2], t[3]):
                    continue
                if truth(phi, st.facts) is False:
                    continue
                bad.append(t)
            ctx.ob(rule, q, f"{name} <- " + " | ".join(sorted({show(t)[:50] for t in dot_srcs})), not bad,
                   f"the flag `{name}` is overwritten in the loop instead of accumulated ({'; '.join(sorted({show(t)[:60] for t in bad}))}): "
                   f"only one argument's dots are seen",
                   where(fi, r.loops[lid]), sample="flag |= ('.' in segment)")
    if not n:
        raise AnalysisError("FLAG-ACC: no loop-carried dot-detection flag found (anchor vanished)")


def ord2_name(ctx: Ctx):
    """ORD2-NAME: with_name() / with_suffix() put a new last segment into the path without running the dot-segment remover, so
    under an authority that segment must be known not to be '.' or '..' on every path to the constructor (a test of the
    segment itself, or of the text a non-requoting quoter produced it from: such a quoter escapes '%', so it cannot create a dot
    segment). Otherwise 'http://h/d/..x'.with_suffix('') stores a '..' segment that the next parse removes."""
    from .flow import outcomes
    from .quoters import configurations
    model = ctx.model
    rule = "ORD2-NAME"
    ctx.rule(rule, floor=2, what="the last segment set by with_name()/with_suffix() is never a dot segment under an authority")
    cfgs = configurations(model)
    DOTS = (("const", "."), ("const", ".."))

    def not_dot(e, f):
        def holds_dots(t):
            if t[0] in ("tuple", "list", "set"):
                return all(d in t[1] for d in DOTS)
            try:
                from ..fold import Folder
                return {".", ".."} <= set(Folder(model).fold(t))
            except Exception:
                return False

        def known(x):
            for k, v in f.items():
                if k[0] == "cmp" and k[1] == "In" and k[2] == x and v is False and holds_dots(k[3]):
                    return True
                if k[0] == "cmp" and k[1] == "NotIn" and k[2] == x and v is True and holds_dots(k[3]):
                    return True
            return all(truth(("cmp", "Eq", x, d), f) is False for d in DOTS)
        if known(e):
            return True
        if e[0] == "call" and e[1][0] == "global" and e[1][1] == "_quoters" and len(e[2]) == 1 and \
                e[1][2] in cfgs and cfgs[e[1][2]][1].get("requote") is False:
            return known(e[2][0])
        return False

    for name in ("with_name", "with_suffix"):
        if not model.has_func(f"_url.URL.{name}"):
            raise AnalysisError(f"anchor vanished: URL.{name}")
        pub = model.func(f"_url.URL.{name}")
        params = {("param", p) for p in pub.params if p not in ("self", "cls")}
        sites = {}
        for fi, s, node, kind, payload in outcomes(model, name):
            if kind != "sink":
                continue
            ctx.functions.add(fi.qual)
            netloc, path = payload[1], payload[2]
            if any(is_norm_call(t) for t in walk(path)):
                continue        # normalised afterwards
            # the segments this call puts in: arguments of list updates / display elements / template parts that derive from the
            # public method's arguments
            new = []
            for t in walk(path):
                cands = ()
                if t[0] == "mut" and t[2] in ("append", "setitem", "insert", "extend"):
                    cands = t[3][-1:]
                elif t[0] in ("list", "tuple"):
                    cands = t[1]
                elif t[0] == "fstr":
                    cands = tuple(p[1] for p in t[1] if p[0] == "fmt")        # f"{head}{slash}{name}": the formatted values
                for c in cands:
                    if c[0] != "const" and any(x in params or (x[0] == "attr" and x[1] == S) for x in walk(c)) and \
                            any(x in params for x in walk(c)):
                        new.append(c)
            if not new:
                if any(x in params for x in walk(path)):
                    raise AnalysisError(f"ORD2-NAME: cannot tell which segment of {show(path)[:70]} {name}() supplies (unknown idiom)")
                continue
            for f in alternatives(s.facts, [netloc]):
                if truth(netloc, f) is False:
                    continue
                for e in new:
                    sites.setdefault((id(node), show(e)), [fi, node, e, []])[3].append(not_dot(e, f))
        for fi, node, e, oks in sites.values():
            ctx.instance(rule)
            ctx.ob(rule, fi.qual, f"{name}: last segment {show(e)[:50]}", all(oks),
                   f"{name}() stores {show(e)[:50]} as the last path segment under an authority on a path where it is not known to differ "
                   "from '.' and '..': the URL then holds a dot segment that parsing its own string form removes", where(fi, node),
                   sample="segment (or the text it was quoted from) tested against '.' and '..'")


S = ("param", "self")
