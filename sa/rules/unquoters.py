"""EM-PYU / EM-CU: emission audit of the two unquoters against the C06 contract, on the same rule code
(sibling cross-check), plus LA: look-ahead / read bounds of the scanning loops."""
from __future__ import annotations

import ast

from ..fold import CannotFold, Folder
from ..interp import analyze, order_facts, truth
from ..model import AnalysisError, Model
from ..report import Ctx, where
from ..strtpl import flatten
from ..terms import NONE, show, walk
from .quoters import consistent, fact_in, inner_quoters, is_call_to
from .quoter_pyx import callee_name

QS_DELIMS = frozenset("+=&;")


def lin(t):
    """term -> (base term, integer offset) for chains of +/- integer constants."""
    off = 0
    while t[0] == "binop" and t[1] in ("Add", "Sub") and t[3][0] == "const" and isinstance(t[3][1], int):
        off += t[3][1] if t[1] == "Add" else -t[3][1]
        t = t[2]
    return t, off


class Unquoter:
    def __init__(self, ctx: Ctx, model: Model, backend: str):
        self.ctx, self.model, self.backend = ctx, model, backend
        if backend == "py":
            self.qual, self.mod, self.tag = "_quoting_py._Unquoter.__call__", "_quoting_py", "PYU"
        else:
            model.load_pyx()
            self.qual, self.mod, self.tag = "_quoting_c._Unquoter._do_unquote", "_quoting_c", "CU"
        self.fi = model.func(self.qual)
        tr = lambda kind, t: kind == "call" and (callee_name(t) in ("decode", "PyUnicode_DecodeUTF8Stateful"))
        self.r = analyze(model, self.fi, trace=tr, trace_key="decode", merge=False)     # small functions: every path kept apart
        self.inner, self.attr_map = inner_quoters(model, self.mod)
        ctx.functions.update([self.qual, f"{self.mod}._Unquoter.__init__"])
        self.param_attr = {p: a for a, p in self.attr_map.items()}
        for need_ in ("unsafe", "ignore", "qs"):
            if need_ not in self.param_attr:
                raise AnalysisError(f"{self.mod}._Unquoter.__init__ does not store its `{need_}` argument")
        self.acc = self._accumulator()
        self.sites = []
        # attributes the constructor derives from its arguments: attr -> value term (e.g. keep = unsafe + ignore)
        self.derived = {}
        try:
            init = analyze(model, model.func(f"{self.mod}._Unquoter.__init__"))
            for e in init.by_kind("store_attr"):
                if e.obj == ("param", "self") and e.value[0] != "param":
                    self.derived[e.attr] = e.value
        except AnalysisError:
            pass

    def param_attr_inv(self):
        return {p: p for p in self.param_attr}

    def sattr(self, p):
        return ("attr", ("param", "self"), self.param_attr[p])

    def _accumulator(self):
        names = set()
        for s, v, node in self.r.returns:
            if is_join(v):
                b = v[2][0]
                while b[0] == "mut":
                    b = b[1]
                if b[0] == "phi":
                    names.add(b[2])
        if len(names) != 1:
            raise AnalysisError(f"{self.qual}: cannot identify the output list (candidates {sorted(names)})")
        return names.pop()

    def is_unit(self, t):
        if self.backend == "py":
            return t[0] == "sub" and t[1] == ("param", "val") and t[2][0] == "phi"
        return callee_name(t) == "PyUnicode_READ" and len(t[2]) == 3 and t[2][2][0] == "phi"

    def is_decoded(self, t):
        return t[0] == "call" and callee_name(t) in ("decode", "PyUnicode_DecodeUTF8Stateful") and \
            not (t[1][0] == "attr" and t[1][1][0] in ("const",))

    def unit_in(self, st):
        for k in st.facts:
            for t in walk(k):
                if self.is_unit(t):
                    return t
        return None

    # ------------------------------------------------------------------
    def audit(self):
        ctx, r = self.ctx, self.r
        rule = f"EM-{self.tag}"
        ctx.rule(rule, floor=10, what="unquoter emission classes: decoded text raw only when not protected by qs / unsafe / "
                                      "ignore; '+' to space only under qs; everything else verbatim or re-quoted")
        unsafe, ignore, qs = self.sattr("unsafe"), self.sattr("ignore"), self.sattr("qs")
        units = [e for e in r.events if e.kind in ("sub", "call") and self.is_unit(e.data.get("value", ("x",)))]
        if not units:
            raise AnalysisError(f"{self.qual}: the input is not scanned unit by unit through an index "
                                "(val[i] / PyUnicode_READ(kind, data, i)): unknown idiom")
        for e in r.by_kind("mutate"):
            if e.on_name != self.acc:
                continue
            if e.method not in ("append", "extend") or len(e.args) != 1:
                raise AnalysisError(f"{self.qual}:{e.node.lineno}: unclassifiable operation on the output list: {e.method}")
            a, st = e.args[0], e.state
            w = where(self.fi, e.node)
            cons = f"{self.acc}.{e.method}({show(a)[:160]})"
            ctx.instance(rule)
            site = dict(event=e)
            parts = flatten(a)
            esc = self._escape_template(parts)
            if esc is None and a[0] == "sub" and a[1][0] == "attr" and a[1][1] == ("param", "self") and a[1][2] in self.derived:
                # self.<table>[unit] with table = {c: '%XX' of c for c in unsafe} built by the constructor
                d = self.derived[a[1][2]]
                if d[0] == "comp" and d[1] == "dict" and len(d[2]) == 1 and d[2][0][0] == "tuple" and len(d[2][0][1]) == 2 and \
                        d[3] == (("param", self.param_attr_inv().get("unsafe", "unsafe")),):
                    key, val = d[2][0][1]
                    tpl = self._escape_template(flatten(val))
                    if key[0] == "elem" and tpl is not None and tpl[0] == key and tpl[2]:
                        esc = (a[2], tpl[1], True)
            if e.method == "extend" and esc is None:
                # extending the list with a string adds its characters: the same text after ''.join - anything else is unknown
                raise AnalysisError(f"{self.qual}:{e.node.lineno}: unclassifiable emission {cons}")
            if esc is not None:
                # "%" + upper-case hex of an unsafe literal, in any spelling (f-string, format, %, hex()[2:].upper())
                src, upper, has_pct = esc
                site["cls"] = "ESCAPE-UNSAFE"
                in_unsafe = any(v and k[0] == "cmp" and k[1] == "In" and k[2] == src and k[3] == unsafe for k, v in st.facts.items())
                ctx.ob(rule, self.qual, cons, in_unsafe and upper,
                       f"escape emitted outside the unsafe-literal branch or not upper-cased (unsafe: {in_unsafe}, upper: {upper})", w,
                       sample="upper-case hex escape of an unsafe literal")
                self.sites.append(site)
                continue
            # verbatim slice of the input (two adjacent slices appended as one piece are the slice from the first bound to the last)
            if a[0] == "binop" and a[1] == "Add" and all(x[0] == "sub" and x[1] == ("param", "val") and x[2][0] == "slice" for x in (a[2], a[3])) \
                    and a[2][2][2] == a[3][2][1] and a[2][2][3] == NONE and a[3][2][3] == NONE:
                a = ("sub", ("param", "val"), ("slice", a[2][2][1], a[3][2][2], NONE))
            if a[0] == "sub" and a[1] == ("param", "val") and a[2][0] == "slice":
                site["cls"] = "VERBATIM"
                # a run of escapes that could not be decoded is copied as it stands: the copy ends where the scan stands (or
                # at the end of the input) and its length is three characters per pending byte - it depends on the number of
                # buffered bytes only, never on the position or on the length of the input
                why = self._verbatim_length(a[2], st)
                if why is None:
                    # two copies in one iteration (the pending run, then the escape that failed on its own) are contiguous:
                    # the second starts where the first ended, nothing is copied twice or skipped
                    t_ = e.recv
                    while t_[0] == "mut":
                        if t_[2] == "append" and len(t_[3]) == 1 and t_[3][0][0] == "sub" and t_[3][0][1] == ("param", "val") and \
                                t_[3][0][2][0] == "slice":
                            prev_hi, this_lo = t_[3][0][2][2], a[2][1]
                            if prev_hi != NONE and this_lo != NONE and linform(prev_hi) != linform(this_lo):
                                why = (f"it starts at {show(this_lo)[:40]} although the copy before it in the same iteration ended at "
                                       f"{show(prev_hi)[:40]}")
                            break
                        t_ = t_[1]
                ctx.ob(rule, self.qual, cons, why is None,
                       f"a verbatim copy of undecodable escapes has a length that is not 3 x (pending bytes): {why}; text before "
                       "the escapes would be repeated, or text after them swallowed", w, sample="length = 3 x pending bytes")
            elif self.is_decoded(a):
                site["cls"] = "DECODED"
                f_unsafe = self._in(st, a, "unsafe")
                f_ignore = self._in(st, a, "ignore")
                qs_true = st.facts.get(qs)
                qs_ok = qs_true is False or self._not_in_qs_delims(st, a)
                ok = f_unsafe is False and f_ignore is False and qs_ok
                ctx.ob(rule, self.qual, cons, ok,
                       f"decoded text appended raw without all of: not in unsafe ({f_unsafe}), not in ignore ({f_ignore}), "
                       f"not a query delimiter under qs ({qs_ok})", w,
                       sample="not in unsafe, not in ignore, not (qs and in '+=&;')")
            elif a[0] == "call" and a[1][0] == "attr" and a[1][1] == ("param", "self") and a[1][2] in self.inner \
                    and len(a[2]) == 1 and self.is_decoded(a[2][0]):
                site["cls"] = "REQUOTED"
                site["quoter"] = a[1][2]
                site["qs_branch"] = st.facts.get(qs) is True and self._in_qs_delims(st, a[2][0])
                ctx.ob(rule, self.qual, cons, True, where=w, sample=f"decoded text re-quoted by self.{a[1][2]}")
            elif a == ("const", "+"):
                site["cls"] = "PLUS"
                u = self.unit_in(st)
                ok = u is not None and truth(("cmp", "Eq", u, ("const", "+")), st.facts) is True and \
                    (st.facts.get(qs) is False or truth(("cmp", "In", u, unsafe), st.facts) is True)
                ctx.ob(rule, self.qual, cons, ok, "'+' kept for something other than a literal '+' outside qs / unsafe", w,
                       sample="unit == '+' and (not qs or '+' in unsafe)")
            elif a == ("const", " "):
                site["cls"] = "SPACE"
                u = self.unit_in(st)
                ok = u is not None and truth(("cmp", "Eq", u, ("const", "+")), st.facts) is True and \
                    st.facts.get(qs) is True and truth(("cmp", "In", u, unsafe), st.facts) is False
                ctx.ob(rule, self.qual, cons, ok, "space produced for something other than '+' under qs with '+' not unsafe", w,
                       sample="unit == '+', qs, '+' not in unsafe")
            elif a == ("const", "%"):
                u = self.unit_in(st)
                in_unsafe = [k for k, v in st.facts.items() if v and k[0] == "cmp" and k[1] == "In" and k[3] == unsafe]
                is_pct = u is not None and truth(("cmp", "Eq", u, ("const", "%")), st.facts) is True
                if in_unsafe:
                    site["cls"] = "ESCAPE-UNSAFE"
                    ctx.ob(rule, self.qual, cons, True, where=w, sample="'%' of the escape of an unsafe literal")
                elif is_pct:
                    site["cls"] = "RAW"
                    ctx.ob(rule, self.qual, cons, True, where=w, sample="the unit is '%' (no valid escape follows)")
                else:
                    ctx.ob(rule, self.qual, cons, False, "'%' emitted for no reason the contract knows", w)
            elif a[0] == "elem" and self._hex_of(a[1]) is not None:
                site["cls"] = "ESCAPE-UNSAFE"
                src, upper = self._hex_of(a[1])
                in_unsafe = any(v and k[0] == "cmp" and k[1] == "In" and k[2] == src and k[3] == unsafe for k, v in st.facts.items())
                ctx.ob(rule, self.qual, cons, in_unsafe and upper,
                       f"hex digits emitted outside the unsafe-literal branch or not upper-cased (unsafe: {in_unsafe}, upper: {upper})", w,
                       sample="upper-case hex of an unsafe literal")
            elif self.is_unit(a):
                site["cls"] = "RAW"
                ok = truth(("cmp", "In", a, unsafe), st.facts) is False and truth(("cmp", "Eq", a, ("const", "+")), st.facts) is False
                ctx.ob(rule, self.qual, cons, ok, "input unit copied although it may be '+' or an unsafe literal", w,
                       sample="unit != '+', unit not in unsafe")
            else:
                raise AnalysisError(f"{self.qual}:{e.node.lineno}: unclassifiable emission {cons}")
            self.sites.append(site)
        self._returns()
        self._progress()
        self._read_bounds()
        self._escape_syntax()

    def _verbatim_length(self, sl, st):
        """None when hi - lo of the slice is a linear form over 'pending byte' counts only (coefficients and constant multiples
        of 3, nothing left that mentions the scan index or the input length), else a description of what is wrong."""
        LEN = ("<len>",)

        def is_len(t):
            return t == ("param", "length") or (t[0] == "call" and callee_name(t) in ("len", "PyUnicode_GET_LENGTH") and
                                                  t[2] == (("param", "val"),))

        def linform(t):
            if t[0] == "const" and isinstance(t[1], int) and not isinstance(t[1], bool):
                return {}, t[1]
            if is_len(t):
                return {LEN: 1}, 0
            if t[0] == "unop" and t[1] == "USub":
                f = linform(t[2])
                return None if f is None else ({k: -v for k, v in f[0].items()}, -f[1])
            if t[0] == "binop" and t[1] in ("Add", "Sub"):
                a_, b_ = linform(t[2]), linform(t[3])
                if a_ is None or b_ is None:
                    return None
                sg = 1 if t[1] == "Add" else -1
                d = dict(a_[0])
                for k, v in b_[0].items():
                    d[k] = d.get(k, 0) + sg * v
                return {k: v for k, v in d.items() if v}, a_[1] + sg * b_[1]
            if t[0] == "binop" and t[1] == "Mult":
                a_, b_ = linform(t[2]), linform(t[3])
                if a_ is None or b_ is None:
                    return None
                if not a_[0]:
                    return {k: v * a_[1] for k, v in b_[0].items() if v * a_[1]}, a_[1] * b_[1]
                if not b_[0]:
                    return {k: v * b_[1] for k, v in a_[0].items() if v * b_[1]}, a_[1] * b_[1]
                return None
            return {t: 1}, 0
        lo, hi, step = sl[1], sl[2], sl[3]
        if step != NONE:
            return "the slice has a step"
        flo = ({}, 0) if lo == NONE else linform(lo)
        fhi = ({LEN: 1}, 0) if hi == NONE else linform(hi)
        if flo is None or fhi is None:
            raise AnalysisError(f"{self.qual}: bounds of a verbatim slice are not linear ({show(lo)[:40]} : {show(hi)[:40]}): unknown idiom")
        # a bound that is minus something (val[-3 * n:]) counts from the end
        for f_ in (flo, fhi):
            if (f_[0] or f_[1]) and all(v < 0 for v in f_[0].values()) and f_[1] <= 0 and LEN not in f_[0]:
                f_[0][LEN] = 1
        d = dict(fhi[0])
        for k, v in flo[0].items():
            d[k] = d.get(k, 0) - v
        d = {k: v for k, v in d.items() if v}
        c = fhi[1] - flo[1]
        aux = [k for k in d if k != LEN and k[0] == "phi" and not self._is_scan_index(k) and not self._is_pending(k)]
        if aux:
            raise AnalysisError(f"{self.qual}: a verbatim copy is bounded by the loop-carried position {show(aux[0])[:30]} (a remembered start "
                                "of the pending run): its relation to the scan index is not derived here (unknown idiom)")
        # ... and it ends where the scan stands (index + constant) or at the end of the input: its upper bound does not depend on
        # how many bytes are pending
        if hi != NONE:
            dh = {k: v for k, v in fhi[0].items() if v}
            pend = [k for k in dh if k != LEN and not (k[0] == "phi" and self._is_scan_index(k))]
            if pend:
                return f"its end {show(hi)[:40]} depends on {[show(k)[:30] for k in pend]} instead of being the scan position"
        positional = [k for k in d if k == LEN or any(x[0] == "phi" and self._is_scan_index(x) for x in walk(k)) or self.is_unit(k)]
        if positional:
            return f"it varies with {[show(k)[:30] if k != LEN else 'the length of the input' for k in positional]}"
        if any(v % 3 for v in d.values()) or c % 3:
            return f"{ {show(k)[:30]: v for k, v in d.items()} } + {c} is not a multiple of three"
        return None

    def _assumes_empty_escape(self, st):
        """Does the path assume that text containing `val[i - 3 : i]` (an escape just consumed: the scan index is at least 3
        and at most len(val) there) is empty? Such a path cannot be taken."""
        for k, fv in st.facts.items():
            if fv is not False:
                continue
            for t in walk(k):
                if t[0] == "sub" and t[1] == ("param", "val") and t[2][0] == "slice" and t[2][3] == NONE and t[2][1] != NONE and t[2][2] != NONE:
                    lo, hi = t[2][1], t[2][2]
                    blo, olo = lin(lo)
                    bhi, ohi = lin(hi)
                    if blo == bhi and ohi - olo == 3 and blo[0] == "phi" and self._is_scan_index(blo) and ohi >= 3 and \
                            (k == t or (k[0] == "binop" and k[1] == "Add" and t in (k[2], k[3]))):
                        # hi = index + c with c >= 3 after an escape was recognised (the look-ahead test bounds it by the length)
                        return True
        return False

    def _is_pending(self, phi):
        """Is this loop-carried variable the count of pending bytes (it is multiplied by 3 somewhere / named as the buffer length)?"""
        for e in self.r.events:
            for v in e.data.values():
                if isinstance(v, tuple) and v and isinstance(v[0], str):
                    for t in walk(v):
                        if t[0] == "binop" and t[1] == "Mult" and ((t[2] == phi and t[3] == ("const", 3)) or (t[3] == phi and t[2] == ("const", 3))):
                            return True
        return False

    def _is_scan_index(self, phi):
        """Is this loop-carried variable the scan index (the one the input is read at)?"""
        for e in self.r.events:
            v = e.data.get("value") if e.kind in ("sub", "call") else None
            if v is not None and self.is_unit(v):
                ix = v[2] if v[0] == "sub" else v[2][2]
                if any(x == phi for x in walk(ix)):
                    return True
        return False

    def _in(self, st, a, param):
        """Truth of `a in <the constructor's `param` string>`: asked directly, or through a string the constructor built by
        concatenation from it (`self._keep = unsafe + ignore`: not in the sum => not in either part)."""
        direct = truth(("cmp", "In", a, self.sattr(param)), st.facts)
        if direct is not None:
            return direct
        for attr, val in self.derived.items():
            parts = flatten(val)
            if all(p[0] == "val" and p[1][0] == "param" for p in parts) and ("val", ("param", param)) in parts:
                t = truth(("cmp", "In", a, ("attr", ("param", "self"), attr)), st.facts)
                if t is False:
                    return False
                if t is True and len(parts) == 1:
                    return True
        return None

    def _escape_syntax(self):
        """Which two characters after '%' make an escape: exactly two hex digits, each in either case. (A table keyed by
        the all-upper and all-lower spellings only, or a pattern with a narrower class, silently stops decoding '%aB'.)"""
        ctx, r = self.ctx, self.r
        rule = f"HX-{self.tag}"
        ctx.rule(rule, floor=1, what="an escape is '%' followed by two hex digits, each in either case")
        hexd = "0123456789abcdefABCDEF"
        want = {a + b for a in hexd for b in hexd}
        if self.backend == "pyx":
            # the compiled unquoter validates through _restore_ch / _from_hex: folded over probe code points
            from .quoter_pyx import CQuoter
            uses = [e for e in r.by_kind("call") if callee_name(e.value) == "_restore_ch"]
            ctx.instance(rule)
            ctx.ob(rule, self.qual, "escape digits validated by _restore_ch", bool(uses),
                   "the compiled unquoter does not validate the two characters after '%' with _restore_ch", where(self.fi, self.fi.node),
                   sample="_restore_ch(d1, d2) != -1 (digit decoder checked by T14)")
            cq = CQuoter.__new__(CQuoter)
            cq.ctx, cq.model = ctx, self.model
            from .quoter_pyx import Tables
            cq.tables = Tables(self.model)
            cq._hex_decode()
            return
        fold = Folder(self.model)
        accepted = []
        seen = set()
        for e in r.by_kind("cond"):
            for t in walk(e.test):
                if t[0] != "call" or t[1][0] != "attr" or id(t) in seen:
                    continue
                recv, meth = t[1][1], t[1][2]
                if meth in ("match", "fullmatch") and len(t[2]) == 1 and t[2][0][0] == "sub" and t[2][0][1] == ("param", "val"):
                    try:
                        pat = fold.fold(recv)
                    except CannotFold:
                        continue
                    from .quoters import regex_two_classes
                    classes = regex_two_classes(pat)
                    if classes is None:
                        raise AnalysisError(f"{self.qual}: escape pattern {pat!r} is not two one-character classes (unknown idiom)")
                    accepted.append((show(t)[:60], {chr(a) + chr(b) for a in classes[0] for b in classes[1]}))
                elif meth == "get" and len(t[2]) >= 1 and t[2][0][0] == "sub" and t[2][0][1] == ("param", "val"):
                    try:
                        table = fold.fold(recv)
                    except CannotFold:
                        continue
                    if isinstance(table, dict):
                        keys = {k.decode("latin1") if isinstance(k, bytes) else k for k in table}
                        bad_vals = sorted(k for k, v in table.items() if isinstance(k, str) and len(k) == 2 and k in want and
                                          (bytes(v) if isinstance(v, (bytes, bytearray)) else v) not in (bytes([int(k, 16)]), int(k, 16), chr(int(k, 16))))
                        if bad_vals:
                            ctx.instance(rule)
                            ctx.ob(rule, self.qual, f"escape table {show(recv)}", False,
                                   f"the escape table maps {bad_vals[:4]} to something other than the byte they denote", where(self.fi, e.node))
                        accepted.append((show(t)[:60], keys))
        if not accepted:
            raise AnalysisError(f"{self.qual}: the test that recognises the two hex digits of an escape was not found "
                                "(neither a two-class pattern nor a table look-up on a slice of the input): unknown idiom")
        for cons, acc in accepted:
            ctx.instance(rule)
            missing, extra = sorted(want - acc), sorted(acc - want)
            ctx.ob(rule, self.qual, cons, not missing and not extra,
                   f"escape digits accepted differ from [0-9A-Fa-f]{{2}}: not recognised e.g. {missing[:4]} ({len(missing)} pairs), "
                   f"wrongly accepted e.g. {extra[:4]} ({len(extra)})", where(self.fi, self.fi.node),
                   sample="all 484 spellings of two hex digits, nothing else")

    def _qs_sets(self, st, t):
        out = []
        for k, v in st.facts.items():
            if k[0] == "cmp" and k[1] == "In" and k[2] == t and k[3][0] == "const" and isinstance(k[3][1], str):
                out.append((frozenset(k[3][1]), v))
        return out

    def _not_in_qs_delims(self, st, t):
        return any((not v) and s >= QS_DELIMS for s, v in self._qs_sets(st, t))

    def _in_qs_delims(self, st, t):
        return any(v and s <= QS_DELIMS | frozenset() or v for s, v in self._qs_sets(st, t))

    def _escape_template(self, parts):
        """['%'] {ord(X):X}  ->  (X, upper?, has '%')"""
        has_pct = False
        if parts and parts[0] == ("lit", "%"):
            has_pct, parts = True, parts[1:]
        if len(parts) == 1 and parts[0][0] == "fmt" and parts[0][2] in ("X", "x", "02X", "02x") and is_call_to(parts[0][1], "ord"):
            return parts[0][1][2][0], parts[0][2].endswith("X"), has_pct
        return None

    def _hex_of(self, t):
        # hex(ord(X)).upper()[2:]
        upper = False
        x = t
        if x[0] == "sub":
            x = x[1]
        if x[0] == "call" and x[1][0] == "attr" and x[1][2] == "upper":
            upper = True
            x = x[1][1]
        if x[0] == "sub":
            x = x[1]
        if is_call_to(x, "hex") and is_call_to(x[2][0], "ord"):
            return x[2][0][2][0], upper
        return None

    def _returns(self):
        ctx, r = self.ctx, self.r
        rule = f"EM-{self.tag}-RETURN"
        ctx.rule(rule, floor=3)
        for s, v, node in r.returns:
            ctx.instance(rule)
            w = where(self.fi, node)
            if v == NONE:
                ctx.ob(rule, self.qual, "return None", s.facts.get(("cmp", "Is", ("param", "val"), NONE)) is True,
                       "None returned for a non-None argument", w, sample="val is None")
            elif v == ("const", ""):
                ctx.ob(rule, self.qual, "return ''", s.facts.get(("param", "val")) is False, "'' for a non-empty argument", w, sample="not val")
            elif v == ("param", "val"):
                eq = any(k[0] == "cmp" and k[1] == "Eq" and fv and ("param", "val") in (k[2], k[3]) and
                         any(is_join(x) for x in (k[2], k[3])) for k, fv in s.facts.items())
                empty = any(k[0] == "cmp" and k[1] == "Eq" and fv and k[3] == ("const", 0) and "val" in show(k[2]) for k, fv in s.facts.items()) \
                    or any(fv is False and k[0] == "call" and callee_name(k) in ("len", "PyUnicode_GET_LENGTH") and
                           k[2] == (("param", "val"),) for k, fv in s.facts.items())
                unchanged = any(k[0] == "phi" and k[2] == "changed" and fv is False for k, fv in s.facts.items())
                if unchanged:
                    unchanged = self._changed_flag_sound()
                ctx.ob(rule, self.qual, "return val", eq or empty or unchanged,
                       "input returned unchanged without comparing with the output / a sound `changed` flag", w,
                       sample="output == val" if eq else ("empty input" if empty else "changed flag never set on a path that alters text"))
            else:
                ctx.ob(rule, self.qual, f"return {show(v)[:80]}", is_join(v), "result is not ''.join(output list)", w,
                       sample="''.join(ret)")

    def _changed_flag_sound(self):
        """pyx: every emission that is not the verbatim unit/slice happens on a path where `changed` was set - at the
        emission, or (when a helper emits and reports it through its result) by the end of the same iteration."""
        ok = True
        for site in self.sites:
            if site["cls"] in ("VERBATIM", "RAW", "PLUS"):
                continue
            st = site["event"].state
            ch = st.env.get("changed")
            if ch != ("const", 1) and ch != ("const", True):
                ok = False
        if ok:
            return True
        # per iteration: whatever the iteration appended besides input units / verbatim slices / the '+' of a '+' requires the flag
        # to be set when the iteration ends
        r = self.r
        lids = [lid for lid, node in r.loops.items() if isinstance(node, ast.While)]
        if not lids:
            return False
        lid = lids[0]
        for s in r.backedges.get(lid, []):
            acc = s.env.get(self.acc)
            other = False
            seen = 0
            while acc is not None and acc != ("phi", lid, self.acc) and seen < 64:
                seen += 1
                if acc[0] == "mut" and acc[2] in ("append", "extend") and len(acc[3]) == 1:
                    a = acc[3][0]
                    same = (a[0] == "sub" and a[1] == ("param", "val") and a[2][0] == "slice") or self.is_unit(a) or a == ("const", "+")
                    other = other or not same
                    acc = acc[1]
                else:
                    other = True        # appended inside an inner loop / unknown update: counts as a change
                    break
            if other and s.env.get("changed") not in (("const", 1), ("const", True)):
                return False
        return True

    def _progress(self):
        ctx, r = self.ctx, self.r
        rule = f"EM-{self.tag}-PROGRESS"
        ctx.rule(rule, floor=1, what="no input unit is consumed without being emitted or buffered in the decoder")
        for lid, states in r.backedges.items():
            node = r.loops[lid]
            if not isinstance(node, ast.While):
                continue
            for s in states:
                if self._assumes_empty_escape(s):
                    continue        # infeasible: the path treats a three-character slice of the input as empty
                ctx.instance(rule)
                acc = s.env.get(self.acc)
                emitted = acc is not None and acc != ("phi", lid, self.acc)
                buffered = any(t[0] == "call" for t in s.trace)
                conds = "; ".join(sorted(show(k)[:60] + "=" + str(v) for k, v in s.facts.items()))[:240]
                ctx.ob(rule, self.qual, f"loop iteration [{conds}]", emitted or buffered,
                       "an iteration consumes input without emitting it or handing it to the decoder",
                       where(self.fi, node), sample="append or decoder call on the path")

    def _read_bounds(self):
        if self.backend != "pyx":
            return
        read_bounds(self.ctx, self.model, self.fi, self.r)


def is_join(v):
    return v[0] == "call" and v[1][0] == "attr" and v[1][2] == "join" and v[1][1] == ("const", "") and len(v[2]) == 1


def linform(t):
    """term -> ({atom: coefficient}, constant) for +, -, unary minus and multiplication by an integer literal; the length of
    the input is the atom ("<len>",). Anything else is an atom of its own."""
    LEN = ("<len>",)
    if t[0] == "const" and isinstance(t[1], int) and not isinstance(t[1], bool):
        return {}, t[1]
    if _is_length(t) and (t == ("param", "length") or (t[2] and t[2][0] == ("param", "val"))):
        return {LEN: 1}, 0
    if t[0] == "unop" and t[1] == "USub":
        d, c = linform(t[2])
        return {k: -v for k, v in d.items()}, -c
    if t[0] == "binop" and t[1] in ("Add", "Sub"):
        (da, ca), (db, cb) = linform(t[2]), linform(t[3])
        sg = 1 if t[1] == "Add" else -1
        d = dict(da)
        for k, v in db.items():
            d[k] = d.get(k, 0) + sg * v
        return {k: v for k, v in d.items() if v}, ca + sg * cb
    if t[0] == "binop" and t[1] == "Mult":
        (da, ca), (db, cb) = linform(t[2]), linform(t[3])
        if not da:
            return {k: v * ca for k, v in db.items() if v * ca}, ca * cb
        if not db:
            return {k: v * cb for k, v in da.items() if v * cb}, ca * cb
    return {t: 1}, 0


def read_bounds(ctx: Ctx, model: Model, fi, r):
    """LA / PX-READ: every PyUnicode_READ(kind, data, i) in a scanning loop is within [0, length)."""
    rule = "LA"
    ctx.rule(rule, floor=3, what="look-ahead and unit reads of the compiled scanners stay inside the string")
    for e in r.by_kind("call"):
        if callee_name(e.value) != "PyUnicode_READ" or len(e.args) != 3:
            continue
        ctx.instance(rule)
        base, c = lin(e.args[2])
        st = e.state
        ok, why = False, "no bound fact"
        if base[0] == "elem" and base[1][0] == "call" and base[1][1] == ("builtin", "range") and len(base[1][2]) == 1 \
                and _is_length(base[1][2][0]) and c == 0:
            ctx.ob(rule, fi.qual, show(e.value), True, where=where(fi, e.node), sample="index drawn from range(length)")
            continue
        if base[0] != "phi":
            ctx.ob(rule, fi.qual, show(e.value), False, "read index is not derived from the loop index", where(fi, e.node))
            continue
        for op, a, b in order_facts(st.facts):
            lb, la = lin(a)
            rb, rbo = lin(b)
            if lb != base:
                continue
            if not _is_length(rb):
                continue
            # base + la < LEN + rbo   =>  base + (la - rbo) < LEN ;  with <= one less
            slack = la - rbo - (0 if op == "Lt" else 1)
            if 0 <= c <= slack:
                ok, why = True, f"{show(a)} {'<' if op == 'Lt' else '<='} {show(b)}"
        if not ok and c >= 0:
            # any other spelling of the bound (`length - idx > 2`, `idx + 3 <= length`): a linear fact m*(idx - LEN) + k <(=) 0
            LEN = ("<len>",)
            for op, a, b in order_facts(st.facts):
                (da, ca), (db, cb) = linform(a), linform(b)
                d = dict(da)
                for k, v in db.items():
                    d[k] = d.get(k, 0) - v
                d = {k: v for k, v in d.items() if v}
                k0 = ca - cb
                if set(d) == {base, LEN} and d[base] == 1 and d[LEN] == -1:
                    upper = -k0 - (1 if op == "Lt" else 0)        # idx - LEN <= upper
                    if c + upper <= -1:
                        ok, why = True, f"{show(a)} {'<' if op == 'Lt' else '<='} {show(b)}"
        if not ok and c == -1:
            # decreasing scan: index starts at the length, is decremented once per iteration, loop runs while index != 0
            srcs = r.phis.get((base[1], base[2]), set())
            dec_only = all(_is_length(x) or lin(x) == (base, -1) or x == base for x in srcs)
            positive = truth(base, st.facts) is True or any(op == "Lt" and a == ("const", 0) and b == base for op, a, b in order_facts(st.facts)) \
                or any(op == "LtE" and a == ("const", 1) and b == base for op, a, b in order_facts(st.facts))
            if dec_only and positive:
                ok, why = True, "decreasing scan from length while index != 0"
        ctx.ob(rule, fi.qual, show(e.value), ok,
               f"PyUnicode_READ at loop index {c:+d} is not bounded by the string length on this path (out-of-bounds read)",
               where(fi, e.node), sample=why)


def _is_length(t):
    return t == ("param", "length") or callee_name(t) in ("PyUnicode_GET_LENGTH", "len")


def pending_flush(ctx: Ctx, model: Model, backend: str):
    """EM-<tag>-PENDING: the bytes of an incomplete UTF-8 sequence are held back in a buffer whose fill count is loop-carried
    (the variable multiplied by 3 to find where the pending escapes began). Output must stay in input order, so every
    emission happens on a path that has accounted for that count in this iteration: it was re-assigned (joined by the new
    byte, flushed, reset) or the path knows it to be zero. An emission under the untouched, untested loop-carried count
    goes out ahead of pending escapes that are flushed later (or never decoded with their continuation)."""
    u = Unquoter(ctx, model, backend)
    rule = f"EM-{u.tag}-PENDING"
    ctx.rule(rule, floor=6, what="every emission happens after the pending multi-byte buffer count was updated or found empty on that path")
    pend = {}
    for e in u.r.events:
        for n, v in e.state.env.items():
            if isinstance(v, tuple) and v and v[0] == "phi" and n not in pend and u._is_pending(v):
                pend[n] = v
    if len(set(pend.values())) == 1 and len(pend) > 1:
        # the same loop-carried value seen under the parameter name of an inlined helper as well: keep the function's own name
        own = [n for n in pend if ":" not in n] or sorted(pend)
        pend = {own[0]: pend[own[0]]}
    if len(pend) != 1:
        raise AnalysisError(f"{u.qual}: the count of pending escape bytes was not identified (candidates {sorted(pend)}): unknown idiom")
    (name, phi), = pend.items()
    seen = set()
    for e in u.r.by_kind("mutate"):
        if e.on_name != u.acc or e.method not in ("append", "extend"):
            continue
        st = e.state
        cur = st.env.get(name)
        if cur != phi:
            ok, how = True, f"{name} re-assigned on the path ({show(cur)[:30]})"
        elif any(t == phi for t in walk(e.args[0])):
            ok, how = True, f"the emission is the flush itself (its bounds are computed from {name})"
        else:
            empty = truth(phi, st.facts) is False or truth(("cmp", "Eq", phi, ("const", 0)), st.facts) is True
            ok, how = empty, f"{name} known to be zero on the path"
        key = (e.node.lineno, ok)
        if key in seen:
            continue
        seen.add(key)
        ctx.instance(rule)
        ctx.ob(rule, u.qual, f"{u.acc}.{e.method}({show(e.args[0])[:60]})", ok,
               f"this emission is reached with the pending-byte count `{name}` neither updated nor tested in the iteration: escapes of an "
               "incomplete multi-byte sequence still held in the buffer come out after it (or are decoded across it): the decoded view is not the "
               "percent-decoding of the raw text", where(u.fi, e.node), sample=how)
