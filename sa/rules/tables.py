"""T3-T7: the derived per-configuration policies against the RFC 3986 oracle, and sibling agreement."""
from __future__ import annotations

from ..model import AnalysisError
from ..oracle import ROLES
from ..report import Ctx

# Role of each quoter = the component its output is stored in. The K rules (sa.rules.kinds) check that each
# quoter's output only reaches slots of this role; a quoter instance not listed here has no oracle and is exit 2.
ROLE_OF = {
    "QUOTER": "userinfo", "REQUOTER": "userinfo",
    "PATH_QUOTER": "path", "PATH_REQUOTER": "path",
    "QUERY_QUOTER": "query", "QUERY_REQUOTER": "query", "QUERY_PART_QUOTER": "querypart",
    "FRAGMENT_QUOTER": "fragment", "FRAGMENT_REQUOTER": "fragment",
}


def s(chars):
    return "".join(sorted(chars))


def role_of(name):
    if name not in ROLE_OF:
        raise AnalysisError(f"quoter instance {name} has no role in the oracle table (new quoter: extend ROLE_OF)")
    return ROLE_OF[name]


def check_policy(ctx: Ctx, backend: str, name: str, cfg: dict, pol: dict, parts):
    """parts: subset of {'upper','lower','pct','protect','term','stable','plus'}"""
    role = role_of(name)
    o = ROLES[role]
    fn = f"_quoters.{name}[{backend}]"
    lit, dec = pol["literal"], pol["decodable"]
    cfgs = ", ".join(f"{k}={v!r}" for k, v in cfg.items())
    if "upper" in parts:
        ctx.instance("T3-upper")
        bad = lit - o["upper"]
        ctx.ob("T3-upper", fn, f"literal set of {role} quoter ({cfgs})", not bad,
               f"characters {s(bad)!r} are left literal but RFC 3986 does not allow them literally in a {role}",
               sample=f"literal {s(lit)!r} within upper bound")
        bad = dec - o["upper"]
        ctx.ob("T3-upper", fn, f"decodable escapes of {role} quoter ({cfgs})", not bad,
               f"escapes of {s(bad)!r} are decoded to characters RFC 3986 does not allow literally in a {role}",
               sample=f"decodable {s(dec)!r} within upper bound")
    if "lower" in parts and o["lower"] is not None and pol["escapes"]:
        ctx.instance("T3-lower")
        missing = o["lower"] - lit
        ctx.ob("T3-lower", fn, f"literal set of {role} requoter ({cfgs})", not missing,
               f"characters {s(missing)!r} are legal literally in a {role} but the requoter escapes them: an "
               "already-canonical URL would be rewritten", sample=f"lower bound {len(o['lower'])} chars all literal")
    if "pct" in parts:
        ctx.instance("T4")
        ctx.ob("T4", fn, f"'%' and space in {role} quoter ({cfgs})",
               "%" not in lit and "%" not in dec and " " not in lit and " " not in dec,
               "'%' or space is literal / decodable: output would contain a bare '%' or a raw space",
               sample="'%' and ' ' neither literal nor decodable")
    if "protect" in parts:
        ctx.instance("T5")
        need_ = o["protect"]
        bad_dec = need_ & dec
        bad_lit = need_ - lit
        ctx.ob("T5", fn, f"delimiters {s(need_)!r} of {role} quoter ({cfgs})", not bad_dec and not bad_lit,
               f"delimiter status not preserved: escaped {s(bad_dec)!r} would be decoded / literal {s(bad_lit)!r} would be escaped",
               sample=f"{s(need_)!r}: literal stays literal, escaped stays escaped")
    if "keep" in parts and o.get("keep") and pol["escapes"]:
        ctx.instance("T5-keep")
        need_ = o["keep"]
        bad_dec = need_ & dec
        bad_lit = need_ - lit
        ctx.ob("T5-keep", fn, f"escapes of {s(need_)!r} in an already-canonical {role} ({cfgs})", not bad_dec and not bad_lit,
               f"an already-canonical {role} is rewritten: escaped {s(bad_dec)!r} would be decoded / literal {s(bad_lit)!r} would be "
               "escaped ('%2B' and '+' are different data for anything that form-decodes the path)",
               sample=f"{s(need_)!r}: literal stays literal, escaped stays escaped")
    if "term" in parts:
        ctx.instance("T6")
        bad = (lit | dec) & o["term"]
        ctx.ob("T6", fn, f"terminators {s(o['term'])!r} of {role} ({cfgs})", not bad,
               f"{s(bad)!r} ends the {role} for the parser but can appear literally in the encoded {role}",
               sample="no terminator literal or decodable")
    if "stable" in parts:
        ctx.instance("T-stable")
        bad = dec - lit
        ctx.ob("T-stable", fn, f"decodable within literal ({cfgs})", not bad,
               f"escapes of {s(bad)!r} are decoded although the characters are not literal-safe (a second pass re-escapes them)",
               sample="decodable is a subset of literal")
    if "plus" in parts:
        ctx.instance("T-plus")
        ctx.ob("T-plus", fn, f"space handling ({cfgs})", (not pol["plus"]) or role in ("query", "querypart"),
               f"space is written as '+' in a {role}, where '+' does not mean space", sample="'+' for space only in queries")


def check_fixpoint(ctx: Ctx, backend: str, pols: dict):
    """What the non-requoting quoter of a component writes must be stable under that component's requoter (the canonical
    string is parsed again through the requoters): a character the quoter escapes must not be one whose escape the requoter
    decodes, and a character the quoter leaves literal must not be one the requoter escapes."""
    rule = "T-fix"
    ctx.rule(rule, floor=3, what="quoter output is a fixed point of the same component's requoter")
    pairs = [("QUOTER", "REQUOTER"), ("PATH_QUOTER", "PATH_REQUOTER"), ("QUERY_QUOTER", "QUERY_REQUOTER"),
             ("FRAGMENT_QUOTER", "FRAGMENT_REQUOTER"), ("QUERY_PART_QUOTER", "QUERY_REQUOTER")]
    for qn, rn in pairs:
        if qn not in pols or rn not in pols:
            continue
        q, r = pols[qn], pols[rn]
        ctx.instance(rule)
        ascii_chars = {chr(i) for i in range(0x21, 0x7F)}
        escaped_by_q = ascii_chars - q["literal"]
        decoded_back = sorted(escaped_by_q & r["decodable"])
        re_escaped = sorted((q["literal"] & ascii_chars) - r["literal"])
        ctx.ob(rule, f"_quoters.{qn}/{rn}[{backend}]", f"{qn} output under {rn}", not decoded_back and not re_escaped,
               f"{qn} escapes {s(set(decoded_back))!r} but {rn} decodes those escapes, and leaves {s(set(re_escaped))!r} literal although "
               f"{rn} escapes them: str(url) is not a fixed point of parsing", sample="escaped stays escaped, literal stays literal")


def check_siblings(ctx: Ctx, name, cfg, py, cy):
    ctx.instance("T7")
    diffs = []
    for k in ("literal", "decodable"):
        if py[k] != cy[k]:
            diffs.append(f"{k}: only py {s(py[k] - cy[k])!r}, only pyx {s(cy[k] - py[k])!r}")
    for k in ("plus", "escapes"):
        if py[k] != cy[k]:
            diffs.append(f"{k}: py {py[k]} pyx {cy[k]}")
    ctx.ob("T7", f"_quoters.{name}", "derived policy of the two backends", not diffs,
           "pure-Python and compiled quoter disagree: " + "; ".join(diffs), sample="literal, decodable, '+', escape handling agree")
