"""TPL1 / TPL2 (C03, C07, C11): the printer and the parser agree.

Both `unsplit_result` and `make_netloc`/`split_netloc` branch only on emptiness, a leading-character test and set
membership of their arguments, so a finite table of argument classes covers every path. For each class the guard facts
of every return path are folded on a representative (constant evaluation by the checker's own evaluator - no repository
code runs), the matching path's return template is folded, and the resulting text is decomposed with the fixed RFC 3986
Appendix B regular expression: the parts must come back. A path no class reaches, or a guard that is not foldable from
the class representatives, is exit 2."""
from __future__ import annotations

import itertools
import re

from ..fold import CannotFold, Folder
from ..interp import analyze
from ..model import AnalysisError
from ..report import Ctx, where
from ..terms import show

APPENDIX_B = re.compile(r"^(([^:/?#]+):)?(//([^/?#]*))?([^?#]*)(\?([^#]*))?(#(.*))?\Z", re.S)   # RFC 3986 Appendix B

SCHEMES = {"empty": "", "with authority (http)": "http", "other (x-y)": "x-y"}
NETLOCS = {"empty": "", "set": "h"}
PATHS = {"empty": "", "rooted": "/p", "double-slash": "//p", "rootless": "p", "rootless with ':' in the first segment": "a:b"}
QUERIES = {"empty": "", "set": "q"}
FRAGMENTS = {"empty": "", "set": "f"}


def eval_paths(model, fi, r, bindings, what):
    """Fold every return path's guards under the bindings; return (value, state index) of the unique feasible path."""
    f = Folder(model, {("param", k): v for k, v in bindings.items()})
    hits = []
    for i, (s, v, _n) in enumerate(r.returns):
        ok = True
        for k, fv in s.facts.items():
            try:
                if bool(f.fold(k)) != fv:
                    ok = False
                    break
            except CannotFold as e:
                raise AnalysisError(f"{fi.qual}: guard {show(k)[:60]} is not a function of the argument classes ({e}); "
                                    f"the finite table for {what} no longer covers this code")
        if ok:
            try:
                hits.append((f.fold(v), i))
            except CannotFold as e:
                raise AnalysisError(f"{fi.qual}: return template {show(v)[:60]} cannot be folded: {e}")
    for s, v, _n in r.raises:
        ok = True
        for k, fv in s.facts.items():
            try:
                if bool(f.fold(k)) != fv:
                    ok = False
                    break
            except CannotFold:
                ok = False
                break
        if ok:
            in_handler = any(c[0] == "except" for c in s.ctx)
            if not (in_handler and hits):     # a handler is entered only if the guarded call failed; a feasible normal path wins
                hits.append((("raise", show(v)[:40]), -1))
    if len({h[0] if not isinstance(h[0], list) else tuple(h[0]) for h in hits}) != 1:
        raise AnalysisError(f"{fi.qual}: {len(hits)} feasible paths for {bindings}")
    return hits[0]


def tpl1(ctx: Ctx, parse_reachable_only=False):
    """`parse_reachable_only`: only the part classes the splitter can produce from a string (C07's clause is about parsed input):
    without a scheme the first path segment holds no ':' - such text would have been cut as a scheme."""
    model = ctx.model
    rule = "TPL1"
    ctx.rule(rule, floor=90, what="what the printer emits is what the splitter cuts (RFC 3986 Appendix B), for every class of parts")
    fi = model.func("_parse.unsplit_result")
    r = analyze(model, fi, merge=False)
    ctx.functions.add(fi.qual)
    params = fi.params
    covered = set()
    groups = {}
    for (sn, sv), (nn, nv), (pn, pv), (qn, qv), (fn, fv) in itertools.product(SCHEMES.items(), NETLOCS.items(), PATHS.items(),
                                                                               QUERIES.items(), FRAGMENTS.items()):
        if nv and pv and not pv.startswith("/"):
            continue       # an authority with a rootless path is not a URL the library constructs from valid input
        if parse_reachable_only and not sv and pv == "a:b":
            continue
        b = dict(zip(params, (sv, nv, pv, qv, fv)))
        text, idx = eval_paths(model, fi, r, b, "unsplit_result")
        covered.add(idx)
        ctx.instance(rule)
        m = APPENDIX_B.match(text) if isinstance(text, str) else None
        got = None
        if m:
            got = (m.group(2) or "", m.group(4) or "", m.group(5) or "", m.group(7) or "", m.group(9) or "")
        ok = got == (sv, nv, pv, qv, fv)
        key = f"scheme {sn}, authority {nn}, path {pn}"
        g = groups.setdefault(key, [[], None])
        g[0].append(ok)
        if not ok and g[1] is None:
            g[1] = (text, got, (sv, nv, pv, qv, fv))
    missing = set(range(len(r.returns))) - covered
    if missing:
        ctx.note(f"TPL1: {len(missing)} of {len(r.returns)} return path states of unsplit_result are reached only by the excluded "
                 "class (authority with a rootless path) or are infeasible combinations of the guards")
    for key, (oks, ex) in groups.items():
        if all(oks):
            ctx.ob(rule, fi.qual, f"printed form of [{key}]", True, sample="re-parses to the same five parts (all query/fragment variants)")
        else:
            text, got, want = ex
            ctx.ob(rule, fi.qual, f"printed form of [{key}]", False,
                   f"parts {want} are printed as {text!r}, which RFC 3986 Appendix B decomposes into {got}: str(url) does not "
                   "re-parse to the same URL", where(fi, fi.node))


USERS = {"absent": None, "empty": "", "set": "u"}
PASSWORDS = {"absent": None, "empty": "", "set": "p"}
HOSTS = {"reg-name": ("h", "h"), "IPv6 in brackets": ("[::1]", "::1"), "empty": ("", None)}
PORTS = {"absent": None, "zero": 0, "set": 8080}


def tpl2(ctx: Ctx):
    model = ctx.model
    rule = "TPL2"
    ctx.rule(rule, floor=50, what="split_netloc(make_netloc(user, password, host, port)) returns the parts (''->None for the user)")
    mk, sp = model.func("_parse.make_netloc"), model.func("_parse.split_netloc")
    rmk, rsp = analyze(model, mk, merge=False), analyze(model, sp, merge=False)
    ctx.functions.update([mk.qual, sp.qual])
    for (un, u), (pn, p), (hn, (h, hraw)), (on, o) in itertools.product(USERS.items(), PASSWORDS.items(), HOSTS.items(), PORTS.items()):
        b = dict(user=u, password=p, host=h, port=o, encode=False)
        text, _ = eval_paths(model, mk, rmk, b, "make_netloc")
        ctx.instance(rule)
        if not isinstance(text, str):
            ctx.ob(rule, mk.qual, f"[user {un}, password {pn}, host {hn}, port {on}]", False, f"make_netloc does not return text: {text}")
            continue
        back, _ = eval_paths(model, sp, rsp, {sp.params[0]: text}, "split_netloc")
        want = (u or None, p if (u is not None or p is not None) else None, hraw, o)
        # an empty user with no password leaves no '@' at all: the password (None) is unaffected
        ok = tuple(back) == want if isinstance(back, (tuple, list)) else False
        ctx.ob(rule, sp.qual, f"[user {un}, password {pn}, host {hn}, port {on}]", ok,
               f"make_netloc gives {text!r}, which split_netloc takes apart as {back}; expected {want}", where(sp, sp.node),
               sample=f"{text!r} -> {want}")
        if ok:
            # ... and printing what was parsed gives the same authority again (str(url) is re-parsed and re-printed: a
            # redundant '@' or ':' that parses away would make the canonical string unstable)
            b2 = dict(user=back[0], password=back[1], host=h, port=back[3], encode=False)
            text2, _ = eval_paths(model, mk, rmk, b2, "make_netloc")
            ctx.instance(rule)
            ctx.ob(rule, mk.qual, f"[user {un}, password {pn}, host {hn}, port {on}] printed again", text2 == text,
                   f"make_netloc gives {text!r}; parsed and printed again it is {text2!r}: the canonical string is not a fixed point",
                   where(mk, mk.node), sample=f"{text!r} stable")


def acc_pq(ctx: Ctx):
    """ACC-PQ: `raw_path_qs` is `raw_path` followed by '?' + the raw query when there is one - for every class of (authority,
    path, query) the accessors branch on. It is the request-target the raw accessors are re-composed into; an accessor that
    applies its own empty-path rule ('/' without the authority condition) names a path the URL does not have."""
    model = ctx.model
    rule = "ACC-PQ"
    ctx.rule(rule, floor=8, what="raw_path_qs == raw_path + ('?' + raw_query_string if any), over all (authority, path, query) classes")
    S = ("param", "self")
    fp, fq = model.func("_url.URL.raw_path"), model.func("_url.URL.raw_path_qs")
    rp, rq = analyze(model, fp, merge=False), analyze(model, fq, merge=False)
    ctx.functions.update([fp.qual, fq.qual])

    def fold_accessor(fi, r, leaves):
        f = Folder(model, leaves)
        hits = []
        for s, v, _n in r.returns:
            try:
                if all(bool(f.fold(k)) == fv for k, fv in s.facts.items()):
                    hits.append(f.fold(v))
            except CannotFold as e:
                raise AnalysisError(f"{fi.qual}: not a function of the stored authority / path / query classes ({e}) (unknown idiom)")
        if len(set(hits)) != 1:
            raise AnalysisError(f"{fi.qual}: {len(set(hits))} feasible results for one class of parts (unknown idiom)")
        return hits[0]

    for nn, nv in NETLOCS.items():
        for pn, pv in (("empty", ""), ("rooted", "/p"), ("rootless", "p")):
            if nv and pv and not pv.startswith("/"):
                continue
            for qn, qv in QUERIES.items():
                leaves = {("attr", S, "_netloc"): nv, ("attr", S, "_path"): pv, ("attr", S, "_query"): qv}
                path = fold_accessor(fp, rp, leaves)
                leaves.update({("attr", S, "raw_path"): path, ("attr", S, "raw_query_string"): qv})
                got = fold_accessor(fq, rq, leaves)
                want = path + ("?" + qv if qv else "")
                ctx.instance(rule)
                ctx.ob(rule, fq.qual, f"[authority {nn}, path {pn}, query {qn}]", got == want,
                       f"raw_path_qs is {got!r} where raw_path is {path!r} and the raw query {qv!r}: the accessors do not re-compose "
                       f"(expected {want!r})", where(fq, fq.node), sample=repr(want))
