"""SH1-SH3 and EX1-EX5 (C19): no constant subscript on a possibly-empty sequence, no Optional dereference,
no cache-key load without a preceding store; raise types; asserts; recursion; list.pop discipline."""
from __future__ import annotations

import ast

from ..interp import analyze, analyze_precise, truth
from ..model import AnalysisError, Model
from ..report import Ctx, where
from ..shape import E, N, NE, TOP, Shapes
from ..terms import NONE, show, walk

PICKLE_PROTOCOL = {"_url.URL.__setstate__"}     # indexes the pickle state tuple: trusted input by contract (B7)


def cache_root(t):
    while t[0] == "mut":
        t = t[1]
    return t


def is_self_cache(t):
    t = cache_root(t)
    return t == ("attr", ("param", "self"), "_cache")


def functions(model: Model, backends=("py",)):
    return [fi for fi in model.all_funcs(backends)]


def _sh1_sites(shapes, fi, r):
    sites = {}
    for e in r.by_kind("sub", "store_sub"):
        idx = e.index
        if idx[0] == "slice" or (idx[0] == "const" and not isinstance(idx[1], int)) or isinstance(idx[1] if idx[0] == "const" else 0, bool):
            continue
        node = e.node if e.kind == "sub" else e.target
        if idx[0] != "const":
            # variable index: only the `while i < len(x): x[i]` idiom
            ok = truth(("cmp", "Lt", idx, ("call", ("builtin", "len"), (e.base,), ())), e.state.facts) is True
            if not ok and not _mapping_like(e.base):
                # a computed index without a visible bound is not decided by this rule (it would need value ranges);
                # the compiled scanners' reads, where the bound matters most, are covered by LA
                continue
            elif ok:
                sites.setdefault((id(node), "var"), [node, show(e.base), show(idx), []])[3].append(("i < len(x)", True))
            continue
        shp = shapes.shape(e.base, e.state.facts, fi, None, r)
        ok = not (shp & {E, N}) or shp == frozenset() or suppressed_index_error(e.state)
        key = (id(node), idx[1])
        sites.setdefault(key, [node, show(e.base), show(idx), []])[3].append((sorted(shp), ok))
    return sites


def _only_called_from(model, fi, quals):
    """A private helper whose every use in the package is a call from one of `quals` (e.g. the state-unpacking helper of
    __setstate__) shares their contract."""
    if not fi.name.startswith("_") or (fi.name.startswith("__") and fi.name.endswith("__")):
        return False
    users = set()
    for other in model.all_funcs(helpers=True):
        if other is fi:
            continue
        for n in ast.walk(other.node):
            if (isinstance(n, ast.Attribute) and n.attr == fi.name) or (isinstance(n, ast.Name) and n.id == fi.name):
                users.add(other.qual)
    return bool(users) and users <= set(quals)


def sh1(ctx: Ctx, shapes: Shapes, funcs=None, floor=25):
    rule = "SH1"
    ctx.rule(rule, floor=floor, what="every constant-index subscript on a str/list/tuple is dominated by a non-emptiness fact")
    model = ctx.model
    for fi in (funcs or functions(model)):
        if fi.qual in PICKLE_PROTOCOL or _only_called_from(shapes.model, fi, PICKLE_PROTOCOL):
            continue
        r = analyze(model, fi)
        ctx.functions.add(fi.qual)
        sites = _sh1_sites(shapes, fi, r)
        if any(not ok for (_n, _b, _i, results) in sites.values() for _s, ok in results):
            # merging keeps facts per value and can lose "kwargs empty => len(args) == 1"-style correlations between two
            # values: a site is reported only if it is still unproved when every path is kept apart
            r2 = analyze_precise(model, fi)
            if r2 is not r:
                sites = _sh1_sites(shapes, fi, r2)
        for (_, _i), (node, base, idx, results) in sites.items():
            ctx.instance(rule)
            bad = [s for s, ok in results if not ok]
            ctx.ob(rule, fi.qual, f"{ast.unparse(node) if hasattr(node, 'lineno') else base}", not bad,
                   f"subscript [{idx}] on a value that can be empty on some path (shapes {bad[:2]}): IndexError",
                   where(fi, node), sample=f"non-empty on all {len(results)} reaching state(s)")


def suppressed(state, exc, supers):
    """Inside `with suppress(<exc>)` or a `try` whose handler catches <exc> (or a superclass) the failing operation is the
    handled case."""
    names = (exc,) + tuple(supers)
    for c in state.ctx:
        if c[0] == "with" and any("suppress" in show(x) and any(n in show(x) for n in names) for x in c[1]):
            return True
        if c[0] == "try" and any(h in names or (h.startswith("(") and any(n in h for n in names)) for h in c[1]):
            return True
    return False


def suppressed_index_error(state):
    return suppressed(state, "IndexError", ("LookupError", "Exception", "BaseException"))


def _mapping_like(t):
    r = cache_root(t)
    return r[0] in ("dict",) or (r[0] == "attr" and r[2] == "_cache") or r[0] == "global"


def sh2(ctx: Ctx, shapes_unused: Shapes, funcs=None, floor=10):
    shapes = Shapes(ctx.model, unknown=TOP - {N})     # unknown values are assumed non-None: only known Optionals count
    rule = "SH2"
    ctx.rule(rule, floor=floor, what="a value that may be None is dereferenced only under a non-None / truthy fact")
    model = ctx.model
    for fi in (funcs or functions(model)):
        r = analyze(model, fi)
        sites = {}
        for e in r.events:
            if e.kind == "attr":
                obj, what, node = e.obj, f".{e.attr}", e.node
            elif e.kind == "sub":
                obj, what, node = e.base, "[...]", e.node
            elif e.kind == "cond" and e.test[0] == "cmp" and e.test[1] in ("In", "NotIn"):
                obj, what, node = e.test[3], "in", e.node if hasattr(e.node, "lineno") else e.stmt
            else:
                continue
            if obj[0] in ("param",) and obj[1] in ("self", "cls"):
                continue
            shp = shapes.shape(obj, e.state.facts, fi, None, r)
            if shp >= TOP - {N} or not shp:
                continue
            # only values whose Optional-ness is *known* (annotation / summary), never unknowns
            sites.setdefault((id(node), what), [node, show(obj), what, []])[3].append((sorted(shp), N not in shp))
        for (node, obj, what, results) in sites.values():
            ctx.instance(rule)
            bad = [s for s, ok in results if not ok]
            ctx.ob(rule, fi.qual, f"{obj}{what}", not bad,
                   f"`{obj}` can be None here (shapes {bad[:1]}) but is dereferenced ({what}): AttributeError/TypeError",
                   where(fi, node), sample="not None on every reaching state")


def cache_stores(model: Model, fi):
    """key -> list of (value term, state) for stores into self._cache / a dict that becomes _cache, plus the
    set of keys stored on *every* normal exit of the function."""
    tr = lambda kind, t: kind == "store_sub"
    r = analyze(model, fi, trace=tr, trace_key="store_sub")
    stores = {}
    for e in r.by_kind("store_sub"):
        if e.index[0] == "const" and isinstance(e.index[1], str):
            stores.setdefault(e.index[1], []).append((e.value, e.state, cache_root(e.base)))
    exits = [s for s, _v, _n in r.returns] + list(r.falls)
    always = None
    for s in exits:
        keys = {t[1][2][1] for t in s.trace if t[0] == "store" and t[1][0] == "sub" and t[1][2][0] == "const"}
        always = keys if always is None else always & keys
    return stores, (always or set()), r


def sh3(ctx: Ctx, floor=4):
    rule = "SH3"
    ctx.rule(rule, floor=floor, what="every self._cache[k] load is preceded on all paths by a store of k")
    model = ctx.model
    methods = model.methods("_url", "URL")
    filler = {}
    for name, fi in methods.items():
        stores, always, _ = cache_stores(model, fi)
        if always:
            filler[name] = always
    tr = lambda kind, t: kind == "call" and t[1][0] == "attr" and t[1][1] == ("param", "self")
    for name, fi in methods.items():
        r = analyze(model, fi, trace=tr, trace_key="selfcalls")
        for e in r.by_kind("sub"):
            if not (is_self_cache(e.base) and e.index[0] == "const" and isinstance(e.index[1], str)):
                continue
            ctx.instance(rule)
            k = e.index[1]
            ok = any(t[0] == "call" and t[1][2] in filler and k in filler[t[1][2]] for t in e.state.trace) or \
                suppressed(e.state, "KeyError", ("LookupError", "Exception", "BaseException"))     # EAFP: the miss is handled
            ctx.ob(rule, fi.qual, f"self._cache[{k!r}]", ok,
                   f"cache key {k!r} is loaded without a preceding call that stores it on every path: KeyError",
                   where(fi, e.node), sample="preceded by a call to a method that always stores the key")


def ex_rules(ctx: Ctx, shapes: Shapes, funcs=None):
    model = ctx.model
    r1 = "EX1"
    ctx.rule(r1, floor=40, what="every reachable raise constructs ValueError/TypeError or re-raises")
    r2 = "EX2"
    ctx.rule(r2, what="no assert outside `if TYPE_CHECKING`")
    r5 = "EX5"
    # no floor: an implementation without any pop()/del is fine; instead the rule proves on every run that it still fires
    # on a built-in positive example and stays silent on its guarded twin
    ctx.rule(r5, floor=0, what="list.pop() / del list[i] only under suppress(IndexError) or a non-empty fact")
    _ex5_selfcheck(model)
    r8 = "EX8"
    # no floor (the package has no such lookup today): proved alive on built-in examples on every run
    ctx.rule(r8, floor=0, what="raising mapping lookups (popall/popone/getone/getall, dict.pop(k), set.remove(k)) never take a caller-supplied key unguarded")
    _ex8_selfcheck(model)
    for fi in (funcs or functions(model)):
        r = analyze(model, fi)
        seen8 = {}
        for e, key, what in _raising_lookups(r):
            seen8.setdefault(id(e.node), [e.node, what, []])[2].append(_lookup_safe(e, key))
        for node, what, oks in seen8.values():
            ctx.instance(r8)
            ctx.ob(r8, fi.qual, what, all(oks),
                   f"{what} raises KeyError when the key is missing, and the key comes straight from the caller with no membership "
                   "test or handler on the path: a KeyError leaks from a public call", where(fi, node), sample="key known present / KeyError handled")
        sites = {}
        for e in r.by_kind("raise"):
            exc = e.exc
            name = None
            if exc == ("const", "<reraise>"):
                name = "<reraise>"
            elif exc[0] == "call" and exc[1][0] == "builtin":
                name = exc[1][1]
            elif exc[0] == "builtin":
                name = exc[1]
            else:
                name = show(exc)
            dead = shapes_contradiction(shapes, e.state, fi, r)
            sites.setdefault(id(e.node), [e.node, name, []])[2].append(dead)
        for node, name, deads in sites.values():
            ctx.instance(r1)
            allowed = name in ("ValueError", "TypeError", "<reraise>")
            if not allowed and all(deads):
                ctx.ob(r1, fi.qual, f"raise {name}", True, where=where(fi, node),
                       sample="unreachable: the guarding `is None` test contradicts the callee's None summary")
                continue
            ctx.ob(r1, fi.qual, f"raise {name}", allowed,
                   f"raises {name}, which is neither ValueError nor TypeError", where(fi, node), sample=name)
        for e in r.by_kind("assert"):
            ctx.instance(r2)
            ctx.ob(r2, fi.qual, f"assert {show(e.test)}", False, "assert reachable at run time (AssertionError can leak)",
                   where(fi, e.node))
        for e in _removals(r):
            ctx.instance(r5)
            sup, ne = _removal_safe(e)
            ctx.ob(r5, fi.qual, f"{show(e.recv)}.pop()" if e.method == "pop" else f"del {show(e.recv)}[{show(e.args[0])}]", sup or ne,
                   "pop() / del [i] on a possibly empty list outside suppress(IndexError)",
                   where(fi, e.node), sample="inside suppress(IndexError)" if sup else "non-empty")


def _removals(r):
    """removal of the last / a fixed element: x.pop() or del x[i] (same IndexError on an empty list)"""
    return [e for e in r.by_kind("mutate")
            if (e.method == "pop" and not e.args) or (e.method == "delitem" and e.args and e.args[0][0] == "const")]


def _removal_safe(e):
    return suppressed_index_error(e.state), truth(e.recv, e.state.facts) is True


KEY_RAISING = {"popall", "popone", "getone", "getall"}       # multidict: KeyError without a default
_PASS_THROUGH = {"set", "tuple", "list", "sorted", "frozenset", "reversed", "iter", "dict"}


def _caller_key(t):
    """The key is the caller's own value: a parameter, or an element of one (through copying containers)."""
    while True:
        if t[0] == "param":
            return t[1] not in ("self", "cls")
        if t[0] in ("elem", "sub", "item"):
            t = t[1]
        elif t[0] == "call" and t[1][0] == "builtin" and t[1][1] in _PASS_THROUGH and len(t[2]) == 1:
            t = t[2][0]
        else:
            return False


def _raising_lookups(r):
    for e in r.by_kind("call"):
        f = e.func
        if f[0] != "attr" or len(e.args) != 1 or e.kwargs:
            continue
        recv, m = f[1], f[2]
        root = cache_root(recv)
        mapping = root[0] in ("dict", "dictcomp") or (root[0] == "call" and root[1][-1] in ("dict", "MultiDict", "CIMultiDict", "defaultdict", "OrderedDict"))
        a_set = root[0] in ("set", "setcomp") or (root[0] == "call" and root[1][-1] == "set")
        if m in KEY_RAISING or (m == "pop" and mapping) or (m == "remove" and a_set):
            if _caller_key(e.args[0]):
                yield e, e.args[0], f"{show(recv)[:40]}.{m}({show(e.args[0])[:30]})"


def _lookup_safe(e, key):
    recv = e.func[1]
    if suppressed(e.state, "KeyError", ("LookupError", "Exception", "BaseException")):
        return True
    f = e.state.facts
    return truth(("cmp", "In", key, recv), f) is True or truth(("cmp", "In", key, ("call", ("attr", recv, "keys"), (), ())), f) is True


_EX8_EXAMPLES = (
    ("def f(self, *names):\n    q = MultiDict(self._pairs)\n    for n in names:\n        q.popall(n)\n    return q\n", [False]),
    ("def f(self, name):\n    d = dict(self._x)\n    return d.pop(name)\n", [False]),
    ("def f(self, *names):\n    q = MultiDict(self._pairs)\n    for n in set(names):\n        if n in q:\n            q.popall(n)\n    return q\n", [True]),
    ("def f(self, name):\n    q = MultiDict(self._pairs)\n    try:\n        q.popone(name)\n    except KeyError:\n        pass\n    return q\n", [True]),
    ("def f(self, name):\n    d = dict(self._x)\n    return d.pop(name, None)\n", []),
)


def _ex8_selfcheck(model):
    from ..model import FuncInfo
    for i, (src, want) in enumerate(_EX8_EXAMPLES):
        node = ast.parse(src).body[0]
        r = analyze(model, FuncInfo("_url", "URL", f"<ex8-example-{i}>", node))
        got = [_lookup_safe(e, k) for e, k, _w in _raising_lookups(r)]
        if got != want:
            raise AnalysisError(f"EX8 self-check: the rule judges {src!r} as {got}, expected {want}")


_EX5_EXAMPLES = (
    ("def f(xs):\n    xs.pop()\n", False),
    ("def f(xs):\n    del xs[-1]\n", False),
    ("def f(xs):\n    if xs:\n        xs.pop()\n", True),
    ("def f(xs):\n    from contextlib import suppress\n    with suppress(IndexError):\n        del xs[-1]\n", True),
)


def _ex5_selfcheck(model):
    from ..model import FuncInfo
    for i, (src, want) in enumerate(_EX5_EXAMPLES):
        node = ast.parse(src).body[0]
        r = analyze(model, FuncInfo("_path", None, f"<ex5-example-{i}>", node))
        got = [any(_removal_safe(e)) for e in _removals(r)]
        if got != [want]:
            raise AnalysisError(f"EX5 self-check: the rule judges {src!r} as {got}, expected [{want}]")


def shapes_contradiction(shapes: Shapes, state, fi, res):
    """A path condition that contradicts the shape of the term it constrains is infeasible:
    `t is None` where t's summary never yields None; `t` truthy where t can only be empty/None/0; and dually."""
    from ..shape import FALSY, TRUTHY
    for k, v in state.facts.items():
        if k[0] == "cmp" and k[1] == "Is" and k[3] == NONE:
            t = k[2]
            others = {kk: vv for kk, vv in state.facts.items() if kk != k and kk != t}
            s = shapes.shape(t, others, fi, None, res)
            if s and s != TOP and ((v and N not in s) or ((not v) and s <= {N})):
                return True
        elif k[0] in ("call", "attr", "sub", "item", "fstr", "binop"):
            others = {kk: vv for kk, vv in state.facts.items() if kk != k and not (kk[0] == "cmp" and kk[2] == k)}
            s = shapes.shape(k, others, fi, None, res)
            if s and s != TOP and ((v and s <= FALSY) or ((not v) and s <= TRUTHY)):
                return True
    return False


def ex3_acyclic(ctx: Ctx, shapes: Shapes):
    """EX3: the call graph over package functions, methods and memoised properties has no cycle."""
    rule = "EX3"
    model = ctx.model
    ctx.rule(rule, floor=1, what="no recursion in the package (RecursionError cannot arise from package code)")
    graph = {}
    for fi in functions(model):
        r = analyze(model, fi)
        out = set()
        for e in r.by_kind("call"):
            t = shapes.callee(e.value, fi)
            if t is not None:
                out.add(t.qual)
        for e in r.by_kind("attr"):
            if e.obj == ("param", "self") and fi.cls and model.has_func(f"{fi.module}.{fi.cls}.{e.attr}"):
                out.add(f"{fi.module}.{fi.cls}.{e.attr}")
        # implicit calls of the object's own dunders: f"{self!r}" / repr(self) -> __repr__, f"{self}" / str(self) -> __str__,
        # hash(self) -> __hash__, bytes(self) -> __bytes__ (an error message that prints the object re-enters its accessors)
        if fi.cls:
            me = ("param", "self")
            for e in r.events:
                for val in e.data.values():
                    if not (isinstance(val, tuple) and val and isinstance(val[0], str)):
                        continue
                    for t in walk(val):
                        dunder = None
                        if t[0] == "fstr":
                            for p in t[1]:
                                if p[0] == "fmt" and p[1] == me:
                                    dunder = "__repr__" if p[2] in ("r", "a") else "__str__"
                        elif t[0] == "call" and t[1][0] == "builtin" and t[1][1] in ("str", "repr", "hash", "bytes", "format", "ascii") and t[2][:1] == (me,):
                            dunder = {"str": "__str__", "repr": "__repr__", "hash": "__hash__", "bytes": "__bytes__", "format": "__str__",
                                      "ascii": "__repr__"}[t[1][1]]
                        elif t[0] == "binop" and t[1] == "Mod" and t[2][0] == "const" and isinstance(t[2][1], str) and (t[3] == me or (t[3][0] == "tuple" and me in t[3][1])):
                            dunder = "__repr__" if "%r" in t[2][1] else "__str__"
                        if dunder and model.has_func(f"{fi.module}.{fi.cls}.{dunder}"):
                            out.add(f"{fi.module}.{fi.cls}.{dunder}")
        graph[fi.qual] = out
    # Tarjan-free cycle search (graph is tiny)
    color = {}
    cycle = []

    def dfs(u, stack):
        color[u] = 1
        for v in sorted(graph.get(u, ())):
            if color.get(v) == 1:
                cycle.append(stack + [u, v])
                return True
            if color.get(v) is None and dfs(v, stack + [u]):
                return True
        color[u] = 2
        return False

    for u in sorted(graph):
        if color.get(u) is None and dfs(u, []):
            break
    ctx.instance(rule)
    ctx.ob(rule, "<package>", "call graph", not cycle, "recursive cycle: " + " -> ".join(cycle[0]) if cycle else "",
           sample=f"{len(graph)} functions, {sum(len(v) for v in graph.values())} edges, acyclic")
    return graph


def _none_confirmed(model, shapes, a, st, fi):
    """Before a possibly-None value is reported: when it is the result of a package function, follow the call with the
    parameters bound to the caller's argument terms under the caller's facts (what the callee returns for *these*
    arguments, e.g. a truthy one, may exclude None although its summary does not). True = still possibly None."""
    from ..interp import Analyzer, State
    if a[0] != "call" or a[1][0] != "global" or a[1][1] not in model.modules:
        return True
    rr = model.resolve_global(a[1][1], a[1][2])
    if not rr or rr[0] not in ("func", "memo_alias") or rr[1].backend != "py":
        return True
    target = rr[1]
    an = target.node.args
    pos = [x.arg for x in an.posonlyargs + an.args]
    args = [x for x in a[2]]
    if any(x[0] == "star" for x in args) or any(k is None for k, _v in a[3]):
        return True
    bind = dict(zip(pos, args))
    if len(args) > len(pos):
        if an.vararg is None:
            return True
        bind[an.vararg.arg] = ("tuple", tuple(args[len(pos):]))
    elif an.vararg is not None:
        bind[an.vararg.arg] = ("tuple", ())
    kw = {k: v for k, v in a[3]}
    named = {k: v for k, v in kw.items() if k in pos or k in [x.arg for x in an.kwonlyargs]}
    bind.update(named)
    if an.kwarg is not None:
        bind[an.kwarg.arg] = ("dict", tuple((("const", k), v) for k, v in kw.items() if k not in named))
    try:
        res = Analyzer(model, target, bind).run(State(facts=dict(st.facts)))
    except AnalysisError:
        return True
    for s2, v, _n in res.returns:
        if shapes_contradiction(shapes, s2, target, res):
            continue
        shp = shapes.shape(v, s2.facts, target, None, res)
        if v == NONE or (shp and shp != TOP and N in shp and truth(("cmp", "Is", v, NONE), s2.facts) is not False):
            return True
    return False


def sh6(ctx: Ctx, shapes: Shapes):
    """SH6: the five text slots of a URL only ever receive text. Every argument of the internal constructors and every store
    into `_scheme`/`_netloc`/`_path`/`_query`/`_fragment` has a shape that excludes None (a None slot prints, compares and
    pickles differently from '' and crashes the accessors). Decided where the shape is known; unknown values are not judged."""
    model = ctx.model
    rule = "SH6"
    ctx.rule(rule, floor=20, what="constructor sinks and slot stores never receive None")
    SINKS = ("from_parts", "from_parts_uncached")
    SLOTS = ("_scheme", "_netloc", "_path", "_query", "_fragment")
    for fi in functions(model):
        if fi.name in ("__setstate__",):
            continue        # restores whatever was pickled
        r = analyze(model, fi)
        sites = {}
        for e in r.by_kind("call"):
            if e.func[0] == "global" and e.func[2] in SINKS and len(e.args) == 5 and not e.kwargs:
                for slot, a in zip(SLOTS, e.args):
                    sites.setdefault((id(e.node), slot), [e.node, f"{e.func[2]}(.. {slot}={show(a)[:50]} ..)", []])[2].append((a, e.state))
        for e in r.by_kind("store_attr"):
            if e.attr in SLOTS and e.obj[0] == "new":
                sites.setdefault((id(e.node), e.attr), [e.node, f"<new URL>.{e.attr} = {show(e.value)[:50]}", []])[2].append((e.value, e.state))
        for node, cons, vals in sites.values():
            ctx.instance(rule)
            bad = []
            for a, st in vals:
                if a[0] == "star":
                    continue
                if shapes_contradiction(shapes, st, fi, r):
                    continue
                shp = shapes.shape(a, st.facts, fi, None, r)
                if shp and shp != TOP and N in shp and truth(("cmp", "Is", a, NONE), st.facts) is not False and \
                        _none_confirmed(model, shapes, a, st, fi):
                    bad.append(sorted(shp))
            ctx.ob(rule, fi.qual, cons, not bad,
                   f"a value that can be None (shape {bad[0] if bad else ''}) is stored in a text slot of the new URL: it would "
                   "compare unequal to '' and break the accessors", where(fi, node), sample="never None")


def sh7(ctx: Ctx, shapes: Shapes):
    """SH7: a value that can be None is not handed to a package function whose parameter is declared as plain text / number
    (the callee dereferences it: `None.isascii()` is an AttributeError, not the ValueError/TypeError the API promises).
    Judged only where the argument's shape is known."""
    model = ctx.model
    rule = "SH7"
    ctx.rule(rule, floor=20, what="possibly-None values are not passed to parameters declared non-optional")
    for fi in functions(model):
        if fi.name in ("__setstate__",):
            continue
        r = analyze(model, fi)
        sites = {}
        for e in r.by_kind("call"):
            f = e.func
            target = None
            if f[0] == "global" and f[1] in model.modules:
                rr = model.resolve_global(f[1], f[2])
                if rr and rr[0] in ("func", "memo_alias"):
                    target = rr[1]
            if target is None or target.backend != "py":
                continue
            params = [p for p in target.params if p not in ("self", "cls")]
            bound = dict(zip(params, [a for a in e.args if a[0] != "star"])) if not any(a[0] == "star" for a in e.args) else {}
            bound.update({k: v for k, v in e.kwargs if k})
            for p_, a in bound.items():
                ann = target.param_annotation(p_)
                if ann is None:
                    continue
                txt = ann.value if isinstance(ann, ast.Constant) and isinstance(ann.value, str) else ast.unparse(ann)
                if txt not in ("str", "int", "bool"):
                    continue
                sites.setdefault((id(e.node), p_), [e.node, f"{f[2]}({p_}={show(a)[:50]})", txt, []])[3].append((a, e.state))
        for node, cons, txt, vals in sites.values():
            ctx.instance(rule)
            bad = []
            for a, st in vals:
                if shapes_contradiction(shapes, st, fi, r):
                    continue
                shp = shapes.shape(a, st.facts, fi, None, r)
                if shp and shp != TOP and N in shp and truth(("cmp", "Is", a, NONE), st.facts) is not False and \
                        _none_confirmed(model, shapes, a, st, fi):
                    bad.append(sorted(shp))
            ctx.ob(rule, fi.qual, cons, not bad,
                   f"a value that can be None (shape {bad[0] if bad else ''}) is passed to a parameter declared `{txt}`: the callee "
                   "would fail with AttributeError/TypeError from its own body", where(fi, node), sample="not None on every path")


def ex6(ctx: Ctx):
    """EX6: an attribute read from a caught exception exists on every class the handler catches. `except UnicodeError as e:
    e.reason` is an AttributeError for the plain UnicodeError the stdlib idna codec raises (only the Encode/Decode/Translate
    subclasses carry .reason), i.e. an exception type the API does not promise, raised from inside the error path."""
    import builtins
    model = ctx.model
    rule = "EX6"
    ctx.rule(rule, floor=0, what="attributes read from a caught exception exist on the caught class")
    n = 0
    for fi in functions(model):
        r = analyze(model, fi)
        seen = set()
        for e in r.by_kind("attr"):
            o = e.obj
            if o[0] != "exc" or id(e.node) in seen:
                continue
            seen.add(id(e.node))
            names = [x.strip() for x in o[1].strip("()").split(",") if x.strip()]
            classes = [getattr(builtins, x, None) for x in names]
            if not classes or any(not (isinstance(c, type) and issubclass(c, BaseException)) for c in classes):
                continue        # not a builtin exception class: its attributes are not known here
            n += 1
            ctx.instance(rule)
            missing = [c.__name__ for c in classes if not hasattr(c, e.attr)]
            ctx.ob(rule, fi.qual, f"{'/'.join(names)}.{e.attr}", not missing,
                   f"`.{e.attr}` is read from an exception caught as {', '.join(names)}, but {missing} has no such attribute: the "
                   "handler itself fails with AttributeError", where(fi, e.node), sample="attribute defined by the caught class")
    # the rule has no site on the pinned tree: keep it honest with a built-in positive and negative example
    assert not hasattr(UnicodeError, "reason") and hasattr(UnicodeEncodeError, "reason") and hasattr(ValueError, "args")
    ctx.instance(rule)
    ctx.ob(rule, "<package>", "exception attribute reads", True, sample=f"{n} read(s) inspected; self-check: UnicodeError has no .reason", nontrivial=False)


def ex7(ctx: Ctx):
    """EX7: every name a function reads is bound - a parameter or local of an enclosing function scope, a module-level name
    (assignment, def, class, import) or a builtin. An unbound name on a rarely taken path (an error handler, a fall-back
    branch) is a NameError there: an exception type the API does not promise. Decided with the compiler's own symbol tables
    (`symtable`), so the scoping rules are Python's."""
    import builtins
    import symtable
    model = ctx.model
    rule = "EX7"
    ctx.rule(rule, floor=6, what="no function reads a name that is bound nowhere")
    for mi in model.modules.values():
        if mi.backend != "py" or not getattr(mi, "path", None) and not hasattr(mi, "tree"):
            continue
        src = getattr(mi, "source", None)
        if src is None:
            try:
                src = ast.unparse(mi.tree)
            except Exception:
                continue
        try:
            top = symtable.symtable(src, f"yarl/{mi.name}.py", "exec")
        except SyntaxError:
            raise AnalysisError(f"EX7: {mi.name} cannot be compiled to a symbol table")
        module_names = set(top.get_identifiers())
        star = any(isinstance(n, ast.ImportFrom) and any(a.name == "*" for a in n.names) for n in ast.walk(mi.tree))

        fnodes = {}
        for n in ast.walk(ast.parse(src)):
            if isinstance(n, (ast.FunctionDef, ast.AsyncFunctionDef, ast.Lambda)):
                fnodes.setdefault((getattr(n, "name", "lambda"), n.lineno), n)

        def live_reads(fnode, name):
            """Is `name` read anywhere in the function outside `if TYPE_CHECKING:` blocks (which never run)?"""
            dead = set()
            for n in ast.walk(fnode):
                if isinstance(n, ast.If) and isinstance(n.test, ast.Name) and n.test.id == "TYPE_CHECKING":
                    for b in n.body:
                        dead.update(id(x) for x in ast.walk(b))
            return any(isinstance(n, ast.Name) and n.id == name and isinstance(n.ctx, ast.Load) and id(n) not in dead for n in ast.walk(fnode))

        def visit(tab, path):
            for child in tab.get_children():
                visit(child, path + [child.get_name()])
            if tab.get_type() != "function":
                return
            fnode = fnodes.get((tab.get_name(), tab.get_lineno()))
            missing = []
            for sym in tab.get_symbols():
                if sym.is_referenced() and sym.is_global() and not sym.is_declared_global() and not sym.is_assigned():
                    n = sym.get_name()
                    if n not in module_names and not hasattr(builtins, n) and not star and n not in ("__class__", "__file__", "__name__") \
                            and (fnode is None or live_reads(fnode, n)):
                        missing.append(n)
            ctx.instance(rule)
            ctx.ob(rule, f"{mi.name}.{'.'.join(path)}", "names read", not missing,
                   f"reads {sorted(missing)} which no scope binds: NameError on the path that gets there",
                   f"yarl/{mi.name}.py:{tab.get_lineno()}", sample="every read name is bound")
        visit(top, [])
