"""CMP1-CMP5 (C10): ==, hash and the four ordering operators use one key; symmetric form; NotImplemented guard.

The key of each operator is extracted as a table over the finite emptiness domain of (path, authority): the
code touches those slots only through truthiness tests, so four cells describe it completely."""
from __future__ import annotations

from itertools import product

from ..interp import analyze, truth
from ..model import AnalysisError
from ..report import Ctx, where
from ..terms import show, walk

X = ("param", "X")
ATOMS = ("_path", "_netloc")
SLOTS = ("_scheme", "_netloc", "_path", "_query", "_fragment")


def rename(t, obj):
    if t == obj:
        return X
    if isinstance(t, tuple):
        return tuple(rename(x, obj) if isinstance(x, tuple) else x for x in t)
    return t


def mentions(t, obj):
    return any(x == obj for x in walk(t))


def cells_of(entries, obj, what):
    """entries: [(facts, tuple-of-component-terms)] -> {cell: normalised tuple}; cell = (path_nonempty, netloc_nonempty)"""
    table = {}
    for cell in product((True, False), repeat=2):
        vals = set()
        for facts, comps in entries:
            ok = True
            for a, want in zip(ATOMS, cell):
                v = facts.get(("attr", obj, a))
                if v is not None and v != want:
                    ok = False
            if not ok:
                continue
            norm = []
            for c in comps:
                c = rename(c, obj)
                for a, want in zip(ATOMS, cell):
                    if c == ("attr", X, a) and not want:
                        c = ("const", "")
                norm.append(c)
            vals.add(tuple(norm))
        if len(vals) != 1:
            plain = all(c[0] == "const" or (c[0] == "attr" and c[1] == X and c[2] in SLOTS) for v in vals for c in v)
            if plain and any(len(v) < len(SLOTS) for v in vals):
                # every answering path compares stored components only, and one of them establishes fewer component
                # equalities than there are components: not an idiom question
                raise PartialKey(f"{what}: for path_nonempty={cell[0]}, netloc_nonempty={cell[1]} one path to the verdict compares only "
                                 f"{[tuple(show(c) for c in v) for v in sorted(vals, key=len)][0]} while another compares "
                                 f"{[tuple(show(c) for c in v) for v in sorted(vals, key=len)][-1]}")
            raise AnalysisError(f"{what}: key is ambiguous for cell path_nonempty={cell[0]}, netloc_nonempty={cell[1]}: "
                                f"{[tuple(show(c) for c in v) for v in vals]}")
        table[cell] = vals.pop()
    return table


def oracle_table():
    t = {}
    for cell in product((True, False), repeat=2):
        p, n = cell
        comps = []
        for s in SLOTS:
            if s == "_path":
                comps.append(("const", "/") if (not p and n) else (("attr", X, "_path") if p else ("const", "")))
            elif s == "_netloc":
                comps.append(("attr", X, "_netloc") if n else ("const", ""))
            else:
                comps.append(("attr", X, s))
        t[cell] = tuple(comps)
    return t


def diff_tables(a, b):
    return {f"path={'set' if c[0] else 'empty'},authority={'set' if c[1] else 'empty'}": ([show(x) for x in a[c]], [show(x) for x in b[c]])
            for c in a if a[c] != b[c]}


def show_table(t):
    return {f"path={'set' if c[0] else 'empty'},authority={'set' if c[1] else 'empty'}": [show(x) for x in v] for c, v in t.items()}


class KeyFromCache(Exception):
    pass


class PartialKey(AnalysisError):
    pass


def expand_side(model, fi, entries, obj):
    """[(facts, components)] with every component that is a tuple-valued property of `obj` replaced by that property's own
    components (one entry per return path of the property, its path facts added)."""
    out = []
    for facts, comps in entries:
        alts = [(dict(facts), [])]
        for c in comps:
            if c[0] == "attr" and c[1] == obj and model.has_func(f"_url.URL.{c[2]}") and \
                    (model.func(f"_url.URL.{c[2]}").memo == "cached_property" or
                     any(getattr(d, "id", getattr(d, "attr", "")) == "property" for d in model.func(f"_url.URL.{c[2]}").decorators)):
                try:
                    sub = key_of_value(model, fi, facts, c, obj)
                except AnalysisError:
                    sub = None
                if sub:
                    nxt = []
                    for f0, acc in alts:
                        for f2, comps2 in sub:
                            if all(f0.get(k, v) == v for k, v in f2.items()):
                                nxt.append(({**f0, **f2}, acc + list(comps2)))
                    alts = nxt
                    continue
            alts = [(f0, acc + [c]) for f0, acc in alts]
        out.extend((f0, tuple(acc)) for f0, acc in alts)
    return out


def key_of_value(model, fi, facts, v, obj, depth=0):
    """[(facts, components)] for a key expression: a tuple display, or a (memoised) property returning one."""
    if v[0] == "tuple":
        return [(facts, v[1])]
    if v[0] == "binop" and v[1] == "Add" and depth < 3 and all(x[0] in ("tuple", "binop") for x in v[2:4]):
        # tuple concatenation: the key is the components of both operands in order
        return [({**f1, **f2}, tuple(c1) + tuple(c2))
                for f1, c1 in key_of_value(model, fi, facts, v[2], obj, depth + 1)
                for f2, c2 in key_of_value(model, fi, facts, v[3], obj, depth + 1)]
    if v[0] == "attr" and v[1] == obj and model.has_func(f"_url.URL.{v[2]}") and depth < 3:
        pf = model.func(f"_url.URL.{v[2]}")
        r = analyze(model, pf, merge=False)
        out = []
        for s, rv, _ in r.returns:
            for f2, comps in key_of_value(model, pf, s.facts, rv, ("param", "self"), depth + 1):
                # rename the property's self to the object it is read from
                out.append(({rename_obj(k, ("param", "self"), obj): vv for k, vv in f2.items()},
                            tuple(rename_obj(c, ("param", "self"), obj) for c in comps)))
        return out
    if any(t[0] == "attr" and t[2] == "_cache" for t in walk(v)):
        raise KeyFromCache(f"{fi.qual}: the comparison key {show(v)[:70]} is read from the object's cache: it depends on which "
                           "accessors were used before (pickling, copying), not only on the URL's value")
    fields = text_key_fields(model, v, obj)
    if fields:
        raise TextKey(f"{fi.qual}: the comparison key {show(v)[:70]} is one text assembled from the stored fields "
                      f"{', '.join(fields)}: different field tuples give the same text (e.g. path 'a?b' with no query and path 'a' "
                      "with query 'b', both reachable through encoded=True)")
    raise AnalysisError(f"{fi.qual}: comparison key {show(v)} is neither a tuple display nor a property returning one")


class TextKey(AnalysisError):
    """The key is a string that concatenates two or more stored (verbatim-settable) text fields: not one-to-one."""


def text_key_fields(model, v, obj):
    """Names of the stored fields of `obj` that the text-valued key expression v concatenates - directly (f-string, +, %,
    format, join) or through one package function whose return templates are instantiated with the call's arguments.
    [] when v is not such a template or mentions fewer than two fields."""
    from ..strtpl import flatten
    from .pickle import slots_of, _subst
    slots = {x for x in slots_of(model)[0] if x != "_cache"}
    templates = [v]
    if v[0] == "call" and v[1][0] == "global" and not v[3] and model.has_func(f"{v[1][1]}.{v[1][2]}"):
        g = model.func(f"{v[1][1]}.{v[1][2]}")
        params = [a.arg for a in g.node.args.posonlyargs + g.node.args.args]
        if len(params) >= len(v[2]):
            bind = {("param", p): a for p, a in zip(params, v[2])}
            templates = [_subst(rv, bind) for _s, rv, _n in analyze(model, g).returns]
    best = []
    for t in templates:
        parts = flatten(t)
        if len(parts) < 2:
            continue
        got = []
        for p in parts:
            if p[0] != "lit" and p[1][0] == "attr" and p[1][1] == obj and p[1][2] in slots and p[1][2] not in got:
                got.append(p[1][2])
        if len(got) >= 2 and len(got) > len(best):
            best = got
    return best


def rename_obj(t, a, b):
    if t == a:
        return b
    if isinstance(t, tuple):
        return tuple(rename_obj(x, a, b) if isinstance(x, tuple) else x for x in t)
    return t


def cmp_rules(ctx: Ctx):
    model = ctx.model
    S, O = ("param", "self"), ("param", "other")
    oracle = oracle_table()
    ctx.rule("CMP1", floor=2, what="__eq__ and __hash__ use the key the statement prescribes")
    ctx.rule("CMP2", floor=4, what="the ordering operators compare the same key as __eq__")
    ctx.rule("CMP3", floor=5, what="NotImplemented for non-URL operands")
    ctx.rule("CMP4", floor=4, what="each ordering dunder uses its own operator, self on the left")
    ctx.rule("CMP5", floor=1, what="__eq__ applies the same accessor to both operands")

    # CMP3 for all five binary dunders
    dunders = {"__eq__": "Eq", "__lt__": "Lt", "__le__": "LtE", "__gt__": "Gt", "__ge__": "GtE"}
    res = {}
    for name in dunders:
        fi = model.func(f"_url.URL.{name}")
        r = analyze(model, fi, merge=False)
        res[name] = (fi, r)
        ctx.functions.add(fi.qual)
        guard = ("cmp", "Is", ("call", ("builtin", "type"), (O,), ()), ("global", "_url", "URL"))
        for s, v, node in r.returns:
            ctx.instance("CMP3")
            g = s.facts.get(guard)
            if v == ("builtin", "NotImplemented"):
                ctx.ob("CMP3", fi.qual, "return NotImplemented", g is False, "NotImplemented returned for a URL operand",
                       where(fi, node), sample="type(other) is not URL")
            else:
                ctx.ob("CMP3", fi.qual, f"return {show(v)[:80]}", g is True,
                       "comparison result computed without establishing `type(other) is URL`", where(fi, node),
                       sample="type(other) is URL")

    # __eq__ key tables
    fi, r = res["__eq__"]
    full = []
    import ast as _ast
    from ..interp import Analyzer
    an = Analyzer(model, fi)
    # Every `==` the method evaluates between something of self and something of other is a candidate conjunct. On a
    # return path that can answer True, the conjuncts that count are those *established* there: known true by the path
    # facts (an earlier `and` operand, or `if not (...): return False`), the returned comparison itself, or two equal
    # constants ("/" == "/"). What is compared is re-read from the operands in the returning state.
    compares = [c for c in _ast.walk(fi.node) if isinstance(c, _ast.Compare) and len(c.ops) == 1 and isinstance(c.ops[0], _ast.Eq)]
    for s, v, node in r.returns:
        if v in (("builtin", "NotImplemented"), ("const", False)) or truth(v, s.facts) is False:
            continue
        pairs = []
        for c in compares:
            a = an.eval(c.left, s)
            b = an.eval(c.comparators[0], s)
            if len(a) != 1 or len(b) != 1:
                continue
            a, b = a[0][1], b[0][1]
            term = ("cmp", "Eq", a, b)
            about = any(mentions(x, S) or mentions(x, O) for x in (a, b))       # "/" == other._path counts as well
            if not (about or (a[0] == "const" and b[0] == "const")):
                continue
            if term == v or truth(term, s.facts) is True or (a == b and a[0] == "const"):
                if a[0] == "tuple" and b[0] == "tuple" and len(a[1]) == len(b[1]):
                    pairs.extend(("cmp", "Eq", x, y) for x, y in zip(a[1], b[1]))
                else:
                    pairs.append(term)
        if pairs:
            full.append((s.facts, pairs))
    if not full:
        raise AnalysisError("_url.URL.__eq__: no fully evaluated comparison found")
    sides = {"self": [], "other": []}
    for facts, pairs in full:
        ls, rs = [], []
        for p in pairs:
            a, b = p[2], p[3]
            if mentions(a, O) and not mentions(a, S) or (mentions(b, S) and not mentions(b, O)):
                a, b = b, a
            if a[0] == "const" and b[0] == "const":
                pass
            elif mentions(a, O) or mentions(b, S):
                raise AnalysisError(f"_url.URL.__eq__: comparison {show(p)} mixes operands on one side")
            ls.append(a)
            rs.append(b)
        sides["self"].append((facts, tuple(ls)))
        sides["other"].append((facts, tuple(rs)))
    try:
        sides["self"] = expand_side(model, fi, sides["self"], S)
        sides["other"] = expand_side(model, fi, sides["other"], O)
    except KeyFromCache as e:
        ctx.instance("CMP1")
        ctx.ob("CMP1", fi.qual, "equality key", False, str(e), where(fi, fi.node))
        return None
    try:
        t_self = cells_of(sides["self"], S, "__eq__ (self side)")
        t_other = cells_of(sides["other"], O, "__eq__ (other side)")
    except PartialKey as e:
        ctx.instance("CMP1")
        ctx.ob("CMP1", fi.qual, "equality key", False, f"{e}: URLs differing in an uncompared component compare equal",
               where(fi, fi.node))
        return None
    ctx.instance("CMP5")
    ctx.ob("CMP5", fi.qual, "key(self) vs key(other)", t_self == t_other,
           f"__eq__ applies different keys to its operands: {show_table(t_self)} vs {show_table(t_other)}",
           where(fi, fi.node), sample="same accessor on both sides in all four emptiness cells")
    ctx.instance("CMP1")
    ctx.ob("CMP1", fi.qual, "equality key", _same_components(t_self, oracle),
           f"__eq__ compares {show_table(t_self)}, the statement prescribes {show_table(oracle)}", where(fi, fi.node),
           sample=str(show_table(t_self)))

    # __hash__
    hfi = model.func("_url.URL.__hash__")
    hr = analyze(model, hfi, merge=False)
    ctx.functions.add(hfi.qual)
    entries = []
    for e in hr.by_kind("call"):
        if e.func == ("builtin", "hash") and e.args and e.args[0][0] == "tuple":
            entries.append((e.state.facts, e.args[0][1]))
        elif e.func == ("builtin", "hash") and e.args and e.args[0][0] == "attr" and e.args[0][1] == S:
            # hash(self.<property returning the key tuple>)
            try:
                entries.extend(key_of_value(model, hfi, e.state.facts, e.args[0], S))
            except KeyFromCache as ex:
                ctx.instance("CMP1")
                ctx.ob("CMP1", hfi.qual, "hash key", False, str(ex), where(hfi, hfi.node))
                return None
    if not entries:
        raise AnalysisError("_url.URL.__hash__: no hash(<tuple>) call found")
    t_hash = cells_of(entries, S, "__hash__")
    ctx.instance("CMP1")
    ctx.ob("CMP1", hfi.qual, "hash key", _same_components(t_hash, t_self),
           f"__hash__ hashes {show_table(t_hash)} but __eq__ compares {show_table(t_self)}: equal URLs can hash differently",
           where(hfi, hfi.node), sample="hash key == equality key")
    # every value returned by __hash__ is that hash (or its memo)
    # ordering
    tables = {}
    for name, op in dunders.items():
        if name == "__eq__":
            continue
        fi, r = res[name]
        for s, v, node in r.returns:
            if v == ("builtin", "NotImplemented"):
                continue
            ctx.instance("CMP4")
            ok = v[0] == "cmp" and v[1] == op and mentions(v[2], S) and not mentions(v[2], O) and mentions(v[3], O) and not mentions(v[3], S)
            ctx.ob("CMP4", fi.qual, f"return {show(v)}", ok, f"{name} must return key(self) {op} key(other)", where(fi, node),
                   sample=f"{op} with self on the left")
            if not ok:
                continue
            try:
                ta = cells_of(key_of_value(model, fi, s.facts, v[2], S), S, f"{name} (self side)")
                tb = cells_of(key_of_value(model, fi, s.facts, v[3], O), O, f"{name} (other side)")
            except TextKey as e:
                # == compares the field tuple (t_self was extracted above), the order compares one text: not the same key
                ctx.instance("CMP2")
                ctx.ob("CMP2", fi.qual, f"ordering key of {name}", False,
                       f"{e}: a <= b and b <= a hold for URLs that == tells apart", where(fi, node))
                continue
            tables[name] = ta
            ctx.instance("CMP2")
            ctx.ob("CMP2", fi.qual, f"ordering key of {name}", ta == tb and _same_components(ta, t_self) and all(ta == t for t in tables.values()),
                   f"{name} orders by a different key than __eq__ compares (ordering key, equality key per cell): "
                   f"{diff_tables(ta, t_self) or diff_tables(ta, tb)}: a == b and a < b can both hold", where(fi, node), sample="ordering key == equality key, same order")
    return t_self


def _same_components(a, b):
    """Same components in every cell, in any order (conjunct / element order does not affect == or hash coherence)."""
    return all(sorted(map(repr, a[c])) == sorted(map(repr, b[c])) for c in a)
