"""F1-F5 (C11, C13, C14, C18): per-modifier component matrix, authority re-assembly roles, join's RFC 3986 5.2.2
dependence table, keep_query/keep_fragment, human_repr coverage."""
from __future__ import annotations

from ..interp import alternatives, analyze, truth
from ..model import AnalysisError, Model
from ..report import Ctx, where
from ..strtpl import flatten
from ..terms import NONE, show, walk

S = ("param", "self")
POS = ("scheme", "netloc", "path", "query", "fragment")
SLOT = {"scheme": "_scheme", "netloc": "_netloc", "path": "_path", "query": "_query", "fragment": "_fragment"}
SINK_NAMES = ("from_parts", "from_parts_uncached")

# B3: what every modifier must do to each stored component.  id = identity flow of the same slot; "" = cleared;
# new = computed from the argument (and, where listed, own data); keep:<flag> = id when the flag is set, "" otherwise.
MATRIX = {
    "with_scheme": dict(scheme="new", netloc="id", path="id", query="id", fragment="id"),
    "with_user": dict(scheme="id", netloc="new", path="id", query="id", fragment="id"),
    "with_password": dict(scheme="id", netloc="new", path="id", query="id", fragment="id"),
    "with_host": dict(scheme="id", netloc="new", path="id", query="id", fragment="id"),
    "with_port": dict(scheme="id", netloc="new", path="id", query="id", fragment="id"),
    "with_query": dict(scheme="id", netloc="id", path="id", query="new", fragment="id"),
    "extend_query": dict(scheme="id", netloc="id", path="id", query="new", fragment="id"),
    "update_query": dict(scheme="id", netloc="id", path="id", query="new", fragment="id"),
    "without_query_params": dict(scheme="id", netloc="id", path="id", query="new", fragment="id"),
    "__mod__": dict(scheme="id", netloc="id", path="id", query="new", fragment="id"),
    "with_fragment": dict(scheme="id", netloc="id", path="id", query="id", fragment="new"),
    "with_path": dict(scheme="id", netloc="id", path="new", query="keep:keep_query", fragment="keep:keep_fragment"),
    "with_name": dict(scheme="id", netloc="id", path="new", query="keep:keep_query", fragment="keep:keep_fragment"),
    "with_suffix": dict(scheme="id", netloc="id", path="new", query="keep:keep_query", fragment="keep:keep_fragment"),
    "__truediv__": dict(scheme="id", netloc="id", path="new", query="", fragment=""),
    "joinpath": dict(scheme="id", netloc="id", path="new", query="", fragment=""),
    "_make_child": dict(scheme="id", netloc="id", path="new", query="", fragment=""),
    "parent": dict(scheme="id", netloc="id", path="new", query="", fragment=""),
    "origin": dict(scheme="id", netloc="id|new", path="", query="", fragment=""),
    "_origin": dict(scheme="id", netloc="id|new", path="", query="", fragment=""),
    "relative": dict(scheme="", netloc="", path="id", query="id", fragment="id"),
}


def local_alias(t, st):
    """Resolve walrus/local copies: the term is what it is (terms are values) - nothing to do."""
    return t


def outcomes(model: Model, name, bindings=None, init=None, depth=0):
    """[(FuncInfo, state, node, kind, payload)]: kind 'self' | 'sink' (payload = 5 argument terms) | 'other'.
    A method that returns the result of another method / property of self is followed: the callee is analysed with its
    parameters bound to the caller's argument terms under the caller's path facts, so flags such as keep_query keep
    their identity through helpers."""
    from ..interp import Analyzer, State
    fi = model.func(f"_url.URL.{name}")
    if depth > 4:
        return []
    if bindings is None and init is None:
        r = analyze(model, fi)
    else:
        r = Analyzer(model, fi, bindings or {}).run(init)
    out = []
    for s, v, node in r.returns:
        if v == S:
            out.append((fi, s, node, "self", None))
        elif v == ("builtin", "NotImplemented"):
            continue
        elif v[0] == "call" and v[1][0] == "global" and v[1][2] in SINK_NAMES and len(v[2]) == 5:
            out.append((fi, s, node, "sink", v[2]))
        elif (v[0] == "call" and v[1][0] == "attr" and v[1][1] == S and model.has_func(f"_url.URL.{v[1][2]}")) or \
                (v[0] == "attr" and v[1] == S and model.has_func(f"_url.URL.{v[2]}")):
            if v[0] == "attr":
                callee, args, kwargs = v[2], (), ()
            else:
                callee, args, kwargs = v[1][2], v[2], v[3]
            cfi = model.func(f"_url.URL.{callee}")
            a = cfi.node.args
            pos = [x.arg for x in a.posonlyargs + a.args][1:]
            b = {}
            plain = [x for x in args if x[0] != "star"]
            for p, t in zip(pos, plain):
                b[p] = t
            if a.vararg is not None:
                extra = plain[len(pos):]
                stars = [x[1] for x in args if x[0] == "star"]
                b[a.vararg.arg] = stars[0] if stars and not extra else ("tuple", tuple(extra))
            for kw, t in kwargs:
                if kw is None:
                    if a.kwarg is not None:
                        b[a.kwarg.arg] = t
                else:
                    b[kw] = t
            if a.kwarg is not None and a.kwarg.arg not in b:
                b[a.kwarg.arg] = ("dict", ())
            for p in pos + [x.arg for x in a.kwonlyargs]:
                if p not in b:
                    d = cfi.param_default(p)
                    if d is not None and isinstance(d, __import__("ast").Constant):
                        b[p] = ("const", d.value)
            sub = outcomes(model, callee, b, State(facts=s.facts.copy()), depth + 1)
            if not sub:
                out.append((fi, s, node, "other", v))
            out.extend(sub)
        else:
            out.append((fi, s, node, "other", v))
    return out


def f1(ctx: Ctx, methods=None):
    model = ctx.model
    rule = "F1"
    ctx.rule(rule, floor=30, what="per-modifier component matrix: untouched components flow by identity, cleared ones are '', "
                                  "keep_query/keep_fragment select between the two")
    for name, row in MATRIX.items():
        if methods and name not in methods:
            continue
        if not model.has_func(f"_url.URL.{name}"):
            raise AnalysisError(f"anchor vanished: URL.{name}")
        _check_method(ctx, rule, name, row, {}, 0)


def _check_method(ctx, rule, name, row, flag_binding, depth):
    model = ctx.model
    for fi, s, node, kind, payload in outcomes(model, name):
        ctx.functions.add(fi.qual)
        if kind == "self":
            # returning self keeps every component; legal only where every cleared/kept component is already so
            for pos in POS:
                want = row[pos]
                ctx.instance(rule)
                if want == "id|new":
                    ctx.ob(rule, fi.qual, f"return self [{pos}]", _no_userinfo(s.facts),
                           f"{name} returns self on a path where the authority is not known to be free of userinfo", where(fi, node),
                           sample="identity under `no userinfo`")
                elif want in ("id", "new") or want.startswith("keep"):
                    ok = True
                    if want.startswith("keep") or want == "":
                        pass
                    ctx.ob(rule, fi.qual, f"return self [{pos}]", ok, where=where(fi, node), sample="identity", nontrivial=False)
                else:
                    ok = truth(("attr", S, SLOT[pos]), s.facts) is False
                    ctx.ob(rule, fi.qual, f"return self [{pos}]", ok,
                           f"`self` is returned although its {pos} must be cleared and is not known to be empty", where(fi, node),
                           sample=f"{pos} is empty on this path")
            # keep-flags: returning self with a non-empty query/fragment requires the flag (only for with_*-style methods)
            continue
        if kind == "other":
            ctx.instance(rule)
            ctx.ob(rule, fi.qual, f"return {show(payload)[:60]}", False,
                   "a modifier must return self, a constructor call or the result of another modifier", where(fi, node))
            continue
        args = payload
        for pos, a in zip(POS, args):
            want = row[pos]
            ctx.instance(rule)
            is_id = a == ("attr", S, SLOT[pos])
            is_empty = a == ("const", "")
            cons = f"{pos} = {show(a)[:60]}"
            if want == "id":
                known_same = is_id or (is_empty and truth(("attr", S, SLOT[pos]), s.facts) is False)
                ctx.ob(rule, fi.qual, cons, known_same, f"{name} must keep the {pos} unchanged but passes {show(a)[:60]}",
                       where(fi, node), sample="identity flow of the same slot")
            elif want == "":
                ctx.ob(rule, fi.qual, cons, is_empty or (is_id and truth(a, s.facts) is False),
                       f"{name} must clear the {pos} but passes {show(a)[:60]}", where(fi, node), sample="''")
            elif want.startswith("keep:"):
                flag = ("param", want.split(":")[1])
                oks = []
                for f in alternatives(s.facts, flag):
                    tv = truth(flag, f)
                    if tv is True:
                        oks.append(is_id)
                    elif tv is False:
                        oks.append(is_empty)
                    else:
                        oks.append(False)
                ctx.ob(rule, fi.qual, cons, all(oks),
                       f"{name} must pass the {pos} through exactly when {flag[1]} is set (and clear it otherwise)", where(fi, node),
                       sample=f"id under {flag[1]}, '' otherwise")
            elif want == "new":
                ctx.ob(rule, fi.qual, cons, True, where=where(fi, node), sample="replaced component (checked by K / F2)", nontrivial=False)
            elif want == "id|new":
                ok = a[0] == "call" or (is_id and _no_userinfo(s.facts))
                ctx.ob(rule, fi.qual, cons, ok,
                       f"{name} keeps the authority unchanged on a path where it is not known to be free of userinfo "
                       "(`'@' not in authority`, or user and password both None): user/password survive", where(fi, node),
                       sample="re-assembled from host and port, or identity under `no userinfo`")


def _no_userinfo(facts):
    for f in alternatives(facts):
        at = truth(("cmp", "In", ("const", "@"), ("attr", S, "_netloc")), f) is False
        both = truth(("cmp", "Is", ("attr", S, "raw_user"), NONE), f) is True and truth(("cmp", "Is", ("attr", S, "raw_password"), NONE), f) is True
        if not (at or both):
            return False
    return True


# F2 -----------------------------------------------------------------------------------------------------------------
NETLOC_ROLES = {
    "with_user": dict(user={"new", "none"}, password={"raw_password", "none"}, host={"host_subcomponent", "empty"}, port={"explicit_port"}),
    "with_password": dict(user={"raw_user"}, password={"new", "none"}, host={"host_subcomponent", "empty"}, port={"explicit_port"}),
    "with_host": dict(user={"raw_user"}, password={"raw_password"}, host={"new"}, port={"explicit_port"}),
    "with_port": dict(user={"raw_user"}, password={"raw_password"}, host={"host_subcomponent", "empty"}, port={"new", "none"}),
    "_origin": dict(user={"none"}, password={"none"}, host={"host_subcomponent"}, port={"explicit_port"}),
    "__str__": dict(user={"raw_user"}, password={"raw_password"}, host={"host_subcomponent"}, port={"none"}),
}


def describe(a, facts, K):
    if a == NONE or truth(("cmp", "Is", a, NONE), facts) is True:
        return "none"
    if a == ("const", ""):
        return "empty"
    if a[0] == "attr" and a[1] == S:
        return a[2]
    if a[0] == "param":
        return "new"
    if a[0] == "call":
        if K.quoter_of(a[1]) and K.quoter_of(a[1])[1][0] == "userinfo" and a[2] and a[2][0][0] == "param":
            return "new"
        if a[1][0] == "global" and a[1][2] == "_encode_host" and a[2] and a[2][0][0] == "param":
            return "new"
        if a[1] == ("builtin", "int") and len(a[2]) == 1 and a[2][0][0] == "param" and not a[3]:
            return "new"        # the validated port argument as a plain number
    return show(a)[:50]


def f2(ctx: Ctx, K):
    model = ctx.model
    rule = "F2"
    ctx.rule(rule, floor=6, what="authority re-assembly uses raw_user / raw_password / host_subcomponent / explicit_port (or the "
                                 "sanitised replaced argument) in the right positions")
    for name, roles in NETLOC_ROLES.items():
        fi = model.func(f"_url.URL.{name}")
        r = analyze(model, fi)
        ctx.functions.add(fi.qual)
        sites = {}
        for e in r.by_kind("call"):
            if not (e.func[0] == "global" and e.func[2] == "make_netloc") or len(e.args) < 4:
                continue
            for pos, a in zip(("user", "password", "host", "port"), e.args[:4]):
                ds = {describe(a, f, K) for f in alternatives(e.state.facts, a)}
                bad = sorted(d for d in ds if d not in roles[pos])
                sites.setdefault((id(e.node), pos), [e.node, f"make_netloc(.. {pos}={show(a)[:50]} ..)", pos, []])[3].append(bad)
            if name == "with_user":
                # with_user(None) also drops the password (documented)
                for f in alternatives(e.state.facts, ("param", "user")):
                    if truth(("cmp", "Is", ("param", "user"), NONE), f) is True:
                        ok = describe(e.args[1], f, K) == "none"
                        sites.setdefault((id(e.node), "drop"), [e.node, "with_user(None): password", "password", []])[3].append([] if ok else ["kept"])
        if not sites:
            raise AnalysisError(f"F2: {fi.qual} does not re-assemble the authority with make_netloc (anchor vanished)")
        for node, cons, pos, bads in sites.values():
            ctx.instance(rule)
            flat = [b for bb in bads for b in bb]
            ctx.ob(rule, fi.qual, cons, not flat,
                   f"the {pos} position of the re-assembled authority receives {flat[:2]}; allowed here: {sorted(roles[pos])} "
                   "(raw_host loses IPv6 brackets, port injects the scheme default, decoded accessors are not encoded)",
                   where(fi, node), sample=f"{sorted(roles[pos])}")


# F3: join ------------------------------------------------------------------------------------------------------------
def f_defaults(ctx: Ctx):
    """Documented defaults of the flags that change what a call means: `encoded` is False everywhere (text is quoted unless
    the caller says it is already encoded) and keep_query / keep_fragment are False (path modifiers clear both)."""
    model = ctx.model
    rule = "F-DEF"
    ctx.rule(rule, floor=4, what="defaults of encoded / keep_query / keep_fragment")
    import ast as _ast
    for fi in model.all_funcs():
        if fi.module != "_url" or not (fi.cls == "URL" and (not fi.name.startswith("_") or fi.name in ("__new__", "_make_child"))):
            continue
        for p_ in ("encoded", "keep_query", "keep_fragment"):
            if p_ not in fi.params:
                continue
            d = fi.param_default(p_)
            ctx.instance(rule)
            ok = isinstance(d, _ast.Constant) and d.value is False
            ctx.ob(rule, fi.qual, f"default of `{p_}`", ok,
                   f"`{p_}` defaults to {_ast.unparse(d) if d is not None else 'nothing'}: " +
                   ("text passed without the flag would be stored unquoted" if p_ == "encoded" else
                    "the modifier would keep the component it is documented to clear"), where(fi, fi.node), sample="False")


def f_build_args(ctx: Ctx):
    """Every authority component supplied to the builders reaches the stored authority: on each path, user / password /
    host / port is either known to be absent (None / empty) or part of what is stored."""
    from ..interp import deep_walk
    from .immut import fresh_view
    model = ctx.model
    rule = "F-BUILD"
    ctx.rule(rule, floor=2, what="no supplied authority component is dropped by the builders")
    for q in ("_url.URL.build", "_url.build_pre_encoded_url"):
        fi = model.func(q)
        try:
            r = analyze(model, fi, merge=False)
        except AnalysisError:
            r = analyze(model, fi)
        ctx.functions.add(q)
        groups = {}
        for s, v, node in r.returns:
            view = fresh_view(model, s, v)
            if view is None:
                if v[0] == "call" and v[1][0] == "global" and v[1][2] in ("build_pre_encoded_url",):
                    continue        # delegation: judged there
                continue
            net = view.get("_netloc")
            if net is None:
                continue
            if truth(("param", "authority"), s.facts) is True:
                # the authority string is used instead of the parts - which therefore must not have been supplied as well
                # (the builder raises for the combination instead of ignoring one of them)
                for p_ in ("user", "password", "host", "port"):
                    if p_ in fi.params and fi.qual == "_url.URL.build":
                        t = ("param", p_)
                        absent = truth(("cmp", "Is", t, NONE), s.facts) is True or truth(t, s.facts) is False
                        groups.setdefault(p_ + " (with authority)", []).append(absent)
                continue
            if any(fv is True and k[0] == "cmp" and k[1] == "Is" and k[3] == NONE and model.declared_not_none(k[2], fi.module)
                   for k, fv in s.facts.items()):
                continue            # infeasible: assumes None from a callee declared to return text
            inside = set(deep_walk(r, net))
            # an authority written as a template here (not through make_netloc) is `<host>` or `<host>:<port>`
            from ..strtpl import flatten
            parts = flatten(net)
            portp = ("param", "port")
            if len([p0 for p0 in parts if p0[0] != "lit"]) >= 2 and any(portp in walk(p0[1]) for p0 in parts if p0[0] != "lit"):
                ok_t = len(parts) == 3 and parts[1] == ("lit", ":") and parts[0][0] != "lit" and parts[2][0] != "lit" and \
                    portp in walk(parts[2][1]) and portp not in walk(parts[0][1])
                groups.setdefault("authority template", []).append(ok_t)
            for p_ in ("user", "password", "host", "port"):
                if p_ not in fi.params:
                    continue
                t = ("param", p_)
                absent = truth(("cmp", "Is", t, NONE), s.facts) is True or truth(t, s.facts) is False
                # the port may be elided when it is the scheme default (`int(port)` is the validated port as a plain number)
                from .port import _unint
                if p_ == "port" and any(fv is True and k[0] == "cmp" and k[1] == "Eq" and t in (_unint(k[2]), _unint(k[3])) and "DEFAULT_PORTS" in show(k)
                                        for k, fv in s.facts.items()):
                    absent = True
                host_absent = truth(("param", "host"), s.facts) is False
                groups.setdefault(p_, []).append(absent or host_absent or t in inside or (p_ == "port" and t in {_unint(x) for x in inside}))
        tpl = groups.pop("authority template", None)
        if tpl is not None:
            ctx.instance(rule)
            ctx.ob(rule, q, f"authority template on {len(tpl)} path(s)", all(tpl),
                   "an authority assembled in place from host and port is not `<host>:<port>`: the stored authority would not "
                   "split back into the host and port that were supplied", where(fi, fi.node), sample="<host>:<port>")
        for p_ in [k for k in groups if k.endswith(" (with authority)")]:
            oks = groups.pop(p_)
            ctx.instance(rule)
            ctx.ob(rule, q, f"`{p_}` on {len(oks)} path(s)", all(oks),
                   f"a URL is built from `authority` on a path where `{p_.split()[0]}` may have been supplied as well: it is silently "
                   "ignored instead of being rejected", where(fi, fi.node), sample="absent whenever authority is used")
        for p_, oks in groups.items():
            ctx.instance(rule)
            ctx.ob(rule, q, f"`{p_}` on {len(oks)} path(s)", all(oks),
                   f"on some path a supplied `{p_}` is neither known to be absent nor part of the stored authority: it is silently dropped",
                   where(fi, fi.node), sample="absent, or part of the stored authority")


def _table_contradiction(model, facts):
    """True when the facts hold `x in B` and `x not in A` for foldable constant collections with B <= A."""
    from ..fold import CannotFold, Folder
    fold = Folder(model)
    ins, outs = [], []
    for k, v in facts.items():
        if k[0] == "cmp" and k[1] in ("In", "NotIn") and v is not None:
            member = (k[1] == "In") == bool(v)
            try:
                coll = fold.fold(k[3])
            except (CannotFold, TypeError):
                continue
            try:
                coll = frozenset(coll)
            except TypeError:
                continue
            (ins if member else outs).append((k[2], coll))
    return any(x == y and b <= a for x, b in ins for y, a in outs)


def f3_join(ctx: Ctx, only=None):
    """`only`: the obligation groups the calling property depends on (C15: the dot-segment removal of the merged path)."""
    model = ctx.model
    rule = "F3"
    ctx.rule(rule, floor=8 if only is None else len(only), what="join(): RFC 3986 5.2.2 source of every result component")
    fi = model.func("_url.URL.join")
    r = analyze(model, fi, merge=False)
    ctx.functions.add(fi.qual)
    R = ("param", fi.params[1])
    B = S
    rp, rq, rf, rn, rs = (("attr", R, x) for x in ("_path", "_query", "_fragment", "_netloc", "_scheme"))
    bp, bq, bf, bn, bs = (("attr", B, x) for x in ("_path", "_query", "_fragment", "_netloc", "_scheme"))
    groups = {}

    def ob(key, cons, ok, msg, node, sample):
        g = groups.setdefault(key, [cons, [], msg, node, sample])
        g[1].append(ok)

    for s, v, node in r.returns:
        f = s.facts
        if v == R:
            # reference returned unchanged: only for a different scheme or a scheme without relative resolution
            diff = any(k[0] == "cmp" and k[1] == "Eq" and fv is False and bs in (k[2], k[3]) for k, fv in f.items())
            norel = any(k[0] == "cmp" and k[1] == "In" and fv is False and "USES_RELATIVE" in show(k[3]) for k, fv in f.items())
            ob("ref", "return url (reference unchanged)", diff or norel,
               "the reference is returned unchanged although it has the base's scheme and the scheme supports relative resolution",
               node, "different scheme / scheme not in uses_relative")
            continue
        if not (v[0] == "call" and v[1][0] == "global" and v[1][2] in SINK_NAMES and len(v[2]) == 5):
            ob("shape", f"return {show(v)[:50]}", False, "join must return the reference or a constructor call", node, "")
            continue
        sch, net, path, query, frag = v[2]
        if net == rn or (net[0] != "attr" and truth(rn, f) is True):
            ok = (path, query, frag) == (rp, rq, rf) and truth(rn, f) is True
            ob("authority", "reference with authority", ok,
               "a reference with an authority must contribute its authority, path, query and fragment unchanged", node,
               "authority/path/query/fragment all from the reference")
            continue
        if truth(rn, f) is True:
            # the reference HAS an authority and yet this path resolves it as a path-only reference. Legitimate only if the path
            # cannot be taken: its guards say `x not in A` and `x in B` for two constant tables with B a subset of A (the code's
            # own "uses_authority is a superset of uses_relative")
            if _table_contradiction(model, f):
                continue
            ob("ref-authority", "reference with an authority resolved as a path-only reference", False,
               "a reference that carries an authority (`//host/...`) is merged into the base instead of replacing authority, path "
               "and query (RFC 3986 5.2.2): the scheme tables that guard the two cases do not exclude this combination", node, "")
            continue
        ob("netloc", f"netloc = {show(net)[:40]}", net == bn, "a reference without authority must inherit the base's authority", node, "base authority")
        # relative resolution only against a base of the same scheme, and only for schemes that support it
        same = truth(("cmp", "Eq", rs, bs), f) is True or truth(("cmp", "Eq", bs, rs), f) is True or truth(rs, f) is False or \
            any(fv is True and k[0] == "cmp" and k[1] == "Eq" and bs in (k[2], k[3]) for k, fv in f.items())
        relcap = any(fv is True and k[0] == "cmp" and k[1] == "In" and "USES_RELATIVE" in show(k[3]) for k, fv in f.items())
        ob("relative-capable", "scheme of the base", relcap,
           "a reference is resolved against a base whose scheme is not known to support relative resolution: "
           "`mailto:a`.join(`b`) must return the reference unchanged", node, "scheme in uses_relative")
        ob("same-scheme", "scheme of a resolved reference", same,
           "a reference is resolved against the base although its scheme is not known to be the base's (or empty): "
           "`http://a/b`.join(`ftp:c`) must return the reference", node, "reference scheme empty or equal to the base's")
        # fragment: always the reference's
        ob("fragment", "fragment of the result", frag == rf,
           f"the fragment is {show(frag)[:40]} on some path: RFC 3986 5.2.2 always takes the reference's fragment "
           "(base.join('?q') must not keep the base's #fragment)", node, "url._fragment on every path")
        # query
        rp_t, rq_t = truth(rp, f), truth(rq, f)
        if rp_t is True or rq_t is True:
            ob("query-ref", "query when the reference has a path or a query", query == rq,
               "the reference's query must be used when the reference has a path or a query", node, "url._query")
        elif rp_t is False and rq_t is False:
            ob("query-base", "query when the reference has neither path nor query", query == bq or truth(query, f) is False and False or query == bq,
               "the base's query must be inherited when the reference has neither path nor query", node, "self._query")
        else:
            ob("query-undecided", "query selection", False, "query selection does not test the reference's path and query", node, "")
        # path
        if rp_t is False:
            # representation invariant of URL (build() and with_path() enforce it, the splitter produces it): under an authority the
            # stored path is empty or rooted. A return path that assumes the opposite about the base is not a path of the program.
            if truth(bn, f) is True and truth(bp, f) is True and \
                    truth(("cmp", "Eq", ("sub", bp, ("const", 0)), ("const", "/")), f) is False:
                continue
            ob("path-empty", "path when the reference path is empty", path == bp, "an empty reference path must keep the base path",
               node, "self._path")
            continue
        core = path
        normalised = core[0] == "call" and core[1][0] == "global" and core[1][2] == "normalize_path"
        if normalised:
            core = core[2][0]
        dot = truth(("cmp", "In", ("const", "."), core), f)
        ob("dots", "dot-segment removal of the merged path", (normalised and dot is True) or (not normalised and dot is False),
           "the merged path must have its dot segments removed (exactly when it contains a '.'), with or without authority",
           node, "normalize_path(path) iff '.' in path")
        rooted = truth(("cmp", "Eq", ("sub", rp, ("const", 0)), ("const", "/")), f)
        if rooted is True:
            ob("path-rooted", "rooted reference path", flatten(core) == [("val", rp)], "a rooted reference path replaces the base path", node, "url._path")
            continue
        if rooted is None:
            ob("path-undecided", "path selection", False, "path selection does not test whether the reference path is rooted", node, "")
            continue
        bp_t = truth(bp, f)
        if bp_t is False:
            has_auth = truth(bn, f)
            slash = flatten(core) == [("lit", "/"), ("val", rp)]        # f"/{p}", "/" + p, ...
            if has_auth is True:
                ob("merge-empty-auth", "merge with an empty base path under an authority", slash,
                   "with an authority and an empty base path the merged path is '/' + reference path (RFC 3986 5.2.3)", node, "'/' + url._path")
            elif has_auth is False:
                ob("merge-empty-noauth", "merge with an empty base path and no authority", flatten(core) == [("val", rp)],
                   "without an authority an empty base path merges to the reference path itself: a leading '/' must not be "
                   "invented (URL('').join(URL('b')) is 'b', not '/b')", node, "url._path")
            else:
                ob("merge-empty-undecided", "merge with an empty base path", False,
                   "the merge with an empty base path does not distinguish whether the base has an authority "
                   "(RFC 3986 5.2.3: '/' is prepended only under an authority)", node, "")
        else:
            mentions_bp = any(t == bp or (t[0] == "attr" and t[1] == B and t[2] in ("raw_parts", "parts", "_path", "raw_path")) for t in walk(core))
            mentions_rp = any(t == rp for t in walk(core))
            ob("merge", "merge of the base directory and the reference path", mentions_bp and mentions_rp,
               "a rootless reference path must be merged with the base path's directory", node, "base directory + url._path")
    for key, (cons, oks, msg, node, sample) in groups.items():
        if only is not None and key not in only:
            continue
        ctx.instance(rule)
        ctx.ob(rule, fi.qual, cons, all(oks), msg, where(fi, node), sample=f"{sample} ({len(oks)} path(s))")


def f_sink(ctx: Ctx):
    """F-SINK: the internal constructors store their five arguments as they are. Every other rule reads a call
    `from_parts(scheme, netloc, path, query, fragment)` as "the new URL has exactly these components"; the statement's algebra
    (same parent, other segments untouched, only its own component changes) holds for the stored text only if nothing between the
    call and the slots rewrites it."""
    model = ctx.model
    rule = "F-SINK"
    ctx.rule(rule, floor=5, what="from_parts / from_parts_uncached store each argument verbatim in its slot")
    seen = 0
    for name in SINK_NAMES:
        rr = model.resolve_global("_url", name)
        if not rr or rr[0] not in ("func", "memo_alias"):
            raise AnalysisError(f"F-SINK: _url.{name} is not a function or a memoised alias of one (anchor vanished)")
        fi = rr[1]
        if fi.qual in ctx.functions and seen:
            continue        # the memoised alias of the constructor already inspected
        seen += 1
        ctx.functions.add(fi.qual)
        if len([p for p in fi.params]) != 5:
            raise AnalysisError(f"F-SINK: {fi.qual} does not take the five components (unknown idiom)")
        r = analyze(model, fi, merge=False)
        per_slot = {p: [] for p in POS}
        for s, v, node in r.returns:
            if v[0] == "call" and v[1][0] == "global" and v[1][2] in SINK_NAMES and len(v[2]) == 5 and not v[3]:
                got = dict(zip(POS, v[2]))         # a wrapper handing on to the other constructor
            elif v[0] == "new":
                got = {p: s.heap.get((v, SLOT[p])) for p in POS}
            else:
                raise AnalysisError(f"F-SINK: {fi.qual} returns {show(v)[:50]} (unknown idiom)")
            for p, param in zip(POS, fi.params):
                per_slot[p].append((got[p], ("param", param), node))
        for p in POS:
            ctx.instance(rule)
            bad = [(g, n) for g, want, n in per_slot[p] if g != want]
            ctx.ob(rule, fi.qual, f"{SLOT[p]} of the new URL", not bad and bool(per_slot[p]),
                   f"the {p} handed to {fi.name}() is stored as {show(bad[0][0])[:60] if bad else '?'}, not as it was passed: every "
                   "modifier's result differs from the components the modifier computed", where(fi, bad[0][1] if bad else fi.node),
                   sample=f"{SLOT[p]} = {p} on {len(per_slot[p])} path(s)")


def f_self(ctx: Ctx, K, methods=None):
    """F-SELF: a modifier returns `self` instead of a new URL ("nothing to change") only after comparing like with like. Where
    the path to `return self` rests on an equality between a stored component of self (a slot or a raw accessor) and text
    derived from an argument, that text must already be in the stored component's form - the quoted / encoded argument. An
    argument compared as supplied is decoded text set against encoded text: 'a%20b' equals the raw fragment 'a%20b' although
    the fragment the call asks for is 'a%2520b', and an un-encoded host equals a stored host that was never canonicalised."""
    from ..kinds import DEC, RAW, UNK
    model = ctx.model
    rule = "F-SELF"
    ctx.rule(rule, floor=0 if methods else 1, what="`return self` short-cuts compare the canonicalised argument with the stored component")
    n = 0
    for name in MATRIX:
        if methods and name not in methods:
            continue
        if not model.has_func(f"_url.URL.{name}"):
            raise AnalysisError(f"anchor vanished: URL.{name}")
        sites = {}
        for fi, s, node, kind, _payload in outcomes(model, name):
            if kind != "self":
                continue
            ctx.functions.add(fi.qual)
            r = analyze(model, fi)
            bad = []
            for f in alternatives(s.facts):
                for key, val in f.items():
                    if key[0] != "cmp" or not ((key[1] == "Eq" and val is True) or (key[1] == "NotEq" and val is False)):
                        continue
                    for stored, other in ((key[2], key[3]), (key[3], key[2])):
                        if not (stored[0] == "attr" and stored[1] == S):
                            continue
                        if not any(t[0] == "param" and t[1] not in ("self", "cls") for t in walk(other)):
                            continue
                        # the stored side is encoded text of some role. The scheme is exempt: its canonical form is a fixed point
                        # of its canonicalisation (case folding), so text that equals a stored scheme is canonical already -
                        # which percent-quoting (never idempotent on '%') and host encoding of unvalidated hosts are not
                        ks = K.kind(stored, f, fi, None, r)
                        if not ks or not all(x.startswith("ENC") for x in ks) or ks == {"ENC:scheme"}:
                            continue
                        kd = K.kind(other, f, fi, None, r)
                        if kd & {DEC, RAW, UNK}:
                            bad.append((stored, other, sorted(kd)))
            sites.setdefault(id(node), [fi, node, []])[2].extend(bad)
        for fi, node, bad in sites.values():
            n += 1
            ctx.instance(rule)
            ctx.ob(rule, fi.qual, f"return self in {name}", not bad,
                   (f"`self` is returned because self.{bad[0][0][2]} == {show(bad[0][1])[:40]}, but that operand is the argument as supplied "
                    f"(kind {bad[0][2]}), not its canonical form: text that merely looks like the stored encoding is taken for it and the "
                    "component the call asks for is never stored") if bad else "", where(fi, node),
                   sample="no equality against un-canonicalised argument text on the path")
    if not n and not methods:
        raise AnalysisError("F-SELF: no modifier returns self (anchor vanished)")
    ctx.instance(rule)
    ctx.ob(rule, "<class URL>", "return-self paths of the modifiers", True, sample=f"{n} path(s) inspected", nontrivial=False)
