"""Regenerates MANIFEST.json from the property modules present in sa/props (python -m sa.manifest)."""
import importlib
import json
import os

HERE = os.path.dirname(os.path.dirname(os.path.abspath(__file__)))
BASELINE = "cd /repo && /venv/bin/python -m pytest -ra -q -p no:cacheprovider --timeout=900 --continue-on-collection-errors"


def main():
    props = [json.loads(l) for l in open(os.path.join(HERE, "properties.jsonl"))]
    checks, na = [], []
    for p in props:
        pid = p["id"]
        try:
            mod = importlib.import_module(f"sa.props.{pid}")
        except ModuleNotFoundError:
            na.append({"property_id": pid, "reason": "check under construction (DESIGN.md section 8); not yet claimed"})
            continue
        meta = getattr(mod, "META", {})
        checks.append({
            "property_id": pid,
            "quick_cmd": f"./check {pid} --tier quick",
            "thorough_cmd": f"./check {pid} --tier thorough",
            "evidence_file": f"evidence/{pid}.json",
            "replay_cmd_template": f"./check {pid} --explain {{path}}",
            "engine": "sa",
            "level_claimed": {
                "category": "other",
                "text": meta.get("level", "static analysis of structural necessary conditions of the property "
                                          "(path-sensitive dataflow over /repo's syntax trees); not a proof of the behaviour"),
                "design_ref": f"DESIGN.md section 4, {pid}",
            },
            "level_note": meta.get("note", "decides the structural clauses listed in DESIGN.md; the clauses that quantify "
                                           "over runtime values are not decided"),
            "technique": meta.get("technique", "static analysis: path-sensitive dataflow / guard-dominance rules over the ast"),
        })
    m = {
        "version": 1,
        "setup_cmd": "./selfcheck.sh",
        "hooks": {"guard": "YARL_VERIF", "enable": "none: the checks only read /repo's sources (no hooks in /repo)",
                  "baseline_off_cmd": BASELINE, "source_commits": [], "add_only": True},
        "engines": [{"name": "sa", "path": "sa/", "serves_properties": [c["property_id"] for c in checks],
                     "kind_free_text": "bespoke static analyser: ast + Cython front end, path-sensitive value-graph "
                                       "dataflow with guard facts, constant folding of tables, per-property rule sets"}],
        "checks": checks,
        "not_applicable": na,
        "notes": "All checks are static: no repository code is imported or executed. Exit 2 + ANALYSIS-ERROR means the "
                 "analysis could not decide (never a silent pass).",
    }
    with open(os.path.join(HERE, "MANIFEST.json"), "w") as fh:
        json.dump(m, fh, indent=1)
    print(f"{len(checks)} checks, {len(na)} not applicable")


if __name__ == "__main__":
    main()
