"""Regenerates MANIFEST.json from the property modules present in sa/props (python -m sa.manifest)."""
import importlib
import json
import os

TECHNIQUE = {
    "C01": "static analysis: emission-site audit with dominating guard facts (both quoters), derived literal tables vs RFC 3986 sets, hex-digit decoder folded over probe code points, encodedness typestate over all constructor sinks",
    "C02": "static analysis: emission guards (decode only safe and not protected), protected-delimiter tables, encodedness typestate (quote exactly once, no mixed-kind slicing, no re-quoting of own decoded text), substring-provenance of the splitter's components",
    "C03": "static analysis: printer/parser template tables folded over all part classes vs the RFC 3986 Appendix B expression, print-parse-print fixed point of the authority, stable/terminator-free quoting tables, quoter-vs-requoter stability, ordering rules (quote before normalise), no dot segment stored by with_name/with_suffix under an authority, query pair-quoting typestate",
    "C04": "static analysis: exhaustive 128-character policy table per configuration derived from emission guards, lower = upper bound for requoters, identity fast-path rules, dot segments kept without authority at the constructor, whole-argument rule of the host encoder",
    "C05": "static analysis: sibling cross-check - one rule set over the .py ast and the Cython-parsed .pyx, derived policy tables compared, look-ahead bounds, drop-stage and statelessness rules, C-level narrowing of text units judged on path bounds (interprocedural unit-parameter fixpoint), contract of the byte writer (unit stored, changed flag accumulated on every success path), must-account-for-the-pending-buffer rule on every emission path of the compiled unquoter",
    "C06": "static analysis: unquoter emission-class audit (both backends) incl. the length of verbatim copies as a linear form, escape-syntax acceptance sets (pattern classes / table keys), accessor/unquoter/raw-role pairing by typestate, write-side quoter audit and tables, builder argument flow, verbatim constructor sinks, kind-checked return-self short-cuts, stateless shared unquoter instances, pending-buffer rule on every emission path of the compiled unquoter, parameter-to-cache taint rule for pre-filled query pairs, in-place cache-write rule scoped to the decoded-view keys",
    "C07": "static analysis: delimiter and search-direction table of the splitter extracted from call events vs RFC 3986 Appendix B, strip/remove sets by constant folding, substring-provenance walk of every returned component, port-zero truthiness rule in the authority helpers, substring-provenance of split_netloc, printer/parser template table over the parse-reachable part classes, folded accessor table raw_path_qs = raw_path + query",
    "C08": "static effect analysis: stores only on fresh objects, memoised code pure in its key, shared instances stateless, re-binding and argument-mutation discipline, cache hand-over judged by the slot dependencies of each cache key, one definition per co-filled cache key, memoised mutable values only copied (every spelling), one cache key per cached property, no removal from a URL cache",
    "C09": "static analysis: pickle field agreement, eager cache entries vs inlined lazy definitions over a None/empty/non-empty shape domain, assembly-consistency rule, cache hand-over judged by the slot dependencies of each cache key, port-zero truthiness rule in the authority helpers, substring-provenance of split_netloc, one cache key per cached property, bracket discipline of every pre-filled raw_host store (producer functions found by return-template flattening), parameter-to-cache taint rule for pre-filled query pairs",
    "C10": "static analysis: key tables of ==, hash and the ordering operators over the four emptiness cells of (path, authority), guard and operator checks, text-valued ordering keys judged not one-to-one from their flattened templates, pre-filled comparison keys vs their lazy definitions, hash-memo provenance, one cache key per cached property",
    "C11": "static analysis: per-modifier component flow matrix on every return path with delegation following, authority re-assembly role check, builder argument flow, flag defaults, encodedness typestate incl. flag-controlled quoting in helpers, verbatim constructor sinks, kind-checked return-self short-cuts, bracket predicate of the accessor the authority is rebuilt from, bracket discipline of every pre-filled raw_host store, in-place cache-write rule scoped to the parent/_origin keys",
    "C12": "static analysis: value-type gate evaluated over a finite type lattice, None/dispatch rules on guard facts, pair-quoting typestate, copy-before-update effect rules, multi-valued removal rule, merged-copy serialisation rule of update_query, None-free slot shapes, exact-equality memo keys",
    "C13": "static analysis: encodedness typestate for path splicing (single quoting, no re-quoting, no mixed-kind slicing, no decode-then-quote round trip), path-modifier flow matrix, verbatim constructor sinks, pre-filled path accessors vs their definitions, subscript shape rule",
    "C14": "static analysis: source-of-component table of join() on every path vs RFC 3986 5.2.2 (unmerged path-sensitive analysis), encoded-splice typestate, verbatim constructor sinks, one-removal-per-dot-dot and trailing-slash rules of the resolver, feasibility of merging a reference that has an authority (folded scheme tables)",
    "C15": "static analysis: truth-table rule over (authority present, dot in quoted path) at every entry point and on every merging path of join(), guard-dominance and one-removal-per-dot-dot and trailing-slash audit of the segment resolver, no dot segment stored by with_name/with_suffix",
    "C16": "static analysis: lower-case-by-construction summaries of the host encoder, bracket predicate facts and IPv6/zone result templates, IP-probe coverage of every exit, regex AST of the reg-name pattern vs the RFC grammar, NFKC-screen reachability on traces, whole-argument and no-pre-folding rules, kind-checked return-self short-cut of with_host",
    "C17": "static analysis: validation-dominance facts for every API port flow (per path alternative), default-port predicate shape and which branch elides the port (judged on paths), zero-vs-None truthiness rule, no swallowed ValueError of the authority splitter, stale cache hand-over of scheme-dependent keys, table folding",
    "C18": "static analysis: folded escape sets of human_repr vs position delimiters, dominance of the replacement loop over every return, component coverage, parser-side acceptance of what is shown (strip clause, NFKC screen sets delimiters aside), port-zero rule in the shared authority printer",
    "C19": "static analysis: shape domain for subscripts / Optional dereference / cache-key loads / None into text slots and non-optional parameters on every path, raise-type, exception-attribute, unbound-name, raising-lookup and recursion rules (call graph with implicit dunder edges), writer resource discipline, allocation-failure propagation and fixed-size array bounds of the .pyx, memoised names stay lru wrappers, validated port normalised to a plain int",
    "C20": "static analysis of necessary structure under the GIL: C-only critical section of the static buffer, single-publication cache fills, pure memoised code, stateless shared instances, no Python-level iteration over live cache dicts, no removal from a URL cache",
}

HERE = os.path.dirname(os.path.dirname(os.path.abspath(__file__)))
BASELINE = "cd /repo && /venv/bin/python -m pytest -ra -q -p no:cacheprovider --timeout=900 --continue-on-collection-errors"


def main():
    props = [json.loads(l) for l in open(os.path.join(HERE, "properties.jsonl"))]
    checks, na = [], []
    for p in props:
        pid = p["id"]
        try:
            mod = importlib.import_module(f"sa.props.{pid}")
        except ModuleNotFoundError:
            na.append({"property_id": pid, "reason": "check under construction (DESIGN.md section 8); not yet claimed"})
            continue
        meta = getattr(mod, "META", {})
        checks.append({
            "property_id": pid,
            "quick_cmd": f"./check {pid} --tier quick",
            "thorough_cmd": f"./check {pid} --tier thorough",
            "evidence_file": f"evidence/{pid}.json",
            "replay_cmd_template": f"./check {pid} --explain {{path}}",
            "engine": "sa",
            "level_claimed": {
                "category": "other",
                "text": meta.get("level", "static analysis of structural necessary conditions of the property "
                                          "(path-sensitive dataflow over /repo's syntax trees); not a proof of the behaviour"),
                "design_ref": f"DESIGN.md section 4, {pid}",
            },
            "level_note": meta.get("note", "decides the structural clauses listed in DESIGN.md; the clauses that quantify "
                                           "over runtime values are not decided"),
            "technique": meta.get("technique", TECHNIQUE.get(pid, "static analysis: path-sensitive dataflow / guard-dominance rules over the ast")),
        })
    m = {
        "version": 1,
        "setup_cmd": "./selfcheck.sh",
        "hooks": {"guard": "YARL_VERIF", "enable": "none: the checks only read /repo's sources (no hooks in /repo)",
                  "baseline_off_cmd": BASELINE, "source_commits": [], "add_only": True},
        "engines": [{"name": "sa", "path": "sa/", "serves_properties": [c["property_id"] for c in checks],
                     "kind_free_text": "bespoke static analyser: ast + Cython front end, path-sensitive value-graph "
                                       "dataflow with guard facts, constant folding of tables, per-property rule sets"}],
        "checks": checks,
        "not_applicable": na,
        "notes": "All checks are static: no repository code is imported or executed. Exit 2 + ANALYSIS-ERROR means the "
                 "analysis could not decide (never a silent pass).",
    }
    with open(os.path.join(HERE, "MANIFEST.json"), "w") as fh:
        json.dump(m, fh, indent=1)
    print(f"{len(checks)} checks, {len(na)} not applicable")


if __name__ == "__main__":
    main()
