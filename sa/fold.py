"""Compile-time constant evaluation of input-independent terms.

Only a small pure subset is evaluated by this module's own evaluator; anything else raises
CannotFold (callers turn that into exit 2 when the value is required - never a guess).
No repository code is executed. Standard-library *data* the package imports
(string.ascii_letters, urllib.parse.uses_netloc, ...) is read from the running interpreter.
"""
from __future__ import annotations

import ast

from .interp import Analyzer, State
from .model import AnalysisError, FuncInfo, Model


class CannotFold(Exception):
    pass


_EXT_DATA = {
    ("string", "ascii_letters"), ("string", "ascii_lowercase"), ("string", "ascii_uppercase"), ("string", "digits"),
    ("string", "hexdigits"), ("urllib.parse", "uses_relative"), ("urllib.parse", "uses_netloc"),
    ("urllib.parse", "scheme_chars"),
}


def ext_value(mod, name):
    if (mod, name) not in _EXT_DATA:
        raise CannotFold(f"external name {mod}.{name} is not in the data allow-list")
    import importlib
    return getattr(importlib.import_module(mod), name)


_STR_METHODS = {"encode", "decode", "lower", "upper", "strip", "lstrip", "rstrip", "replace", "join", "split",
                "format", "isascii", "startswith", "endswith", "partition", "rpartition", "find", "rfind", "isdigit"}


def _walk(t):
    from .terms import walk
    return walk(t)


class Folder:
    def __init__(self, model: Model, leaves: dict | None = None):
        self.model = model
        self.leaves = leaves or {}
        self._stack = []

    def fold(self, t):
        if t in self.leaves:
            return self.leaves[t]
        tag = t[0]
        m = getattr(self, "f_" + tag, None)
        if m is None:
            raise CannotFold(f"term kind {tag}")
        return m(t)

    def f_const(self, t):
        return t[1]

    def f_global(self, t):
        return module_const(self.model, t[1], t[2], self)

    def f_ext(self, t):
        return ext_value(t[1], t[2])

    def f_builtin(self, t):
        raise CannotFold(f"bare builtin {t[1]}")

    def f_tuple(self, t):
        return tuple(self._elts(t[1]))

    def f_list(self, t):
        return list(self._elts(t[1]))

    def f_set(self, t):
        return frozenset(self._elts(t[1]))

    def f_dict(self, t):
        return {self.fold(k): self.fold(v) for k, v in t[1]}

    def _elts(self, elts):
        out = []
        for e in elts:
            if e[0] == "star":
                out.extend(self.fold(e[1]))
            else:
                out.append(self.fold(e))
        return out

    def f_binop(self, t):
        op, a, b = t[1], self.fold(t[2]), self.fold(t[3])
        try:
            if op == "Add":
                return a + b
            if op == "Sub":
                return a - b
            if op == "Mult":
                return a * b
            if op == "BitOr":
                return a | b
            if op == "BitAnd":
                return a & b
            if op == "LShift":
                return a << b
            if op == "RShift":
                return a >> b
            if op == "Mod" and isinstance(a, int):
                return a % b
            if op == "FloorDiv":
                return a // b
        except Exception as e:
            raise CannotFold(f"binop {op}: {e!r}")
        raise CannotFold(f"binop {op}")

    def f_unop(self, t):
        v = self.fold(t[2])
        if t[1] == "Not":
            return not v
        if t[1] == "USub":
            return -v
        raise CannotFold(f"unop {t[1]}")

    def f_cmp(self, t):
        a, b = self.fold(t[2]), self.fold(t[3])
        op = t[1]
        try:
            return {"Eq": lambda: a == b, "NotEq": lambda: a != b, "Lt": lambda: a < b, "LtE": lambda: a <= b,
                    "Gt": lambda: a > b, "GtE": lambda: a >= b, "In": lambda: a in b, "NotIn": lambda: a not in b,
                    "Is": lambda: a is b, "IsNot": lambda: a is not b}[op]()
        except Exception as e:
            raise CannotFold(f"cmp {op}: {e!r}")

    def f_fstr(self, t):
        out = []
        for p in t[1]:
            if p[0] == "const":
                out.append(str(p[1]))
            else:
                v = self.fold(p[1])
                if p[2] == "r":
                    v = repr(v)
                elif p[2] == "s":
                    v = str(v)
                out.append(format(v, p[3] or ""))
        return "".join(out)

    def f_sub(self, t):
        base = self.fold(t[1])
        idx = t[2]
        try:
            if idx[0] == "slice":
                lo, hi, st = (None if x == ("const", None) else self.fold(x) for x in idx[1:])
                return base[lo:hi:st]
            return base[self.fold(idx)]
        except CannotFold:
            raise
        except Exception as e:
            raise CannotFold(f"subscript: {e!r}")

    def f_call(self, t):
        f, args, kwargs = t[1], t[2], t[3]
        if f[0] == "builtin":
            name = f[1]
            a = [self.fold(x) for x in args]
            if kwargs and name == "int" and len(kwargs) == 1 and kwargs[0][0] == "base" and len(a) == 1:
                a.append(self.fold(kwargs[0][1]))
            elif kwargs:
                raise CannotFold(f"{name} with keywords")
            if name in ("frozenset", "set"):
                return frozenset(*a)
            if name in ("tuple", "list", "str", "int", "len", "chr", "ord", "bool", "bytes", "sorted", "min", "max", "bytearray", "hex"):
                try:
                    return {"tuple": tuple, "list": list, "str": str, "int": int, "len": len, "chr": chr, "ord": ord,
                            "bool": bool, "bytes": bytes, "sorted": sorted, "min": min, "max": max,
                            "bytearray": lambda *x: bytes(bytearray(*x)), "hex": hex}[name](*a)
                except Exception as e:
                    raise CannotFold(f"{name}: {e!r}")
            if name == "range":
                return range(*a)
            if name == "enumerate" and 1 <= len(a) <= 2:
                return list(enumerate(*a))
            if name == "zip":
                return list(zip(*a))
            if name == "dict" and len(a) <= 1:
                try:
                    return dict(*a)
                except Exception as e:
                    raise CannotFold(f"dict: {e!r}")
            raise CannotFold(f"builtin call {name}")
        if f[0] == "attr" and f[2] in ("items", "keys", "values", "get", "copy") and f[1][0] != "ext":
            recv = self.fold(f[1])
            if isinstance(recv, dict):
                a = [self.fold(x) for x in args]
                try:
                    out = getattr(recv, f[2])(*a)
                except Exception as e:
                    raise CannotFold(f"dict.{f[2]}: {e!r}")
                return list(out) if f[2] in ("items", "keys", "values") else out
            raise CannotFold(f"method {f[2]} on {type(recv).__name__}")
        if f[0] == "attr" and f[2] in _STR_METHODS:
            recv = self.fold(f[1])
            if not isinstance(recv, (str, bytes)):
                raise CannotFold(f"method {f[2]} on {type(recv).__name__}")
            a = [self.fold(x) for x in args]
            kw = {k: self.fold(v) for k, v in kwargs}
            try:
                return getattr(recv, f[2])(*a, **kw)
            except Exception as e:
                raise CannotFold(f"{f[2]}: {e!r}")
        if f[0] == "attr" and f[2] == "escape" and f[1][0] == "ext" and f[1][1] == "re" and len(args) == 1 and not kwargs:
            import re
            a = self.fold(args[0])
            if not isinstance(a, str):
                raise CannotFold("re.escape of a non-str")
            return re.escape(a)
        if f[0] == "attr" and f[1] == ("builtin", "dict") and f[2] == "fromkeys" and 1 <= len(args) <= 2 and not kwargs:
            keys = self.fold(args[0])
            val = self.fold(args[1]) if len(args) == 2 else None
            try:
                return dict.fromkeys(keys, val)
            except Exception as e:
                raise CannotFold(f"dict.fromkeys: {e!r}")
        if f[0] == "attr" and f[1] == ("builtin", "str") and f[2] == "maketrans" and 1 <= len(args) <= 3 and not kwargs:
            try:
                return str.maketrans(*[self.fold(a) for a in args])
            except CannotFold:
                raise
            except Exception as e:
                raise CannotFold(f"str.maketrans: {e!r}")
        if f[0] == "attr" and f[2] == "compile" and f[1][0] == "ext" and f[1][1] == "re":
            a = [self.fold(x) for x in args]
            flags = 0
            for x in a[1:]:
                flags |= x
            return ("regex", a[0], flags)
        if f[0] == "attr" and f[1][0] == "ext" and f[1][1] == "re" and f[2] in ("VERBOSE", "X", "IGNORECASE", "I", "ASCII", "A"):
            pass
        raise CannotFold(f"call {f}")

    def f_attr(self, t):
        if t[1][0] == "ext" and t[1][1] == "re" and t[1][2] is None:
            import re
            if t[2] in ("VERBOSE", "X", "IGNORECASE", "I", "ASCII", "A", "DOTALL", "S", "MULTILINE", "M"):
                return int(getattr(re, t[2]))
        raise CannotFold(f"attribute {t[2]}")

    def f_item(self, t):
        base = self.fold(t[1])
        try:
            return base[t[2]]
        except Exception as e:
            raise CannotFold(f"item: {e!r}")

    def f_mut(self, t):
        """A list built by in-place updates: the literal start value with the updates replayed on a copy."""
        base = self.fold(t[1])
        if not isinstance(base, list):
            raise CannotFold(f"in-place update of a {type(base).__name__}")
        out = list(base)
        args = [None if (a[0] == "slice") else self.fold(a) for a in t[3]]
        try:
            if t[2] in ("append", "extend", "insert", "reverse", "sort", "pop", "clear", "remove"):
                getattr(out, t[2])(*args)
            elif t[2] == "setitem" and t[3][0][0] != "slice":
                out[args[0]] = args[1]
            elif t[2] == "delitem" and t[3][0][0] != "slice":
                del out[args[0]]
            else:
                raise CannotFold(f"list update {t[2]}")
        except CannotFold:
            raise
        except Exception as e:
            raise CannotFold(f"list update {t[2]}: {e!r}")
        return out

    def f_comp(self, t):
        """A comprehension over constant iterables (nested generators allowed, later ones may depend on earlier elements)
        with one element form: evaluated element by element, the element terms bound as leaves."""
        kind, elts, iters = t[1], t[2], t[3]
        filters = t[4] if len(t) > 4 else ()
        if len(elts) != 1 or not iters:
            raise CannotFold("comprehension with several element forms")
        pool = [x for part in (elts, filters, iters) for e in part for x in _walk(e) if x[0] == "elem"]
        out = []

        def rec(i, leaves):
            if i == len(iters):
                sub = Folder(self.model, leaves)
                if all(sub.fold(f) for f in filters):
                    out.append(sub.fold(elts[0]))
                return
            sub = Folder(self.model, leaves)
            seq = sub.fold(iters[i])
            mine = {x for x in pool if x[1] == iters[i]}
            if len(mine) > 1:
                raise CannotFold("comprehension element bound several times")
            if isinstance(seq, (set, frozenset)):
                seq = sorted(seq, key=repr)
            for x in seq:
                rec(i + 1, {**leaves, **{el: x for el in mine}})
            if len(out) > 200000:
                raise CannotFold("comprehension too large to fold")
        rec(0, dict(self.leaves))
        if kind == "dict":
            return {k_: v_ for k_, v_ in out}
        if kind == "set":
            return frozenset(out)
        return out

    def f_ucomp(self, t):
        out = [self.fold(v) for cs, v in t[2] if all(bool(self.fold(c)) for c in cs)]
        if t[1] == "dict":
            return {a: b for a, b in out}
        if t[1] == "set":
            return frozenset(out)
        return out

    def f_elem(self, t):
        raise CannotFold("element of an iteration (outside its comprehension)")


_MOD_CACHE: dict = {}


def module_analyzer(model: Model, module: str) -> Analyzer:
    fi = FuncInfo(module, None, "<module>", ast.FunctionDef(name="<module>", args=ast.arguments(
        posonlyargs=[], args=[], vararg=None, kwonlyargs=[], kw_defaults=[], kwarg=None, defaults=[]),
        body=[], decorator_list=[], returns=None, type_params=[]), backend=model.module(module).backend)
    return Analyzer(model, fi)


def module_const(model: Model, module: str, name: str, folder: Folder | None = None):
    """Value of a module-level name whose initialiser is input-independent."""
    key = (id(model), module, name)
    if key in _MOD_CACHE:
        v = _MOD_CACHE[key]
        if isinstance(v, CannotFold):
            raise v
        return v
    mi = model.module(module)
    r = model.resolve_global(module, name)
    try:
        if r is None:
            raise CannotFold(f"{module}.{name} is not defined at module level")
        if r[0] == "ext":
            v = ext_value(r[1], r[2])
        elif r[0] == "value":
            sts = r[3]
            an = module_analyzer(model, r[1])
            vals = []
            for st in sts:
                if isinstance(st, ast.AugAssign):
                    raise CannotFold(f"{module}.{name} is augmented at module level")
                res = an.eval(st.value, State())
                if len(res) != 1:
                    raise CannotFold(f"{module}.{name}: conditional initialiser")
                val = Folder(model).fold(res[0][1])
                idx = getattr(st, "_unpack", {}).get(name)
                if idx is not None:
                    try:
                        val = val[idx]
                    except Exception as e:
                        raise CannotFold(f"{module}.{name}: unpacking: {e!r}")
                vals.append(val)
            if any(v != vals[0] for v in vals[1:]):
                raise CannotFold(f"{module}.{name} has several different module-level values")
            v = vals[0]
            if isinstance(v, (dict, list, set)) or (isinstance(v, frozenset) and False):
                v = _apply_module_updates(model, r[1], r[2], sts[-1], v)
        else:
            raise CannotFold(f"{module}.{name} is a {r[0]}, not a constant")
    except CannotFold as e:
        _MOD_CACHE[key] = e
        raise
    _MOD_CACHE[key] = v
    return v


_IN_PLACE = ("update", "append", "extend", "add", "insert", "setdefault")


def _apply_module_updates(model, module, name, after, value):
    """A module-level table that is completed in place after its initialiser (`T.update({...})`, `T[k] = v`, also inside a
    `for x in <constant>` loop at module level): the updates are replayed, in order, on a copy of the folded value."""
    import copy
    mi = model.module(module)
    body = mi.tree.body
    if after not in body:
        return value
    out = copy.deepcopy(value)
    an = module_analyzer(model, module)

    def term(expr):
        res = an.eval(expr, State())
        if len(res) != 1:
            raise CannotFold(f"{module}.{name}: conditional expression in a module-level update")
        return res[0][1]

    def apply(st, leaves):
        f = Folder(model, {**leaves, ("global", module, name): out})      # the table may refer to itself as built so far
        if isinstance(st, ast.Expr) and isinstance(st.value, ast.Call) and isinstance(st.value.func, ast.Attribute) and \
                isinstance(st.value.func.value, ast.Name) and st.value.func.value.id == name and st.value.func.attr in _IN_PLACE:
            args = [f.fold(term(a)) for a in st.value.args]
            kw = {k.arg: f.fold(term(k.value)) for k in st.value.keywords if k.arg}
            try:
                getattr(out, st.value.func.attr)(*args, **kw)
            except Exception as e:
                raise CannotFold(f"{module}.{name}.{st.value.func.attr}: {e!r}")
            return True
        if isinstance(st, ast.Assign) and len(st.targets) == 1 and isinstance(st.targets[0], ast.Subscript) and \
                isinstance(st.targets[0].value, ast.Name) and st.targets[0].value.id == name:
            try:
                out[f.fold(term(st.targets[0].slice))] = f.fold(term(st.value))
            except CannotFold:
                raise
            except Exception as e:
                raise CannotFold(f"{module}.{name}[...] = ...: {e!r}")
            return True
        return False

    def mentions(st):
        return any(isinstance(n, ast.Name) and n.id == name for n in ast.walk(st))

    for st in body[body.index(after) + 1:]:
        if isinstance(st, (ast.FunctionDef, ast.AsyncFunctionDef, ast.ClassDef)):
            continue
        if apply(st, {}):
            continue
        if isinstance(st, ast.For) and isinstance(st.target, ast.Name) and not st.orelse and any(mentions(x) for x in st.body):
            seq = Folder(model).fold(term(st.iter))
            for x in seq:
                leaves = {("global", module, st.target.id): x}
                for inner in st.body:
                    if not apply(inner, leaves) and mentions(inner):
                        raise CannotFold(f"{module}.{name} is changed by a module-level statement the folder does not understand")
            continue
        if mentions(st) and any(isinstance(n, (ast.Call, ast.Subscript)) and isinstance(getattr(n, "ctx", None), (ast.Store, ast.Del)) for n in ast.walk(st)):
            raise CannotFold(f"{module}.{name} is changed by a module-level statement the folder does not understand")
    return out


def module_value(model: Model, module: str, name: str):
    """The value *term* of a module-level name with a single, unconditional initialiser (helpers that are not anchors are
    analysed in place, `A, B = f()` yields the element). Raises CannotFold otherwise."""
    r = model.resolve_global(module, name)
    if not r or r[0] != "value" or len(r[3]) != 1 or isinstance(r[3][0], ast.AugAssign):
        raise CannotFold(f"{module}.{name} has no single module-level initialiser")
    st = r[3][0]
    res = module_analyzer(model, r[1]).eval(st.value, State())
    if len(res) != 1:
        raise CannotFold(f"{module}.{name}: conditional initialiser")
    t = res[0][1]
    idx = getattr(st, "_unpack", {}).get(r[2])
    if idx is not None:
        if t[0] in ("tuple", "list") and not any(x[0] == "star" for x in t[1]) and idx < len(t[1]):
            t = t[1][idx]
        else:
            t = ("item", t, idx)
    return t


def fold_expr(model: Model, module: str, expr: ast.AST, leaves=None):
    an = module_analyzer(model, module)
    res = an.eval(expr, State())
    if len(res) != 1:
        raise CannotFold("conditional expression")
    return Folder(model, leaves).fold(res[0][1])


def need(fn, what):
    """Fold or fail the analysis (exit 2): a required constant that cannot be folded is never guessed."""
    try:
        return fn()
    except CannotFold as e:
        raise AnalysisError(f"cannot fold {what}: {e}")
