"""Path-sensitive dataflow engine over Python `ast` (the .pyx is lowered to the same ast).

Each function is analysed along every structured path. Values are terms of an
SSA-like value graph (sa.terms); a state is (environment, guard facts, heap of
fresh-object fields, enclosing contexts). Conditions split the state and add
guard facts; a branch whose condition is already decided by the facts is not
taken. Loops are analysed once over loop-head phi terms. There is no solver:
facts are matched syntactically (after normalisation) and nothing is executed.

The engine itself decides nothing: it records *events* (calls, subscripts,
stores, raises, returns, conditions) together with the state that reaches them;
rule modules inspect those.
"""
from __future__ import annotations

import ast
from dataclasses import dataclass, field

from .model import AnalysisError, FuncInfo, Model, unparse
from .terms import FALSE, NONE, TRUE, const, show

MAX_STATES = 60000
_MISSING = object()

MUTATORS = {"append", "extend", "insert", "pop", "remove", "clear", "reverse", "sort", "update",
            "add", "discard", "setdefault", "popitem", "reset"}

_SWAP = {"Gt": "Lt", "GtE": "LtE"}
_NEG = {"IsNot": "Is", "NotEq": "Eq", "NotIn": "In"}


MAX_ALTS = 8
MAX_COMBOS = 64


def leaves(t, out=None):
    """The variables a term is about: parameters, attribute chains on parameters, loop phis, fresh objects."""
    out = out if out is not None else set()
    if not isinstance(t, tuple) or not t:
        return out
    tag = t[0]
    if tag in ("param", "phi", "new", "elem", "exc", "unknown"):
        out.add(t)
    elif tag == "attr" and t[1][0] in ("param", "new"):
        out.add(t)
    elif tag in ("const", "builtin", "global", "ext"):
        pass
    else:
        for x in t[1:]:
            if isinstance(x, tuple):
                if x and isinstance(x[0], str):
                    leaves(x, out)
                else:
                    for y in x:
                        if isinstance(y, tuple):
                            if y and isinstance(y[0], str):
                                leaves(y, out)
                            else:
                                for z in y:
                                    if isinstance(z, tuple):
                                        leaves(z, out)
    return out


class Facts(dict):
    """Guard facts of a state: a dict of must-facts common to every path merged into the state, plus `alts`:
    per group of variables (the leaves a fact is about) a bounded disjunction of alternative extra fact sets, one per
    merged path class. For every concrete path of the state and every group, one alternative of the group holds.
    truth() consults the groups a condition is about: decided the same way in every alternative = decided.
    Plain dict access sees only the common part (sound, less precise)."""
    __slots__ = ("alts",)

    def __init__(self, *a, **kw):
        super().__init__(*a, **kw)
        self.alts = {}      # frozenset(leaves) -> tuple of frozenset((fact key, value))

    def copy(self):
        f = Facts(self)
        f.alts = dict(self.alts)
        return f

    def alts_key(self):
        return frozenset(self.alts.items())


def subject(k):
    """The value a guard fact is about: the tested term itself, the left operand of a comparison, the first argument of
    a predicate call - with method calls and slices peeled off."""
    t = k
    if t[0] == "cmp":
        t = t[3] if (t[2][0] == "const" and t[3][0] != "const") else t[2]
    for _ in range(6):
        if t[0] == "call":
            f = t[1]
            if f[0] == "attr" and f[1][0] not in ("global", "ext", "builtin", "const"):
                t = f[1]
                continue
            if t[2] and f[0] in ("builtin", "global", "ext", "attr"):
                if f == ("builtin", "len") or f == ("builtin", "isinstance") or f == ("builtin", "type") or f[0] == "attr" or \
                        (f == ("builtin", "int") and len(t[2]) == 1):      # a fact about int(x) is about x (same group as `x is None`)
                    t = t[2][0]
                    continue
            break
        if t[0] == "sub" and t[2][0] == "slice":
            t = t[1]
            continue
        if t[0] == "unop":
            t = t[2]
            continue
        break
    return t


def _group_of(k):
    return subject(k)


class State:
    __slots__ = ("env", "facts", "heap", "ctx", "trace", "_key")

    def __init__(self, env=None, facts=None, heap=None, ctx=(), trace=()):
        self.env = env if env is not None else {}
        if isinstance(facts, Facts):
            self.facts = facts
        else:
            self.facts = Facts(facts or {})
        self.heap = heap if heap is not None else {}
        self.ctx = ctx
        self.trace = trace      # opt-in: the traced calls / stores executed so far on this path
        self._key = None

    def copy(self):
        return State(dict(self.env), self.facts.copy(), dict(self.heap), self.ctx, self.trace)

    def key(self):
        if self._key is None:
            self._key = (frozenset(self.env.items()), frozenset(self.facts.items()), self.facts.alts_key(),
                         frozenset(self.heap.items()), self.ctx)
        return self._key

    def with_ctx(self, c):
        s = self.copy()
        s.ctx = self.ctx + (c,)
        return s

    def in_ctx(self, kind):
        return [c for c in self.ctx if c[0] == kind]


@dataclass
class Event:
    kind: str            # call | sub | store_sub | attr | store_attr | store_global | raise | return | cond | mutate | assert
    node: ast.AST
    state: State
    data: dict = field(default_factory=dict)

    def __getattr__(self, k):
        try:
            return self.data[k]
        except KeyError:
            raise AttributeError(k)


# ----------------------------------------------------------------------------
# facts
# ----------------------------------------------------------------------------

def norm_atom(t):
    """-> (key term, polarity). `not x`, `!=`, `is not`, `not in`, `>`, `>=` are normalised away."""
    pol = True
    while True:
        tag = t[0]
        if tag == "unop" and t[1] == "Not":
            t = t[2]
            pol = not pol
            continue
        if tag == "cmp":
            op, l, r = t[1], t[2], t[3]
            if op in _NEG:
                t = ("cmp", _NEG[op], l, r)
                pol = not pol
                continue
            if op in _SWAP:
                t = ("cmp", _SWAP[op], r, l)
                continue
            if op in ("Is", "Eq") and l[0] == "const" and r[0] != "const":
                t = ("cmp", op, r, l)
        if tag == "call" and t[1] == ("builtin", "bool") and len(t[2]) == 1 and not t[3]:
            t = t[2][0]
            continue
        return t, pol


def _nonnull(t):
    """Structurally never None."""
    tag = t[0]
    if tag == "const":
        return t[1] is not None
    if tag in ("fstr", "tuple", "list", "set", "dict", "new", "binop", "cmp", "comp"):
        return True
    if tag == "unop":
        return True
    if tag == "call":
        f = t[1]
        if f[0] == "attr" and f[2] in STR_METHODS_NONNULL:
            return True
        if f[0] == "builtin" and f[1] in ("str", "int", "len", "tuple", "list", "bool", "float", "repr", "chr", "ord",
                                            "hash", "isinstance", "issubclass", "type", "reversed", "enumerate",
                                            "set", "frozenset", "bytes", "bytearray", "max", "min", "hex", "dict"):
            return True
    if tag == "mut":
        return True
    return False


STR_METHODS_NONNULL = {"split", "rsplit", "partition", "rpartition", "lower", "upper", "replace", "strip", "lstrip",
                       "rstrip", "join", "encode", "decode", "format", "find", "rfind", "startswith", "endswith",
                       "isascii", "isdigit", "isprintable", "index", "rindex", "casefold", "title", "items", "keys",
                       "values", "copy", "group", "start"}


def _struct_truth(t, facts):
    """Truthiness decided by the shape of the term alone (None if undecided)."""
    tag = t[0]
    if tag == "const":
        try:
            return bool(t[1])
        except Exception:
            return None
    if tag == "fstr":
        if any(p[0] == "const" and p[1] for p in t[1]):
            return True
        return None
    if tag in ("tuple", "list", "set"):
        if any(e[0] != "star" for e in t[1]):
            return True
        if not t[1]:
            return False
        return None
    if tag == "dict":
        return bool(t[1])
    if tag == "new":
        return True
    if tag == "global" and t[1] == "<func>":
        return True
    if tag == "call":
        f = t[1]
        if f[0] == "attr" and f[2] in ("split", "rsplit", "partition", "rpartition"):
            # str.split(sep) always returns at least one element; (r)partition returns a 3-tuple
            if f[2] in ("partition", "rpartition") or t[2]:
                return True
        if f[0] == "builtin" and f[1] in ("tuple", "list") and len(t[2]) == 1:
            return truth(t[2][0], facts)
        if (f[0] == "attr" and f[2] == "format" and f[1][0] == "const") or (f[0] == "attr" and f[2] == "join"):
            # a template in another spelling ("{}:{}".format(a, b)): non-empty literal text makes it truthy
            from .strtpl import flatten
            parts = flatten(t)
            if parts != [("val", t)]:
                if any(p[0] == "lit" and p[1] for p in parts) or any(p[0] == "fmt" for p in parts):
                    return True
    if tag == "binop" and t[1] == "Mod" and t[2][0] == "const" and isinstance(t[2][1], str):
        from .strtpl import flatten
        parts = flatten(t)
        if parts != [("val", t)] and (any(p[0] == "lit" and p[1] for p in parts) or any(p[0] == "fmt" for p in parts)):
            return True
    if tag == "mut":
        if t[2] in ("append", "insert", "add"):
            return True
        if t[2] in ("reverse", "sort"):
            return truth(t[1], facts)
        if t[2] == "extend" and t[3]:
            a = truth(t[1], facts)
            b = truth(t[3][0], facts)
            if a or b:
                return True
            if a is False and b is False:
                return False
        if t[2] == "setitem":
            return True
        if t[2] == "clear":
            return False
    if tag == "binop" and t[1] == "Add":
        a, b = truth(t[2], facts), truth(t[3], facts)
        if a or b:
            return True
        if a is False and b is False:
            return False
    return None


def truth(t, facts):
    """Truth value of term t under the facts: True / False / None (unknown)."""
    k, pol = norm_atom(t)
    v = _truth_alts(k, facts)
    if v is None:
        return None
    return v if pol else not v


def alternatives(facts, about=None):
    """The fact sets a (possibly merged) state stands for, restricted to the variable groups `about` mentions:
    one plain dict per combination of alternatives (bounded)."""
    alts = getattr(facts, "alts", None)
    if not alts:
        return [facts]
    if about is not None:
        abouts = about if isinstance(about, (list, set)) else [about]
        groups = [g for g in alts if any(_related(g, a) for a in abouts)]
    else:
        groups = list(alts)
    if not groups:
        return [facts]
    combos = [dict(facts)]
    for g in groups:
        nxt = []
        for c in combos:
            for alt in alts[g]:
                d = dict(c)
                d.update(alt)
                nxt.append(d)
        combos = nxt
        if len(combos) > MAX_COMBOS:
            return [facts]
    return combos


def _related(g, a):
    """Is the fact group about value g relevant for deciding something about term a?"""
    from .terms import walk
    if g == a:
        return True
    for x in walk(a):
        if x == g:
            return True
    for x in walk(g):
        if x == a:
            return True
    return False


def _truth_alts(k, facts):
    v = _truth_key(k, facts)
    if v is None and getattr(facts, "alts", None):
        vals = set()
        for d in alternatives(facts, k):
            if d is facts:
                return None
            vals.add(_truth_key(k, d))
            if len(vals) > 1:
                return None
        if len(vals) == 1:
            v = vals.pop()
    return v


def _truth_key(k, facts):
    if k in facts:
        return facts[k]
    tag = k[0]
    if tag == "cmp":
        op, l, r = k[1], k[2], k[3]
        if l[0] == "const" and r[0] == "const":
            try:
                a, b = l[1], r[1]
                return {"Is": lambda: a is b, "Eq": lambda: a == b, "Lt": lambda: a < b, "LtE": lambda: a <= b,
                        "In": lambda: a in b}[op]()
            except Exception:
                return None
        if op == "Is" and r == NONE:
            if _nonnull(l):
                return False
            if facts.get(l) is True:
                return False
            if l[0] == "param" and False:
                return None
            for (fk, fv) in _eq_facts(l, facts):
                if fv:
                    return fk[1] is None
            # identity is transitive: `x is y` known and `y is None` known (the chained spelling `x is y is None`)
            for fk, fv in facts.items():
                if fv is True and fk[0] == "cmp" and fk[1] == "Is" and l in (fk[2], fk[3]) and fk[3] != NONE:
                    other = fk[3] if fk[2] == l else fk[2]
                    if other != l and facts.get(("cmp", "Is", other, NONE)) is True:
                        return True
            return None
        if op == "Is" and l == r:
            return True
        if op == "Eq":
            if l == r:
                return True
            if ("cmp", "Eq", r, l) in facts:
                return facts[("cmp", "Eq", r, l)]      # equality reads the same either way round
            if r[0] == "const":
                # x not in (a, b, ...) known  =>  x != a ;  x in (a,) known => x == a
                for fk, fv in facts.items():
                    if fk[0] == "cmp" and fk[1] == "In" and fk[2] == l and fk[3][0] == "const" and \
                            isinstance(fk[3][1], (tuple, frozenset, list, set)):
                        try:
                            member = r[1] in fk[3][1]
                        except TypeError:
                            continue
                        if fv is False and member:
                            return False
                        if fv is True and not member:
                            return False
                        if fv is True and member and len(fk[3][1]) == 1:
                            return True
                tl = truth(l, facts)
                try:
                    br = bool(r[1])
                except Exception:
                    br = None
                if tl is not None and br is not None and tl != br:
                    return False
                if facts.get(("cmp", "Is", l, NONE)) is True:
                    return r[1] is None
                for (fk, fv) in _eq_facts(l, facts):
                    if fv:
                        return fk == r
                if r[1] is None and _nonnull(l):
                    return False
            return None
        if op in ("Lt", "LtE"):
            # a <= b  ==  not (b < a);  a < b  ==  not (b <= a)
            other = ("cmp", "Lt" if op == "LtE" else "LtE", r, l)
            if other in facts:
                return not facts[other]
            if op == "LtE" and facts.get(("cmp", "Lt", l, r)) is True:
                return True
            # x in range(a, b) with constant bounds  =>  a <= x < b
            for fk, fv in facts.items():
                if fv is True and fk[0] == "cmp" and fk[1] == "In" and fk[3][0] == "call" and fk[3][1] == ("builtin", "range") \
                        and fk[2] in (l, r) and all(a[0] == "const" and isinstance(a[1], int) for a in fk[3][2]) and 1 <= len(fk[3][2]) <= 2:
                    lo, hi = (0, fk[3][2][0][1]) if len(fk[3][2]) == 1 else (fk[3][2][0][1], fk[3][2][1][1])
                    x = fk[2]
                    if l[0] == "const" and isinstance(l[1], int) and r == x and (l[1] <= lo if op == "LtE" else l[1] < lo):
                        return True
                    if r[0] == "const" and isinstance(r[1], int) and l == x and (hi - 1 <= r[1] if op == "LtE" else hi - 1 < r[1]):
                        return True
        if op == "In" and l[0] == "const" and isinstance(l[1], str) and len(l[1]) == 1:
            # `c in x` read off the other ways of asking: the separator of x.partition(c) / x.rpartition(c), the sign of x.find(c)
            for fk, fv in facts.items():
                probe = fk
                if probe[0] in ("item", "sub") and (probe[2] == 1 or probe[2] == ("const", 1)) and probe[1][0] == "call" and \
                        probe[1][1][0] == "attr" and probe[1][1][1] == r and probe[1][1][2] in ("partition", "rpartition") and \
                        probe[1][2] == (l,):
                    return fv
                if probe[0] == "cmp" and probe[1] in ("Lt", "Eq", "LtE"):
                    for pos_, other in ((probe[2], probe[3]), (probe[3], probe[2])):
                        if pos_[0] == "call" and pos_[1][0] == "attr" and pos_[1][1] == r and pos_[1][2] in ("find", "rfind") and \
                                pos_[2][:1] == (l,) and len(pos_[2]) == 1 and other[0] == "const":
                            if probe[1] == "Eq" and other[1] == -1:
                                return not fv
                            if probe[1] == "Lt" and pos_ is probe[2] and other[1] == 0:
                                return not fv
                            if probe[1] == "LtE" and pos_ is probe[3] and other[1] == 0:      # 0 <= x.find(c)
                                return fv
        if op == "In":
            # x in <empty const>
            if r[0] == "const" and isinstance(r[1], (str, tuple, bytes)) and len(r[1]) == 0 and op == "In":
                if not (isinstance(r[1], (str, bytes)) ):
                    return False
            return None
        return None
    if tag == "call" and k[1][0] == "attr" and not k[2] and not k[3]:
        # str predicates on a value known to be empty
        m = k[1][2]
        if m in ("isascii", "isprintable") and truth(k[1][1], facts) is False:
            return True
        if m in ("isdigit", "isalpha", "isalnum", "isupper", "islower", "isspace") and truth(k[1][1], facts) is False:
            return False
    # truthiness of an arbitrary term
    st = _struct_truth(k, facts)
    if st is not None:
        return st
    if facts.get(("cmp", "Is", k, NONE)) is True:
        return False
    for (fk, fv) in _eq_facts(k, facts):
        if fv:
            try:
                return bool(fk[1])
            except Exception:
                return None
    return None


def deep_walk(res, t, keep=()):
    """Every sub-term of t, looking through loop-carried variables: a phi is followed into the values it can hold (so a list
    built by appends in a loop exposes what was appended). Phis listed in `keep` are reported but not followed."""
    from .terms import walk
    seen, todo = set(), [t]
    while todo:
        for x in walk(todo.pop()):
            yield x
            if x[0] == "phi" and x not in keep and x not in seen:
                seen.add(x)
                todo.extend(res.phis.get((x[1], x[2]), ()))


def order_facts(facts):
    """(op, a, b) for every order relation known true on the path, whichever way the code spelled the test:
    a < b false is b <= a, a <= b false is b < a."""
    for k, v in facts.items():
        if k[0] != "cmp" or k[1] not in ("Lt", "LtE"):
            continue
        if v is True:
            yield k[1], k[2], k[3]
        elif v is False:
            yield ("LtE" if k[1] == "Lt" else "Lt"), k[3], k[2]


def _eq_facts(t, facts):
    """(const term, truth) for every fact `t == const`."""
    for fk, fv in facts.items():
        if fk[0] == "cmp" and fk[1] == "Eq" and fk[2] == t and fk[3][0] == "const":
            yield fk[3], fv


def assume(state: State, t, val: bool):
    """State refined with `t is val`, or None when that contradicts the facts (infeasible path)."""
    k, pol = norm_atom(t)
    v = (val == pol)
    cur = _truth_alts(k, state.facts)
    if cur is not None:
        return state if cur == v else None
    s = state.copy()
    if s.facts.alts:
        for g in [g for g in s.facts.alts if _related(g, k)]:
            keep = []
            for alt in s.facts.alts[g]:
                d = dict(s.facts)
                d.update(alt)
                if _truth_key(k, d) in (None, v):
                    keep.append(alt)
            if not keep:
                return None
            if len(keep) == 1:
                s.facts.update(keep[0])
                del s.facts.alts[g]
            else:
                s.facts.alts[g] = tuple(keep)
    s.facts[k] = v
    _derive(s.facts, k, v)
    return s


def _derive(facts, k, v):
    def setf(key, val):
        if key[0] == "const":
            return
        if _truth_key(key, facts) is None:
            facts[key] = val
            _derive(facts, key, val)

    tag = k[0]
    if tag == "cmp":
        op, l, r = k[1], k[2], k[3]
        if op == "Is" and r == NONE and v:
            setf(l, False)
        if op == "Eq" and r[0] == "const" and v:
            try:
                setf(l, bool(r[1]))
            except Exception:
                pass
            if r[1] is not None:
                setf(("cmp", "Is", l, NONE), False)
        if op == "Eq" and l[0] == "call" and l[1] == ("builtin", "len") and r[0] == "const" and v \
                and isinstance(r[1], int) and len(l[2]) == 1:
            setf(l[2][0], r[1] > 0)
        if op == "In" and v:
            # something is contained in r  =>  r is non-empty
            setf(r, True)
        if op in ("Lt", "LtE") and v:
            # 0 < s.find(x), 0 <= s.find(x) with a non-empty needle  =>  s non-empty
            for a, b in ((l, r),):
                if a[0] == "const" and isinstance(a[1], int) and a[1] >= 0 and b[0] == "call" \
                        and b[1][0] == "attr" and b[1][2] in ("find", "rfind", "index", "rindex"):
                    if op == "Lt" or (b[2] and b[2][0][0] == "const" and b[2][0][1]):
                        setf(b[1][1], True)
                # i < len(x) with i >= 0 is left to the rules
        if op in ("Lt", "LtE") and not v:
            # not (a < b)  ==  b <= a ;  not (a <= b)  ==  b < a : the consequences of the true form apply
            _derive(facts, ("cmp", "LtE" if op == "Lt" else "Lt", r, l), True)
    else:
        if v:
            setf(("cmp", "Is", k, NONE), False)
            if tag == "call" and k[1] == ("builtin", "len") and len(k[2]) == 1:
                setf(k[2][0], True)
            if tag == "call" and k[1][0] == "attr" and k[1][2] in ("startswith", "endswith") and k[2] \
                    and k[2][0][0] == "const" and k[2][0][1]:
                setf(k[1][1], True)
            if tag == "call" and k[1] == ("builtin", "isinstance") and len(k[2]) == 2:
                setf(("cmp", "Is", k[2][0], NONE), False)
        else:
            if tag == "call" and k[1] == ("builtin", "len") and len(k[2]) == 1:
                setf(k[2][0], False)


# ----------------------------------------------------------------------------
# helpers on ast
# ----------------------------------------------------------------------------

_METHOD_ALIASES: dict = {}      # local name -> container name, for `append = xs.append` in the function being analysed


def method_aliases(fn_node) -> dict:
    out = {}
    for n in ast.walk(fn_node):
        if isinstance(n, ast.Assign) and len(n.targets) == 1 and isinstance(n.targets[0], ast.Name) and \
                isinstance(n.value, ast.Attribute) and isinstance(n.value.value, ast.Name) and n.value.attr in MUTATORS:
            out[n.targets[0].id] = n.value.value.id
    return out


def assigned_names(nodes) -> set:
    """Names (re)bound or mutated in place anywhere inside the statements."""
    out = set()
    for st in nodes:
        for n in ast.walk(st):
            if isinstance(n, ast.Call) and isinstance(n.func, ast.Name) and n.func.id in _METHOD_ALIASES:
                out.add(_METHOD_ALIASES[n.func.id])
            if isinstance(n, ast.Name) and isinstance(n.ctx, (ast.Store, ast.Del)):
                out.add(n.id)
            elif isinstance(n, ast.Call) and isinstance(n.func, ast.Attribute) and n.func.attr in MUTATORS \
                    and isinstance(n.func.value, ast.Name):
                out.add(n.func.value.id)
            elif isinstance(n, (ast.Subscript, ast.Attribute)) and isinstance(n.ctx, (ast.Store, ast.Del)):
                b = n.value
                while isinstance(b, (ast.Subscript, ast.Attribute)):
                    b = b.value
                if isinstance(b, ast.Name) and isinstance(n, ast.Subscript):
                    out.add(b.id)
    return out


class Result:
    def __init__(self, fi: FuncInfo):
        self.fi = fi
        self.events: list[Event] = []
        self.returns: list[tuple[State, tuple, ast.AST]] = []
        self.raises: list[tuple[State, tuple, ast.AST]] = []
        self.falls: list[State] = []
        self.phis: dict = {}          # (loop_id, name) -> set of source terms
        self.loops: dict = {}         # loop_id -> node
        self.backedges: dict = {}     # loop_id -> states at the end of the body / at `continue`
        self.phi_facts: dict = {}     # (loop_id, name, source term) -> [facts holding where the source was produced]
        self.max_live = 0
        self.paths = 0

    def by_kind(self, *kinds):
        return [e for e in self.events if e.kind in kinds]

    def calls(self, pred=None):
        return [e for e in self.events if e.kind == "call" and (pred is None or pred(e))]

    def phi_sources(self, t, seen=None):
        """Transitive non-phi sources of a phi term."""
        seen = seen if seen is not None else set()
        out = set()
        if t[0] != "phi":
            return {t}
        if t in seen:
            return out
        seen.add(t)
        for s in self.phis.get((t[1], t[2]), ()):
            if s[0] == "phi":
                out |= self.phi_sources(s, seen)
            else:
                out.add(s)
        return out


class Analyzer:
    def __init__(self, model: Model, fi: FuncInfo, bindings: dict | None = None, trace=None, merge=True):
        self.merge = merge      # False: states are merged only when identical (full path-sensitivity; small functions)
        self.trace = trace      # predicate(kind, term) -> bool: which calls/stores are appended to State.trace
        self.model = model
        self.fi = fi
        self.res = Result(fi)
        self.bindings = bindings or {}
        self._loop_n = 0
        self._new_n = 0
        self._unk_n = 0
        self._global_names = set()
        self._frames = []       # inline frames: calls to package helpers that are not anchors are analysed in place

    # -- entry ---------------------------------------------------------------
    def run(self, init: State | None = None) -> Result:
        s = init.copy() if init is not None else State()
        for p in self.fi.params:
            s.env[p] = self.bindings.get(p, ("param", p))
        for n in ast.walk(self.fi.node):
            if isinstance(n, ast.Global):
                self._global_names.update(n.names)
        global _METHOD_ALIASES
        saved_aliases = _METHOD_ALIASES
        _METHOD_ALIASES = method_aliases(self.fi.node)
        try:
            falls = self.exec_block(self.fi.node.body, [s], {"break": [], "continue": []})
        finally:
            _METHOD_ALIASES = saved_aliases
        self.res.falls = falls
        self.res.paths = len(falls) + len(self.res.returns) + len(self.res.raises)
        return self.res

    def event(self, kind, node, state, **data):
        e = Event(kind, node, state, data)
        self.res.events.append(e)
        return e

    def unknown(self, why):
        self._unk_n += 1
        return ("unknown", why, self._unk_n)

    # -- statements ----------------------------------------------------------
    def dedupe(self, states):
        """Merge states that agree on environment, heap and context; their guard facts are
        intersected (a sound join for must-facts). Correlations between facts and *values* are kept
        because states with different environments are never merged."""
        groups = {}
        for s in states:
            k = (frozenset(s.env.items()), frozenset(s.heap.items()), s.ctx, s.trace)
            if not self.merge:
                k = k + (frozenset(s.facts.items()),)
            g = groups.get(k)
            if g is None:
                groups[k] = s
            elif g.facts != s.facts or g.facts.alts != s.facts.alts:
                m = g.copy()
                common = Facts({fk: fv for fk, fv in g.facts.items() if s.facts.get(fk, _MISSING) == fv})
                per_state = []
                for st in (g, s):
                    extra = {}
                    for fk, fv in st.facts.items():
                        if fk not in common:
                            extra.setdefault(_group_of(fk), set()).add((fk, fv))
                    per_state.append(extra)
                for grp in set(per_state[0]) | set(per_state[1]) | set(g.facts.alts) | set(s.facts.alts):
                    alts = set()
                    for st, extra in zip((g, s), per_state):
                        own = frozenset(extra.get(grp, ()))
                        for alt in (st.facts.alts.get(grp) or (frozenset(),)):
                            alts.add(own | alt)
                    if frozenset() in alts or len(alts) > MAX_ALTS:
                        continue
                    common.alts[grp] = tuple(sorted(alts, key=lambda a: sorted(map(repr, a))))
                m.facts = common
                groups[k] = m
        out = list(groups.values())
        if len(out) > self.res.max_live:
            self.res.max_live = len(out)
        if len(out) > MAX_STATES:
            raise AnalysisError(f"state cap exceeded in {self.fi.qual} ({len(out)} live states)")
        return out

    def exec_block(self, stmts, states, jumps):
        for st in stmts:
            if not states:
                break
            states = self.dedupe(self.exec_stmt(st, states, jumps))
        return states

    def exec_stmt(self, st, states, jumps):
        m = getattr(self, "s_" + type(st).__name__, None)
        if m is None:
            raise AnalysisError(f"statement kind {type(st).__name__} not supported ({self.fi.qual}:{getattr(st, 'lineno', 0)})")
        out = []
        for s in states:
            out.extend(m(st, s, jumps))
        return out

    def s_Pass(self, st, s, j):
        return [s]

    s_Import = s_ImportFrom = s_Global = s_Nonlocal = s_Pass

    def s_FunctionDef(self, st, s, j):
        s = s.copy()
        s.env[self._k(st.name)] = self.unknown("nested-def")
        return [s]

    s_ClassDef = s_FunctionDef

    def s_Expr(self, st, s, j):
        return [s2 for s2, _ in self.eval(st.value, s)]

    def s_Assign(self, st, s, j):
        out = []
        for s2, v in self.eval(st.value, s):
            s3 = s2
            for tgt in st.targets:
                s3 = self.assign(tgt, v, s3, st)
            out.append(s3)
        return out

    def s_AnnAssign(self, st, s, j):
        if st.value is None:
            return [s]
        return [self.assign(st.target, v, s2, st) for s2, v in self.eval(st.value, s)]

    def s_AugAssign(self, st, s, j):
        out = []
        load = _as_load(st.target)
        for s2, cur in self.eval(load, s):
            for s3, v in self.eval(st.value, s2):
                out.append(self.assign(st.target, _fold_int(type(st.op).__name__, cur, v), s3, st))
        return out

    def s_Delete(self, st, s, j):
        s = s.copy()
        for t in st.targets:
            if isinstance(t, ast.Name):
                s.env[self._k(t.id)] = self.unknown("deleted")
            elif isinstance(t, ast.Subscript):
                # `del x[i]`: the element must exist (same obligation as a load) and x is changed in place
                s1, base = self.eval(t.value, s)[0]
                s2, idx = self.eval(t.slice, s1)[0]
                self.event("sub", t, s2, base=base, index=idx, value=("sub", base, idx))
                self.event("mutate", t, s2, recv=base, method="delitem", args=(idx,), new=("mut", base, "delitem", (idx,)),
                           on_name=self._outer_name(t.value.id) if isinstance(t.value, ast.Name) else None)
                s = s2.copy()
                if isinstance(t.value, ast.Name):
                    s.env[self._k(t.value.id)] = ("mut", base, "delitem", (idx,))
        return [s]

    def s_Return(self, st, s, j):
        if st.value is None:
            if self._frames:
                self._frames[-1]["returns"].append((s, NONE))
                return []
            self.res.returns.append((s, NONE, st))
            self.event("return", st, s, value=NONE)
            return []
        for s2, v in self.eval(st.value, s):
            if self._frames:
                self._frames[-1]["returns"].append((s2, v))
                continue
            self.res.returns.append((s2, v, st))
            self.event("return", st, s2, value=v)
        return []

    def s_Raise(self, st, s, j):
        if st.exc is None:
            self.res.raises.append((s, ("const", "<reraise>"), st))
            self.event("raise", st, s, exc=("const", "<reraise>"), cause=None)
            return []
        for s2, v in self.eval(st.exc, s):
            self.res.raises.append((s2, v, st))
            self.event("raise", st, s2, exc=v, cause=st.cause)
        return []

    def s_Assert(self, st, s, j):
        out = []
        for s2, v in self.eval(st.test, s):
            self.event("assert", st, s2, test=v)
            s3 = assume(s2, v, True)
            if s3 is not None:
                out.append(s3)
        return out

    def s_Break(self, st, s, j):
        j["break"].append(s)
        return []

    def s_Continue(self, st, s, j):
        j["continue"].append(s)
        return []

    def s_If(self, st, s, j):
        out = []
        for s2, v in self.eval(st.test, s):
            self.event("cond", st, s2, test=v, stmt=st)
            sT = assume(s2, v, True)
            if sT is not None:
                out.extend(self.exec_block(st.body, [sT], j))
            sF = assume(s2, v, False)
            if sF is not None:
                out.extend(self.exec_block(st.orelse, [sF], j))
        return out

    def _helper_mutated_args(self, body):
        """Caller variables handed to a helper that is analysed in place and changes that parameter in place
        (`_resolve_segment(resolved_path, seg)` appends to / pops from its first parameter): loop-carried like any other
        variable the loop body changes."""
        out = set()
        transparent = self.model.transparent()
        for st in body:
            for n in ast.walk(st):
                if not isinstance(n, ast.Call):
                    continue
                target = None
                skip = 0
                if isinstance(n.func, ast.Name):
                    r = self.model.resolve_global(self.fi.module, n.func.id)
                    if r and r[0] == "func" and r[1].qual in transparent:
                        target = r[1]
                elif isinstance(n.func, ast.Attribute) and isinstance(n.func.value, ast.Name) and n.func.value.id in ("self", "cls") and self.fi.cls:
                    q = f"{self.fi.module}.{self.fi.cls}.{n.func.attr}"
                    if q in transparent and self.model.has_func(q):
                        target, skip = self.model.func(q), 1
                if target is None:
                    continue
                a = target.node.args
                pos = [x.arg for x in a.posonlyargs + a.args][skip:]
                changed = assigned_names(target.node.body)
                for p_, arg in zip(pos, n.args):
                    if isinstance(arg, ast.Name) and p_ in changed:
                        out.add(arg.id)
        return out

    def _loop_head(self, s, body, lid, extra=()):
        names = {self._k(n) for n in assigned_names(body) | set(extra) | self._helper_mutated_args(body)}
        head = s.copy()
        for n in sorted(names):
            src = head.env.get(n, ("unknown", "unbound", 0))
            self.res.phis.setdefault((lid, n), set()).add(src)
            self.res.phi_facts.setdefault((lid, n, src), []).append(s.facts)
            head.env[n] = ("phi", lid, n)
        head.ctx = head.ctx + (("loop", lid),)
        return head, names

    def _loop_back(self, lid, names, states):
        self.res.backedges.setdefault(lid, []).extend(states)
        for s in states:
            for n in names:
                if n in s.env and s.env[n] != ("phi", lid, n):
                    self.res.phis[(lid, n)].add(s.env[n])
                    self.res.phi_facts.setdefault((lid, n, s.env[n]), []).append(s.facts)

    def _pop_ctx(self, s, c):
        s2 = s.copy()
        ctx = list(s2.ctx)
        for i in range(len(ctx) - 1, -1, -1):
            if ctx[i] == c:
                del ctx[i]
                break
        s2.ctx = tuple(ctx)
        return s2

    def _filtered_for(self, st):
        """`for t in (x for x in xs if c)` (or the list form) is `for x in xs: if c: t = x; body`: the body then runs
        under the filter's facts about the element."""
        it = st.iter
        if not isinstance(it, (ast.GeneratorExp, ast.ListComp)) or len(it.generators) != 1:
            return None
        gen = it.generators[0]
        if gen.is_async or not gen.ifs or not isinstance(gen.target, ast.Name) or not isinstance(it.elt, ast.Name) \
                or it.elt.id != gen.target.id:
            return None
        d = getattr(st, "_desugared", None)
        if d is None:
            test = gen.ifs[0] if len(gen.ifs) == 1 else ast.BoolOp(op=ast.And(), values=list(gen.ifs))
            bind = [] if (isinstance(st.target, ast.Name) and st.target.id == gen.target.id) else \
                [ast.Assign(targets=[st.target], value=ast.Name(id=gen.target.id, ctx=ast.Load()))]
            d = ast.For(target=ast.Name(id=gen.target.id, ctx=ast.Store()), iter=gen.iter,
                        body=[ast.If(test=test, body=bind + list(st.body), orelse=[])], orelse=list(st.orelse))
            ast.copy_location(d, st)
            for n in (d.body[0], *bind):
                ast.copy_location(n, st)
            ast.fix_missing_locations(d)
            d._parent = getattr(st, "_parent", None)
            st._desugared = d
        return d

    def s_For(self, st, s, j):
        d = self._filtered_for(st)
        if d is not None:
            return self.s_For(d, s, j)
        out = []
        for s2, it in self.eval(st.iter, s):
            # a module-level dispatch table - a tuple of (key, handler) tuples - is walked entry by entry
            table = self._module_tuple(it) if it[0] == "global" and it[1] in self.model.modules else None
            if table is not None and 1 <= len(table[1]) <= 8 and all(x[0] == "tuple" for x in table[1]) and \
                    isinstance(st.target, (ast.Tuple, ast.List)):
                live, broke = [s2], []
                for entry in table[1]:
                    nxt = []
                    lj = {"break": [], "continue": []}
                    for st_ in live:
                        nxt.extend(self.exec_block(st.body, [self.assign(st.target, entry, st_, st)], lj))
                    live = nxt + lj["continue"]
                    broke.extend(lj["break"])
                    if not live:
                        break
                after = self.exec_block(st.orelse, live, j) if st.orelse and live else live
                out.extend(after)
                out.extend(broke)
                continue
            self._loop_n += 1
            lid = self._loop_n
            self.res.loops[lid] = st
            self.event("iter", st, s2, iterable=("elem", it, lid))        # the loop itself, whether or not its target is used
            tnames = {n.id for n in ast.walk(st.target) if isinstance(n, ast.Name)}
            head, names = self._loop_head(s2, st.body, lid, tnames)
            body_in = self.assign(st.target, ("elem", it, lid), head, st)
            lj = {"break": [], "continue": []}
            falls = self.exec_block(st.body, [body_in], lj)
            self._loop_back(lid, names, falls + lj["continue"])
            c = ("loop", lid)
            exhausted = self._pop_ctx(head, c)
            after = self.exec_block(st.orelse, [exhausted], j) if st.orelse else [exhausted]
            out.extend(after)
            out.extend(self._pop_ctx(b, c) for b in lj["break"])
        return out

    def _unroll_while(self, st, s, limit=8):
        """A `while` whose test is decided by integer literals on entry and after every iteration (a constant counter such as
        `shift = 12; while shift: shift -= 6; ...`) is the straight-line repetition of its body. None = not such a loop."""
        if st.orelse or any(isinstance(n, (ast.Break, ast.Continue, ast.While, ast.For, ast.ListComp, ast.GeneratorExp, ast.SetComp,
                                           ast.DictComp, ast.Try, ast.With)) for b in st.body for n in ast.walk(b)):
            return None
        names = {n.id for n in ast.walk(st.test) if isinstance(n, ast.Name)}
        if not names or not all(isinstance(n, (ast.Name, ast.Constant, ast.Compare, ast.UnaryOp, ast.Not, ast.Load, ast.cmpop, ast.BoolOp,
                                               ast.And, ast.Or)) for n in ast.walk(st.test)):
            return None
        if not all(s.env.get(self._k(n), ("?",))[0] == "const" for n in names):
            return None
        snap = (len(self.res.events), len(self.res.returns), len(self.res.raises), [len(fr["returns"]) for fr in self._frames])

        def rollback():
            del self.res.events[snap[0]:], self.res.returns[snap[1]:], self.res.raises[snap[2]:]
            for fr, n in zip(self._frames, snap[3]):
                del fr["returns"][n:]
        states, out = [s], []
        for _ in range(limit + 1):
            nxt = []
            for s1 in states:
                for s2, v in self.eval(st.test, s1):
                    tv = truth(v, s2.facts) if v[0] != "const" else bool(v[1])
                    if v[0] != "const" and not all(s2.env.get(self._k(n), ("?",))[0] == "const" for n in names):
                        tv = None
                    if tv is None:
                        rollback()
                        return None
                    if tv:
                        nxt.extend(self.exec_block(st.body, [s2], {"break": [], "continue": []}))
                    else:
                        out.append(s2)
            states = nxt
            if not states:
                return out
        rollback()
        return None

    def s_While(self, st, s, j):
        unrolled = self._unroll_while(st, s)
        if unrolled is not None:
            return unrolled
        self._loop_n += 1
        lid = self._loop_n
        self.res.loops[lid] = st
        head, names = self._loop_head(s, st.body, lid)
        c = ("loop", lid)
        out = []
        lj = {"break": [], "continue": []}
        backs = []
        for s2, v in self.eval(st.test, head):
            self.event("cond", st, s2, test=v, stmt=st)
            sT = assume(s2, v, True)
            if sT is not None:
                backs.extend(self.exec_block(st.body, [sT], lj))
            sF = assume(s2, v, False)
            if sF is not None:
                ex = self._pop_ctx(sF, c)
                out.extend(self.exec_block(st.orelse, [ex], j) if st.orelse else [ex])
        self._loop_back(lid, names, backs + lj["continue"])
        out.extend(self._pop_ctx(b, c) for b in lj["break"])
        return out

    def s_With(self, st, s, j):
        states = [s]
        items = []
        for item in st.items:
            nxt = []
            for s1 in states:
                for s2, v in self.eval(item.context_expr, s1):
                    if item.optional_vars is not None:
                        s2 = self.assign(item.optional_vars, ("call", ("attr", v, "__enter__"), (), ()), s2, st)
                    nxt.append(s2)
                    if v not in items:
                        items.append(v)
            states = nxt
        c = ("with", tuple(items))
        inner = [x.with_ctx(c) for x in states]
        falls = [self._pop_ctx(x, c) for x in self.exec_block(st.body, inner, _WrapJumps(j, self, c))]
        # a suppressing context manager: the body may be abandoned at any point
        if any(_is_suppress(v) for v in items):
            names = assigned_names(st.body)
            for s1 in states:
                s3 = s1.copy()
                for n in names:
                    s3.env[self._k(n)] = self.unknown("suppressed")
                falls.append(s3)
        return falls

    def s_Try(self, st, s, j):
        eafp = getattr(st, "_eafp", False)
        if eafp is False:
            eafp = st._eafp = self._eafp_lookup(st)
        if eafp is not None:
            return self.exec_stmt(eafp, [s], j)
        htypes = tuple(unparse(h.type) if h.type is not None else "BaseException" for h in st.handlers)
        c = ("try", htypes, bool(st.finalbody))
        r0, x0 = len(self.res.returns), len(self.res.raises)
        lj = {"break": [], "continue": []}
        falls = self.exec_block(st.body, [s.with_ctx(c)], lj)
        falls = [self._pop_ctx(x, c) for x in falls]
        # EAFP emptiness test: `try: <expr with x[0] / x[-1], no calls> except IndexError: ...` - the handler runs exactly when
        # x is empty, the statement completes exactly when it is not
        probe = self._index_probe(st, s)
        if probe is not None:
            falls = [y for y in (assume(x, probe, True) for x in falls) if y is not None]
        if st.orelse:
            falls = self.exec_block(st.orelse, falls, lj)
        out = list(falls)
        names = assigned_names(st.body)
        # a name whose only assignment in the try body is the final statement keeps its previous value in the
        # handlers: if that statement raised, the assignment did not happen
        last = st.body[-1] if st.body else None
        keep = set()
        if isinstance(last, (ast.Assign, ast.AnnAssign)) and last.value is not None:
            tg = last.targets if isinstance(last, ast.Assign) else [last.target]
            if all(isinstance(t, ast.Name) for t in tg):
                keep = {t.id for t in tg} - assigned_names(st.body[:-1]) - assigned_names([ast.Expr(value=last.value)])
        names = names - keep
        for h in st.handlers:
            hs = s.copy()
            for n in names:
                hs.env[self._k(n)] = self.unknown("try-interrupted")
            hs.ctx = hs.ctx + (("except", unparse(h.type) if h.type is not None else "BaseException"),)
            if self.trace is not None:
                # a traced analysis remembers that the protected statements were attempted and failed
                hs.trace = hs.trace + (("handled", unparse(h.type) if h.type is not None else "BaseException", st.lineno),)
            if h.name:
                self._new_n += 1
                hs.env[self._k(h.name)] = ("exc", unparse(h.type) if h.type is not None else "BaseException", self._new_n)
            if probe is not None and isinstance(h.type, ast.Name) and h.type.id == "IndexError":
                hs = assume(hs, probe, False)
                if hs is None:
                    continue
            hf = self.exec_block(h.body, [hs], lj)
            out.extend(self._pop_ctx(x, hs.ctx[-1]) for x in hf)
        if st.finalbody:
            fin_in = list(out) + [x for x in lj["break"]] + [x for x in lj["continue"]]
            # the finally body also runs on return / raise paths that started inside the try
            abrupt = [self._pop_ctx(t[0], c) for t in self.res.returns[r0:]] + \
                     [self._pop_ctx(t[0], c) for t in self.res.raises[x0:]]
            fc = ("finally", )
            fin_out = self.exec_block(st.finalbody, [x.with_ctx(fc) for x in out], j)
            out = [self._pop_ctx(x, fc) for x in fin_out]
            self.exec_block(st.finalbody, [x.with_ctx(("finally", "abrupt")) for x in abrupt], {"break": [], "continue": []})
        j["break"].extend(lj["break"])
        j["continue"].extend(lj["continue"])
        return out

    def _module_tuple(self, base):
        """The ("tuple", elements) term of a module-level name initialised once with a tuple display, else None."""
        key = ("modtuple", base)
        cache = self.model.__dict__.setdefault("_modtuple_cache", {})
        if key not in cache:
            cache[key] = None
            r = self.model.resolve_global(base[1], base[2])
            if r and r[0] == "value" and len(r[3]) == 1 and isinstance(getattr(r[3][0], "value", None), ast.Tuple):
                try:
                    from .fold import CannotFold, module_value
                    t = module_value(self.model, r[1], r[2])
                    if t[0] == "tuple":
                        cache[key] = t
                except Exception:
                    cache[key] = None
        return cache[key]

    def _truth_table(self, base, idx, s):
        """TABLE[bool(a), b == c] for a module-level dict display whose keys are tuples of True/False covering every combination:
        one path per feasible combination, with the entry as a constant. -> [(state, value term)] or None."""
        import itertools
        def cond_of(t):
            if t[0] == "call" and t[1] == ("builtin", "bool") and len(t[2]) == 1 and not t[3]:
                return t[2][0]
            if t[0] == "cmp" or (t[0] == "unop" and t[1] == "Not") or t[0] == "boolop":
                return t
            return None
        conds = [cond_of(x) for x in idx[1]]
        if base[0] != "global" or base[1] not in self.model.modules:
            return None
        r = self.model.resolve_global(base[1], base[2])
        if not r or r[0] != "value" or len(r[3]) != 1 or not isinstance(getattr(r[3][0], "value", None), ast.Dict):
            return None
        table = {}
        d = r[3][0].value
        for kn, vn in zip(d.keys, d.values):
            if not (isinstance(kn, ast.Tuple) and len(kn.elts) == len(conds) and
                    all(isinstance(x, ast.Constant) and type(x.value) in (bool, int, str) for x in kn.elts)
                    and isinstance(vn, ast.Constant) and type(vn.value) in (str, int)):
                return None
            table[tuple(x.value for x in kn.elts)] = vn.value
        # a component is a truth value (keys True / False: both must occur) or any other value compared with the key's literal
        for i, c in enumerate(conds):
            col = {k[i] for k in table}
            if all(type(v) is bool for v in col):
                if c is None or col != {False, True}:
                    return None
            elif any(type(v) is bool for v in col):
                return None
        out = []
        for combo, value in table.items():
            cur = s
            for c, t, v in zip(conds, idx[1], combo):
                if cur is None:
                    break
                cur = assume(cur, c, v) if type(v) is bool else assume(cur, ("cmp", "Eq", t, ("const", v)), True)
            if cur is not None:
                out.append((cur, ("const", value)))
        return out or None

    def _eafp_lookup(self, st):
        """`try: return D[k]` / `except KeyError: return v` (or the same with an assignment to one name) for a module-level dict
        display D is `D.get(k, v)`: the rewritten statement, or None."""
        if len(st.body) != 1 or len(st.handlers) != 1 or st.orelse or st.finalbody:
            return None
        h = st.handlers[0]
        if not (isinstance(h.type, ast.Name) and h.type.id == "KeyError" and h.name is None and len(h.body) == 1):
            return None
        b, hb = st.body[0], h.body[0]
        if isinstance(b, ast.Return) and isinstance(hb, ast.Return):
            look, dflt, build = b.value, hb.value, lambda call: ast.Return(value=call)
        elif isinstance(b, ast.Assign) and isinstance(hb, ast.Assign) and len(b.targets) == 1 and len(hb.targets) == 1 and \
                isinstance(b.targets[0], ast.Name) and isinstance(hb.targets[0], ast.Name) and b.targets[0].id == hb.targets[0].id:
            look, dflt, build = b.value, hb.value, lambda call: ast.Assign(targets=[b.targets[0]], value=call)
        else:
            return None
        if not (isinstance(look, ast.Subscript) and isinstance(look.value, ast.Name)) or dflt is None:
            return None
        if any(isinstance(n, (ast.Call, ast.Subscript)) for n in ast.walk(look.slice)) or \
                any(isinstance(n, (ast.Call, ast.Subscript)) for n in ast.walk(dflt)):
            return None
        r = self.model.resolve_global(self.fi.module, look.value.id)
        if not r or r[0] != "value" or len(r[3]) != 1 or not isinstance(getattr(r[3][0], "value", None), ast.Dict):
            return None
        if self._k(look.value.id) in getattr(self, "_assigned_locals", ()):
            return None
        args = [look.slice] if isinstance(dflt, ast.Constant) and dflt.value is None else [look.slice, dflt]
        call = ast.Call(func=ast.Attribute(value=look.value, attr="get", ctx=ast.Load()), args=args, keywords=[])
        new = build(call)
        ast.copy_location(new, st)
        for n in ast.walk(new):
            if not hasattr(n, "lineno"):
                ast.copy_location(n, st)
        ast.fix_missing_locations(new)
        new._parent = getattr(st, "_parent", None)
        return new

    def _index_probe(self, st, s):
        """The term whose emptiness a `try: ... x[0] ... except IndexError:` tests, or None when the try is not that idiom."""
        if len(st.body) != 1 or not any(isinstance(h.type, ast.Name) and h.type.id == "IndexError" for h in st.handlers):
            return None
        body = st.body[0]
        if not isinstance(body, (ast.Assign, ast.AnnAssign, ast.Expr, ast.Return)) or getattr(body, "value", None) is None:
            return None
        nodes = list(ast.walk(body.value))
        if any(isinstance(n, (ast.Call, ast.Await, ast.Yield, ast.YieldFrom)) for n in nodes):
            return None
        subs = [n for n in nodes if isinstance(n, ast.Subscript)]
        if len(subs) != 1 or not isinstance(subs[0].value, ast.Name):
            return None
        ix = subs[0].slice
        if isinstance(ix, ast.UnaryOp) and isinstance(ix.op, ast.USub) and isinstance(ix.operand, ast.Constant):
            val = -ix.operand.value if isinstance(ix.operand.value, int) else None
        else:
            val = ix.value if isinstance(ix, ast.Constant) and type(ix.value) is int else None
        if val not in (0, -1):
            return None
        t = s.env.get(self._k(subs[0].value.id))
        return t

    # -- assignment ----------------------------------------------------------
    def assign(self, tgt, v, s: State, st) -> State:
        if isinstance(tgt, ast.Name):
            s2 = s.copy()
            s2.env[self._k(tgt.id)] = v
            if self.fi.backend == "pyx" and not self._frames:
                self.event("assign", st, s2, name=tgt.id, value=v)       # C-typed locals: the conversion at the store is judged (PX9)
            if tgt.id in self._global_names:
                self.event("store_global", st, s2, name=tgt.id, value=v)
            return s2
        if isinstance(tgt, (ast.Tuple, ast.List)):
            elts = tgt.elts
            star = [i for i, e in enumerate(elts) if isinstance(e, ast.Starred)]
            if v[0] in ("tuple", "list") and len(v[1]) == len(elts) and not star and all(e[0] != "star" for e in v[1]):
                for e, x in zip(elts, v[1]):
                    s = self.assign(e, x, s, st)
                return s
            for i, e in enumerate(elts):
                if isinstance(e, ast.Starred):
                    # `a, *rest = x` binds rest to x[1:], `a, *mid, z = x` binds mid to x[1:-1] (as a list: same elements)
                    after = len(elts) - i - 1
                    sl = ("slice", ("const", i) if i else NONE, ("const", -after) if after else NONE, NONE)
                    s = self.assign(e.value, ("sub", v, sl), s, st)
                elif star and i > star[0]:
                    s = self.assign(e, ("item", v, i - len(elts)), s, st)
                else:
                    s = self.assign(e, ("item", v, i), s, st)
            return s
        if isinstance(tgt, ast.Attribute):
            res = self.eval(tgt.value, s)
            s2, obj = res[0]
            s2 = s2.copy()
            s2.heap[(obj, tgt.attr)] = v
            self.event("store_attr", st, s2, obj=obj, attr=tgt.attr, value=v, target=tgt)
            if self.trace is not None and self.trace("store_attr", ("attr", obj, tgt.attr)):
                s2.trace = s2.trace + (("store", ("attr", obj, tgt.attr), v),)
            return s2
        if isinstance(tgt, ast.Subscript):
            res = self.eval(tgt.value, s)
            s2, base = res[0]
            s3, idx = self.eval(tgt.slice, s2)[0]
            self.event("store_sub", st, s3, base=base, index=idx, value=v, target=tgt)
            s3 = s3.copy()
            if self.trace is not None and self.trace("store_sub", ("sub", base, idx)):
                s3.trace = s3.trace + (("store", ("sub", base, idx), v),)
            new = ("mut", base, "setitem", (idx, v))
            if isinstance(tgt.value, ast.Name):
                s3.env[self._k(tgt.value.id)] = new
            return s3
        if isinstance(tgt, ast.Starred):
            return self.assign(tgt.value, v, s, st)
        raise AnalysisError(f"assignment target {type(tgt).__name__} not supported in {self.fi.qual}")

    # -- expressions ---------------------------------------------------------
    def eval(self, e, s: State):
        """-> list of (state, term); conditions inside the expression split the state."""
        m = getattr(self, "e_" + type(e).__name__, None)
        if m is None:
            raise AnalysisError(f"expression kind {type(e).__name__} not supported ({self.fi.qual}:{getattr(e, 'lineno', 0)})")
        return m(e, s)

    def eval_seq(self, exprs, s):
        """Evaluate expressions left to right -> list of (state, [terms])."""
        acc = [(s, [])]
        for e in exprs:
            nxt = []
            for s1, ts in acc:
                if isinstance(e, ast.Starred):
                    for s2, t in self.eval(e.value, s1):
                        if t[0] in ("tuple", "list") and all(x[0] != "star" for x in t[1]):
                            nxt.append((s2, ts + list(t[1])))       # *(a, b) is a, b
                        else:
                            nxt.append((s2, ts + [("star", t)]))
                else:
                    for s2, t in self.eval(e, s1):
                        nxt.append((s2, ts + [t]))
            acc = nxt
        return acc

    def e_Constant(self, e, s):
        return [(s, ("const", e.value))]

    def e_Name(self, e, s):
        k = self._k(e.id)
        if k in s.env:
            return [(s, s.env[k])]
        return [(s, self.global_term(e.id))]

    def global_term(self, name):
        if name == "TYPE_CHECKING":
            return FALSE
        r = self.model.resolve_global(self.fi.module, name)
        if r is None:
            import builtins
            if hasattr(builtins, name):
                return ("builtin", name)
            if self.fi.backend == "pyx":
                cy = getattr(self.model.module(self.fi.module).tree, "_cy", {})
                if name in cy.get("module_vars", {}):
                    return ("global", self.fi.module, name)
                return ("ext", "c", name)
            return ("global", self.fi.module, name)
        if r[0] == "func":
            return ("global", r[1].module, r[1].name)
        if r[0] == "memo_alias":
            return ("global", self.fi.module, name)
        if r[0] == "class":
            return ("global", r[1], r[2])
        if r[0] == "value":
            # a module-level integer constant (`_MAX_PORT = 65535`) is its value: comparisons against it are range facts
            sts = r[3]
            if len(sts) == 1 and isinstance(sts[0], (ast.Assign, ast.AnnAssign)):
                v = sts[0].value
                if isinstance(v, ast.Constant) and type(v.value) is int:
                    return ("const", v.value)
                # ... a literal collection of strings / numbers (`_DOT_SEGMENTS = frozenset({".", ".."})`) is that collection
                lit = _literal_collection(v)
                if lit is not None:
                    return ("const", lit)
                # ... a tuple of builtin types (`_MULTI_VALUE_TYPES = (list, tuple)`, for isinstance) is that tuple
                if isinstance(v, ast.Tuple) and v.elts and all(isinstance(x, ast.Name) for x in v.elts):
                    import builtins as _b
                    if all(isinstance(getattr(_b, x.id, None), type) and self.model.resolve_global(r[1], x.id) is None for x in v.elts):
                        return ("tuple", tuple(("builtin", x.id) for x in v.elts))
                # ... `_PCT = "%{:02X}".format` (a bound method of a string literal) is that attribute of the literal
                if isinstance(v, ast.Attribute) and isinstance(v.value, ast.Constant) and type(v.value.value) is str:
                    return ("attr", ("const", v.value.value), v.attr)
                # ... `_find = PATTERN.search` (a bound method of another module-level value) is that attribute
                if isinstance(v, ast.Attribute) and isinstance(v.value, ast.Name) and v.value.id != name:
                    r2 = self.model.resolve_global(r[1], v.value.id)
                    if r2 and r2[0] == "value":
                        return ("attr", ("global", r2[1], r2[2]), v.attr)
                # ... `_INSIDE = slice(1, -1)` is that slice
                if isinstance(v, ast.Call) and isinstance(v.func, ast.Name) and v.func.id == "slice" and not v.keywords and \
                        1 <= len(v.args) <= 3 and self.model.resolve_global(r[1], "slice") is None:
                    def _c(a):
                        if isinstance(a, ast.Constant) and (a.value is None or type(a.value) is int):
                            return ("const", a.value)
                        if isinstance(a, ast.UnaryOp) and isinstance(a.op, ast.USub) and isinstance(a.operand, ast.Constant) and type(a.operand.value) is int:
                            return ("const", -a.operand.value)
                        return None
                    parts = [_c(a) for a in v.args]
                    if all(p_ is not None for p_ in parts):
                        if len(parts) == 1:
                            parts = [NONE, parts[0]]
                        while len(parts) < 3:
                            parts.append(NONE)
                        return ("slice", parts[0], parts[1], parts[2])
                # ... and `_VALID_PORTS = range(65536)` is that range
                if isinstance(v, ast.Call) and isinstance(v.func, ast.Name) and v.func.id == "range" and not v.keywords and \
                        1 <= len(v.args) <= 2 and all(isinstance(a, ast.Constant) and type(a.value) is int for a in v.args) and \
                        self.model.resolve_global(r[1], "range") is None:
                    return ("call", ("builtin", "range"), tuple(("const", a.value) for a in v.args), ())
            return ("global", r[1], r[2])
        if r[0] == "ext":
            if r[2] == "TYPE_CHECKING":
                return FALSE
            return ("ext", r[1], r[2])
        if r[0] == "module":
            return ("ext", r[1], None)
        return ("global", self.fi.module, name)

    def e_Attribute(self, e, s):
        out = []
        for s2, obj in self.eval(e.value, s):
            if (obj, e.attr) in s2.heap:
                out.append((s2, s2.heap[(obj, e.attr)]))
            else:
                t = ("attr", obj, e.attr)
                self.event("attr", e, s2, obj=obj, attr=e.attr, value=t)
                out.append((s2, t))
        return out

    def e_Subscript(self, e, s):
        out = []
        for s2, base in self.eval(e.value, s):
            for s3, idx in self.eval(e.slice, s2):
                t = ("sub", base, idx)
                if base[0] in ("tuple", "list") and idx[0] == "const" and isinstance(idx[1], int) \
                        and all(x[0] != "star" for x in base[1]) and -len(base[1]) <= idx[1] < len(base[1]):
                    t = base[1][idx[1]]
                # a two-entry constant table indexed by a truth value (`TABLE[x == 6]`, `TABLE[bool(sep)]`): one path per entry
                tbl = base
                if base[0] == "global" and base[1] in self.model.modules and (idx[0] == "cmp" or (idx[0] == "call" and idx[1] == ("builtin", "bool"))):
                    tbl = self._module_tuple(base) or base      # a module-level pair of non-literal entries (bound formatters, functions)
                rows = base[1] if base[0] == "const" and isinstance(base[1], tuple) and len(base[1]) == 2 else \
                    (tuple(("term", x) for x in tbl[1]) if tbl[0] == "tuple" and len(tbl[1]) == 2 and all(x[0] != "star" for x in tbl[1]) else None)
                cond = idx[2][0] if idx[0] == "call" and idx[1] == ("builtin", "bool") and len(idx[2]) == 1 and not idx[3] else \
                    (idx if idx[0] == "cmp" or (idx[0] == "unop" and idx[1] == "Not") else None)
                if rows is None and idx[0] == "tuple" and 1 <= len(idx[1]) <= 3:
                    forks = self._truth_table(base, idx, s3)
                    if forks:
                        for s4, tv in forks:
                            self.event("sub", e, s4, base=base, index=idx, value=tv)
                            out.append((s4, tv))
                        continue
                if rows is not None and cond is not None:
                    forked = False
                    for val, row in ((False, rows[0]), (True, rows[1])):
                        s4 = assume(s3, cond, val)
                        if s4 is None:
                            continue
                        tv = row[1] if isinstance(row, tuple) and len(row) == 2 and row[0] == "term" else ("const", row)
                        self.event("sub", e, s4, base=base, index=idx, value=tv)
                        out.append((s4, tv))
                        forked = True
                    if forked:
                        continue
                self.event("sub", e, s3, base=base, index=idx, value=t)
                out.append((s3, t))
        return out

    def e_Slice(self, e, s):
        parts = [e.lower, e.upper, e.step]
        acc = [(s, [])]
        for p in parts:
            nxt = []
            for s1, ts in acc:
                if p is None:
                    nxt.append((s1, ts + [NONE]))
                else:
                    for s2, t in self.eval(p, s1):
                        nxt.append((s2, ts + [t]))
            acc = nxt
        return [(s1, ("slice", ts[0], ts[1], ts[2])) for s1, ts in acc]

    def e_Tuple(self, e, s):
        return [(s1, ("tuple", tuple(ts))) for s1, ts in self.eval_seq(e.elts, s)]

    def e_List(self, e, s):
        return [(s1, ("list", tuple(ts))) for s1, ts in self.eval_seq(e.elts, s)]

    def e_Set(self, e, s):
        return [(s1, ("set", tuple(ts))) for s1, ts in self.eval_seq(e.elts, s)]

    def e_Dict(self, e, s):
        keys = [k if k is not None else ast.Constant(value="**") for k in e.keys]
        out = []
        for s1, ks in self.eval_seq(keys, s):
            for s2, vs in self.eval_seq(e.values, s1):
                out.append((s2, ("dict", tuple(zip(ks, vs)))))
        return out

    def e_JoinedStr(self, e, s):
        acc = [(s, [])]
        for v in e.values:
            nxt = []
            for s1, ps in acc:
                if isinstance(v, ast.Constant):
                    nxt.append((s1, ps + [("const", v.value)]))
                else:
                    spec = None
                    if v.format_spec is not None:
                        spec = "".join(x.value if isinstance(x, ast.Constant) else "{" + unparse(x) + "}"
                                       for x in v.format_spec.values)
                    conv = {-1: None, 115: "s", 114: "r", 97: "a"}.get(v.conversion, None)
                    for s2, t in self.eval(v.value, s1):
                        nxt.append((s2, ps + [("fmt", t, conv, spec)]))
            acc = nxt
        return [(s1, ("fstr", tuple(ps))) for s1, ps in acc]

    def e_FormattedValue(self, e, s):
        return [(s2, ("fstr", (("fmt", t, None, None),))) for s2, t in self.eval(e.value, s)]

    def e_UnaryOp(self, e, s):
        op = type(e.op).__name__
        out = []
        for s2, t in self.eval(e.operand, s):
            if op == "USub" and t[0] == "const" and isinstance(t[1], (int, float)):
                out.append((s2, ("const", -t[1])))
            elif op == "Not":
                tv = truth(t, s2.facts)
                out.append((s2, ("const", not tv) if tv is not None else ("unop", "Not", t)))
            else:
                out.append((s2, ("unop", op, t)))
        return out

    def e_BinOp(self, e, s):
        op = type(e.op).__name__
        out = []
        for s2, l in self.eval(e.left, s):
            for s3, r in self.eval(e.right, s2):
                out.append((s3, _fold_int(op, l, r)))
        return out

    def e_BoolOp(self, e, s):
        is_and = isinstance(e.op, ast.And)
        results = []
        cur = [s]
        n = len(e.values)
        for i, ve in enumerate(e.values):
            nxt = []
            for s1 in cur:
                for s2, t in self.eval(ve, s1):
                    if i == n - 1:
                        results.append((s2, t))
                        continue
                    self.event("cond", ve, s2, test=t, stmt=e)
                    # short-circuit exit: value is t
                    sx = assume(s2, t, not is_and)
                    if sx is not None:
                        results.append((sx, t))
                    sc = assume(s2, t, is_and)
                    if sc is not None:
                        nxt.append(sc)
            cur = nxt
        return results

    def e_IfExp(self, e, s):
        out = []
        for s2, t in self.eval(e.test, s):
            self.event("cond", e, s2, test=t, stmt=e)
            sT = assume(s2, t, True)
            if sT is not None:
                out.extend(self.eval(e.body, sT))
            sF = assume(s2, t, False)
            if sF is not None:
                out.extend(self.eval(e.orelse, sF))
        return out

    def e_Compare(self, e, s):
        operands = [e.left] + list(e.comparators)
        out = []
        for s1, ts in self.eval_seq(operands, s):
            cmps = [self._sentinel_identity(("cmp", type(op).__name__, ts[i], ts[i + 1]), s1) for i, op in enumerate(e.ops)]
            if len(cmps) == 1:
                out.append((s1, cmps[0]))
                continue
            cur = s1
            for i, c in enumerate(cmps):
                if i == len(cmps) - 1:
                    out.append((cur, c))
                    break
                sx = assume(cur, c, False)
                if sx is not None:
                    out.append((sx, FALSE))
                cur = assume(cur, c, True)
                if cur is None:
                    break
        return out

    def _bound_mutator(self, e, f, s):
        """(env key, current value) of the one local container that the bound method held in a local name belongs to."""
        if not isinstance(e.func, ast.Name) or f[0] != "attr" or f[2] not in MUTATORS or _immutable_recv(f[1]):
            return None

        def root(t):
            while t[0] == "mut":
                t = t[1]
            return t
        r0 = root(f[1])
        if r0[0] in ("param", "global", "ext", "attr"):
            return None
        me = self._k(e.func.id)
        cands = [(n, v) for n, v in s.env.items() if n != me and isinstance(v, tuple) and v and v[0] != "attr" and root(v) == r0]
        return cands[0] if len(cands) == 1 else None

    def _outer_name_key(self, key):
        """on_name for an environment key (already qualified when inside a helper)."""
        if ":" in key:
            q, n = key.rsplit(":", 1)
            for fr in reversed(self._frames):
                if fr["qual"] == q and n in fr["names"]:
                    return self._outer_name(n)
            return key
        return key

    def _positionalise(self, f, args_t, kwargs):
        """f(a, k=v) for a package function `def f(a, k)` is f(a, v): keyword arguments that name the next positional
        parameters are moved into place, so that a call means the same term however it is spelled."""
        if not kwargs or any(k is None for k, _v in kwargs) or any(a[0] == "star" for a in args_t):
            return args_t, kwargs
        if f[0] == "global" and f[1] in self.model.modules:
            r = self.model.resolve_global(f[1], f[2])
            if not r or r[0] not in ("func", "memo_alias"):
                return args_t, kwargs
            a = r[1].node.args
            pos = [x.arg for x in a.posonlyargs + a.args]
        elif f[0] == "attr" and f[1] in (("param", "self"), ("param", "cls")) and self.fi.cls and \
                self.model.has_func(f"{self.fi.module}.{self.fi.cls}.{f[2]}"):
            # a method of the same class called on self
            m = self.model.func(f"{self.fi.module}.{self.fi.cls}.{f[2]}")
            if m.kind not in ("method", "classmethod"):
                return args_t, kwargs
            a = m.node.args
            pos = [x.arg for x in a.posonlyargs + a.args][1:]
        else:
            return args_t, kwargs
        if a.vararg is not None or len(args_t) > len(pos):
            return args_t, kwargs
        kw = dict(kwargs)
        out = list(args_t)
        for name in pos[len(args_t):]:
            if name in kw and name not in [x.arg for x in a.posonlyargs]:
                out.append(kw.pop(name))
            else:
                break
        rest = tuple((k, v) for k, v in kwargs if k in kw)
        return tuple(out), rest

    def _getter_object(self, f):
        """("attr" | "item", names) when f is a module-level `operator.attrgetter(<literals>)` / `itemgetter(<literals>)` object."""
        if f[0] != "global" or f[1] not in self.model.modules:
            return None
        r = self.model.resolve_global(f[1], f[2])
        if not r or r[0] != "value" or len(r[3]) != 1 or not isinstance(getattr(r[3][0], "value", None), ast.Call):
            return None
        c = r[3][0].value
        fn = c.func
        name = fn.attr if isinstance(fn, ast.Attribute) else (fn.id if isinstance(fn, ast.Name) else None)
        if name not in ("attrgetter", "itemgetter") or c.keywords or not c.args:
            return None
        if isinstance(fn, ast.Attribute):
            if not (isinstance(fn.value, ast.Name) and self.model.resolve_global(r[1], fn.value.id) in (("ext", "operator", None),)):
                mod = self.model.module(r[1]).imports.get(fn.value.id) if isinstance(fn.value, ast.Name) else None
                if mod != ("operator", None):
                    return None
        else:
            if self.model.module(r[1]).imports.get(name) != ("operator", name):
                return None
        if not all(isinstance(a, ast.Constant) and (type(a.value) is str if name == "attrgetter" else type(a.value) in (str, int)) for a in c.args):
            return None
        if name == "attrgetter" and any("." in a.value for a in c.args):
            return None
        return ("attr" if name == "attrgetter" else "item"), [a.value for a in c.args]

    def _through_partial(self, f, args_t, kwargs):
        """P(x, k=v) for a module-level `P = functools.partial(F, a, k0=v0)` is F(a, x, k0=v0, k=v)."""
        if f[0] != "global" or f[1] not in self.model.modules:
            return f, args_t, kwargs
        r = self.model.resolve_global(f[1], f[2])
        if not r or r[0] != "value" or len(r[3]) != 1 or not isinstance(getattr(r[3][0], "value", None), ast.Call):
            return f, args_t, kwargs
        c = r[3][0].value
        fn = c.func
        is_partial = (isinstance(fn, ast.Name) and fn.id == "partial") or (isinstance(fn, ast.Attribute) and fn.attr == "partial")
        if not is_partial or not c.args or any(isinstance(a, ast.Starred) for a in c.args) or any(k.arg is None for k in c.keywords):
            return f, args_t, kwargs
        pt = self.global_term("partial") if isinstance(fn, ast.Name) else None
        if isinstance(fn, ast.Name) and pt != ("ext", "functools", "partial"):
            return f, args_t, kwargs
        saved = self.fi
        try:
            from .fold import module_analyzer
            an = module_analyzer(self.model, r[1])
            inner = [an.eval(a, State()) for a in c.args]
            kws = [(k.arg, an.eval(k.value, State())) for k in c.keywords]
        finally:
            self.fi = saved
        if any(len(x) != 1 for x in inner) or any(len(v) != 1 for _k, v in kws):
            return f, args_t, kwargs
        target = inner[0][0][1]
        pre = tuple(x[0][1] for x in inner[1:])
        merged = dict((k, v[0][1]) for k, v in kws)
        merged.update(dict(kwargs))
        return target, pre + tuple(args_t), tuple(merged.items())

    def _keyed_update(self, e, f, args_t, kwargs):
        """[(key, value term)] when the call is `<dict>.update(...)` with literal string keys only, else None."""
        if not (isinstance(e.func, ast.Attribute) and e.func.attr == "update" and f[0] == "attr") or _immutable_recv(f[1]):
            return None
        if any(k is None for k, _v in kwargs) or len(args_t) > 1:
            return None
        out = []
        if args_t:
            d = args_t[0]
            if d[0] != "dict" or not all(k[0] == "const" and isinstance(k[1], str) and k[1] != "**" for k, _v in d[1]):
                return None
            out.extend((k[1], v) for k, v in d[1])
        out.extend(kwargs)
        root = f[1]
        while root[0] == "mut":
            root = root[1]
        # only for dict-like receivers the package owns: a cache attribute or a dict created here
        if not (root[0] == "dict" or (root[0] == "attr" and root[2] == "_cache") or (root[0] == "param" and "cache" in root[1])):
            return None
        return out or None

    def _sentinel_identity(self, c, state=None):
        """`<literal> is SENTINEL` where SENTINEL is a module-level object created by a call (`_MISSING = object()`) or
        an Enum member (`UNDEFINED = UndefinedType._singleton`): a string / number / None literal is never that object."""
        if c[1] not in ("Is", "IsNot"):
            return c
        for a, b in ((c[2], c[3]), (c[3], c[2])):
            known_none = False
            if state is not None and a[0] != "const":
                # a value known to be None, or an instance of a builtin type (str, int, ...), on every path class it stands for
                def excluded(f):
                    if truth(("cmp", "Is", a, NONE), f) is True:
                        return True
                    for fk, fv in f.items():
                        if fv is True and fk[0] == "call" and fk[1] == ("builtin", "isinstance") and len(fk[2]) == 2 and fk[2][0] == a:
                            tys = fk[2][1][1] if fk[2][1][0] == "tuple" else (fk[2][1],)
                            if tys and all(t_[0] == "builtin" for t_ in tys):
                                return True
                    return False
                known_none = all(excluded(f) for f in alternatives(state.facts, a))
            if (known_none or a[0] in ("const", "fstr", "binop", "cmp", "tuple", "list", "dict", "set", "comp", "call", "new")) \
                    and b[0] == "global" and b[1] in self.model.modules:
                if a[0] == "call" and self._may_return(a, b[2]):
                    continue
                r = self.model.resolve_global(b[1], b[2])
                if r and r[0] == "value" and len(r[3]) == 1:
                    v = getattr(r[3][0], "value", None)
                    member = isinstance(v, ast.Attribute) and isinstance(v.value, ast.Name) and \
                        (self.model.resolve_global(r[1], v.value.id) or (None,))[0] == "class"      # an Enum member
                    if isinstance(v, ast.Call) or member:
                        return ("const", c[1] == "IsNot")
        return c

    def _may_return(self, call, name):
        """Can this call hand back the module-level object `name`? Only package code can: a resolved package callee whose
        body returns that name (directly or through another package call we do not follow: then we say yes)."""
        f = call[1]
        fi = None
        from .terms import walk as _walk
        if any(x[0] == "global" and x[2] == name for a in tuple(call[2]) + tuple(v for _k, v in call[3]) for x in _walk(a)):
            return True         # the object is passed in (d.get(k, SENTINEL), getattr(o, n, SENTINEL), ...)
        if f[0] == "global" and f[1] in self.model.modules:
            r = self.model.resolve_global(f[1], f[2])
            if r and r[0] in ("func", "memo_alias"):
                fi = r[1]
            elif r and r[0] == "value":
                return False        # an instance being called (quoters): their __call__ returns text
            elif r and r[0] == "class":
                return False
        elif f[0] == "attr" and f[1] in (("param", "self"), ("param", "cls")) and self.fi.cls:
            q = f"{self.fi.module}.{self.fi.cls}.{f[2]}"
            if self.model.has_func(q):
                fi = self.model.func(q)
            else:
                return True
        elif f[0] in ("builtin", "ext") or (f[0] == "attr" and f[1][0] in ("const", "fstr", "ext", "builtin")):
            return False
        elif f[0] == "attr":
            return f[2] not in ("join", "lower", "upper", "strip", "lstrip", "rstrip", "replace", "format", "split", "rsplit",
                                "partition", "rpartition", "encode", "decode", "find", "rfind", "startswith", "endswith")
        if fi is None:
            return True
        return any(isinstance(n, ast.Return) and isinstance(n.value, ast.Name) and n.value.id == name for n in ast.walk(fi.node))

    def e_NamedExpr(self, e, s):
        return [(self.assign(e.target, t, s2, e), t) for s2, t in self.eval(e.value, s)]

    def e_Starred(self, e, s):
        return [(s2, ("star", t)) for s2, t in self.eval(e.value, s)]

    def e_Lambda(self, e, s):
        return [(s, self.unknown("lambda"))]

    def e_Call(self, e, s):
        out = []
        # functools.reduce(f, xs, init) is `acc = init; for x in xs: acc = f(acc, x)`: analysed as that loop (the helper is
        # analysed in place when it is not an anchor), the value is the accumulator after the loop
        if isinstance(e.func, ast.Name) and e.func.id == "reduce" and len(e.args) == 3 and not e.keywords and \
                not any(isinstance(a, ast.Starred) for a in e.args) and self._k("reduce") not in s.env and \
                self.global_term("reduce") == ("ext", "functools", "reduce"):
            prog = getattr(e, "_as_loop", None)
            if prog is None:
                self._reduce_n = getattr(self, "_reduce_n", 0) + 1
                acc, el = f"_reduce_acc{self._reduce_n}", f"_reduce_el{self._reduce_n}"
                a0 = ast.Assign(targets=[ast.Name(id=acc, ctx=ast.Store())], value=e.args[2])
                step = ast.Assign(targets=[ast.Name(id=acc, ctx=ast.Store())],
                                  value=ast.Call(func=e.args[0], args=[ast.Name(id=acc, ctx=ast.Load()), ast.Name(id=el, ctx=ast.Load())], keywords=[]))
                loop = ast.For(target=ast.Name(id=el, ctx=ast.Store()), iter=e.args[1], body=[step], orelse=[])
                for n_ in (a0, loop):
                    ast.copy_location(n_, e)
                    for m_ in ast.walk(n_):
                        if not hasattr(m_, "lineno"):
                            ast.copy_location(m_, e)
                    ast.fix_missing_locations(n_)
                    n_._parent = getattr(e, "_parent", None)
                for m_ in ast.walk(loop):
                    for c_ in ast.iter_child_nodes(m_):
                        if not hasattr(c_, "_parent"):
                            c_._parent = m_
                prog = e._as_loop = (acc, [a0, loop])
            acc, stmts = prog
            outs = self.exec_block(stmts, [s], {"break": [], "continue": []})
            return [(st_, st_.env.get(self._k(acc), self.unknown("reduce"))) for st_ in outs]
        # any((a, b, c)) / all([a, b]) over a display is `a or b or c` / `a and b` as far as its truth goes
        if isinstance(e.func, ast.Name) and e.func.id in ("any", "all") and len(e.args) == 1 and not e.keywords and \
                isinstance(e.args[0], (ast.Tuple, ast.List)) and 2 <= len(e.args[0].elts) <= 8 and \
                not any(isinstance(x, ast.Starred) for x in e.args[0].elts) and self._k(e.func.id) not in s.env and \
                self.global_term(e.func.id) == ("builtin", e.func.id):
            b = getattr(e, "_as_boolop", None)
            if b is None:
                b = ast.BoolOp(op=ast.Or() if e.func.id == "any" else ast.And(), values=list(e.args[0].elts))
                ast.copy_location(b, e)
                b._parent = getattr(e, "_parent", None)
                e._as_boolop = b
            return self.eval(b, s)
        # map(f, xs) is the generator (f(x) for x in xs): analysed as such, so that element-wise rules see the call
        if isinstance(e.func, ast.Name) and e.func.id == "map" and len(e.args) == 2 and not e.keywords and \
                not any(isinstance(a, ast.Starred) for a in e.args) and self._k("map") not in s.env and \
                self.global_term("map") == ("builtin", "map"):
            g = getattr(e, "_as_genexp", None)
            if g is None:
                var = "_map_item"
                g = ast.GeneratorExp(
                    elt=ast.Call(func=e.args[0], args=[ast.Name(id=var, ctx=ast.Load())], keywords=[]),
                    generators=[ast.comprehension(target=ast.Name(id=var, ctx=ast.Store()), iter=e.args[1], ifs=[], is_async=0)])
                ast.copy_location(g, e)
                ast.copy_location(g.elt, e)
                ast.fix_missing_locations(g)
                g._parent = getattr(e, "_parent", None)
                e._as_genexp = g
            return self.eval(g, s)
        # filter(None, xs) is (x for x in xs if x); filter(f, xs) is (x for x in xs if f(x))
        if isinstance(e.func, ast.Name) and e.func.id == "filter" and len(e.args) == 2 and not e.keywords and \
                not any(isinstance(a, ast.Starred) for a in e.args) and self._k("filter") not in s.env and \
                self.global_term("filter") == ("builtin", "filter"):
            g = getattr(e, "_as_genexp", None)
            if g is None:
                var = "_filter_item"
                name = lambda ctx: ast.Name(id=var, ctx=ctx)
                test = name(ast.Load()) if (isinstance(e.args[0], ast.Constant) and e.args[0].value is None) else \
                    ast.Call(func=e.args[0], args=[name(ast.Load())], keywords=[])
                g = ast.GeneratorExp(elt=name(ast.Load()),
                                     generators=[ast.comprehension(target=name(ast.Store()), iter=e.args[1], ifs=[test], is_async=0)])
                ast.copy_location(g, e)
                ast.fix_missing_locations(g)
                for n_ in ast.walk(g):
                    if not hasattr(n_, "lineno"):
                        continue
                    ast.copy_location(n_, e)
                g._parent = getattr(e, "_parent", None)
                e._as_genexp = g
            return self.eval(g, s)
        # object.__new__(C): a fresh object
        for s1, f in self.eval(e.func, s):
            for s2, args in self.eval_seq(e.args, s1):
                kwexprs = [k.value for k in e.keywords]
                for s3, kvs in self.eval_seq(kwexprs, s2):
                    kwargs = tuple((k.arg, v) for k, v in zip(e.keywords, kvs))
                    args_t = tuple(args)
                    f, args_t, kwargs = self._through_partial(f, args_t, kwargs)
                    # a partial object built in place or held in a local: partial(F, a, k=v)(x) is F(a, x, k=v)
                    if f[0] == "call" and f[1] == ("ext", "functools", "partial") and f[2] and all(x[0] != "star" for x in f[2]) and \
                            all(k is not None for k, _v in f[3]):
                        kw0 = dict(f[3])
                        kw0.update(dict(kwargs))
                        f, args_t, kwargs = f[2][0], tuple(f[2][1:]) + args_t, tuple(kw0.items())
                    args_t, kwargs = self._positionalise(f, args_t, kwargs)
                    if f[0] == "attr" and f[2] == "get" and len(args_t) == 2 and args_t[1] == NONE and not kwargs and \
                            f[1][0] == "global" and f[1][1] in self.model.modules:
                        args_t = args_t[:1]        # D.get(k, None) is D.get(k) (module-level dict)
                    # any(<tuple term>) / all(<tuple term>) (e.g. of an attrgetter object's result): decided element by element
                    if f in (("builtin", "any"), ("builtin", "all")) and len(args_t) == 1 and not kwargs and \
                            args_t[0][0] in ("tuple", "list") and 1 <= len(args_t[0][1]) <= 8 and all(x[0] != "star" for x in args_t[0][1]):
                        want = f[1] == "any"
                        live = [s3]
                        for el in args_t[0][1]:
                            nxt = []
                            for st_ in live:
                                hit = assume(st_, el, want)
                                if hit is not None:
                                    out.append((hit, ("const", want)))
                                miss = assume(st_, el, not want)
                                if miss is not None:
                                    nxt.append(miss)
                            live = nxt
                        out.extend((st_, ("const", not want)) for st_ in live)
                        continue
                    # Class.method(obj, ...) is obj.method(...) for a plain method of a package class
                    if f[0] == "attr" and f[1][0] == "global" and f[1][1] in self.model.modules and args_t and args_t[0][0] != "star":
                        rc = self.model.resolve_global(f[1][1], f[1][2])
                        if rc and rc[0] == "class" and self.model.has_func(f"{rc[1]}.{rc[2]}.{f[2]}") and \
                                self.model.func(f"{rc[1]}.{rc[2]}.{f[2]}").kind == "method":
                            f, args_t = ("attr", args_t[0], f[2]), args_t[1:]
                    opname = None
                    if f[0] == "attr" and f[1] == ("ext", "operator", None):
                        opname = f[2]
                    elif f[0] == "ext" and f[1] == "operator":
                        opname = f[2]
                    if opname in _OPERATOR_CMP and len(args_t) == 2 and not kwargs:
                        # operator.lt(a, b) is a < b
                        out.append((s3, ("cmp", _OPERATOR_CMP[opname], args_t[0], args_t[1])))
                        continue
                    if opname == "getitem" and len(args_t) == 2 and not kwargs:
                        tv = ("sub", args_t[0], args_t[1])      # operator.getitem(a, k) is a[k]
                        self.event("sub", e, s3, base=args_t[0], index=args_t[1], value=tv)
                        out.append((s3, tv))
                        continue
                    if opname in ("truth", "not_") and len(args_t) == 1 and not kwargs:
                        tv = ("call", ("builtin", "bool"), (args_t[0],), ())
                        out.append((s3, tv if opname == "truth" else ("unop", "Not", args_t[0])))
                        continue
                    getter = self._getter_object(f)
                    if getter is not None and len(args_t) == 1 and not kwargs:
                        # G = operator.attrgetter("a", "b"); G(x) is (x.a, x.b)   (itemgetter likewise)
                        kind_, names = getter
                        if kind_ == "attr":
                            vals = []
                            s4 = s3
                            for nm in names:
                                hv = s4.heap.get((args_t[0], nm))
                                tv = hv if hv is not None else ("attr", args_t[0], nm)
                                self.event("attr", e, s4, obj=args_t[0], attr=nm, value=tv)
                                vals.append(tv)
                        else:
                            vals = [("sub", args_t[0], ("const", nm)) for nm in names]
                            for nm, tv in zip(names, vals):
                                self.event("sub", e, s3, base=args_t[0], index=("const", nm), value=tv)
                        out.append((s3, vals[0] if len(vals) == 1 else ("tuple", tuple(vals))))
                        continue
                    inl = self._inline_target(f)
                    if inl is not None:
                        out.extend(self._inline(inl, e, f, args_t, kwargs, s3))
                        continue
                    if f == ("attr", ("builtin", "object"), "__new__") and args_t:
                        self._new_n += 1
                        res = ("new", show(args_t[0]), self._new_n)
                    else:
                        res = ("call", f, args_t, kwargs)
                    s4 = s3
                    mut = None
                    keyed = self._keyed_update(e, f, args_t, kwargs)
                    if keyed is not None:
                        # d.update(k=v, ...) / d.update({"k": v, ...}) is the sequence of stores d["k"] = v
                        recv = f[1]
                        s4 = s3.copy()
                        for key, val in keyed:
                            idx = ("const", key)
                            self.event("store_sub", e, s4, base=recv, index=idx, value=val, target=e)
                            if self.trace is not None and self.trace("store_sub", ("sub", recv, idx)):
                                s4.trace = s4.trace + (("store", ("sub", recv, idx), val),)
                            recv = ("mut", recv, "setitem", (idx, val))
                        if isinstance(e.func.value, ast.Name):
                            s4.env[self._k(e.func.value.id)] = recv
                        self.event("call", e, s3, func=f, args=args_t, kwargs=kwargs, value=("call", f, args_t, kwargs), mut=recv)
                        out.append((s4, NONE))
                        continue
                    alias = self._bound_mutator(e, f, s3)
                    if alias is not None:
                        # `append = xs.append; append(v)`: a bound method called through a local name changes `xs`
                        var, cur = alias
                        mut = ("mut", cur, f[2], args_t)
                        s4 = s3.copy()
                        s4.env[var] = mut
                        self.event("mutate", e, s3, recv=cur, method=f[2], args=args_t, new=mut, on_name=self._outer_name_key(var))
                        self.event("call", e, s3, func=("attr", cur, f[2]), args=args_t, kwargs=kwargs, value=("call", ("attr", cur, f[2]), args_t, kwargs), mut=mut)
                        out.append((s4, ("call", ("attr", cur, f[2]), args_t, kwargs)))
                        continue
                    if isinstance(e.func, ast.Attribute) and e.func.attr in MUTATORS:
                        recv = f[1] if f[0] == "attr" else None
                        if recv is not None and not _immutable_recv(recv):
                            mut = ("mut", recv, e.func.attr, args_t)
                            if isinstance(e.func.value, ast.Name):
                                s4 = s3.copy()
                                s4.env[self._k(e.func.value.id)] = mut
                            self.event("mutate", e, s3, recv=recv, method=e.func.attr, args=args_t, new=mut,
                                       on_name=self._outer_name(e.func.value.id) if isinstance(e.func.value, ast.Name) else None)
                    self.event("call", e, s3, func=f, args=args_t, kwargs=kwargs, value=res, mut=mut)
                    if self.trace is not None and self.trace("call", res):
                        s4 = s4.copy()
                        s4.trace = s4.trace + (res,)
                    out.append((s4, res))
        return out

    # -- transparent helpers ---------------------------------------------------------------------------------
    def _inline_target(self, f):
        """FuncInfo of a package function / method that is not one of the anchors the rules know (a helper
        introduced by a later refactoring): such calls are analysed in place."""
        if len(self._frames) >= 3 or not self.model.anchors:
            return None
        fi = None
        if f[0] == "global":
            r = self.model.resolve_global(f[1], f[2]) if f[1] in self.model.modules else None
            if r and r[0] == "func":
                fi = r[1]
        elif f[0] == "attr" and f[1] in (("param", "self"), ("param", "cls")) and self.fi.cls:
            q = f"{self.fi.module}.{self.fi.cls}.{f[2]}"
            if self.model.has_func(q):
                fi = self.model.func(q)
        if fi is None or not self.model.inlinable(fi):
            return None
        if fi.qual in [fr["qual"] for fr in self._frames] or fi.qual == self.fi.qual:
            return None
        return fi

    def _k(self, name):
        """Environment key of a local name: helper locals are qualified by the helper, so that the state of the
        analysed function stays visible (and untouched) while a helper is analysed in place."""
        return f"{self._frames[-1]['qual']}:{name}" if self._frames else name

    def _outer_name(self, name):
        """The analysed function's name for a container a helper received as argument (events keep talking about
        the caller's variable); helper locals are qualified so they cannot collide with the caller's names."""
        for fr in reversed(self._frames):
            if name in fr["names"]:
                name = fr["names"][name]
            else:
                return f"{fr['qual']}:{name}"
        return name

    def _inline(self, callee, call_node, f, args_t, kwargs, s):
        a = callee.node.args
        params = [x.arg for x in a.posonlyargs + a.args]
        env = {}        # helper-local name -> term (qualified below)
        if callee.cls and params and params[0] in ("self", "cls"):
            env[params[0]] = f[1] if f[0] == "attr" else ("param", params[0])
            params = params[1:]
        if any(k is None for k, _v in kwargs):
            return [(s, ("call", f, args_t, kwargs))]        # **kwargs: not inlined
        stars = [x for x in args_t if x[0] == "star"]
        if stars:
            # f(*t, x): the starred value supplies exactly the positional parameters the other arguments leave open
            # (anything else is a TypeError at the call); a literal tuple is spread as written
            if len(stars) > 1 or a.vararg is not None:
                return [(s, ("call", f, args_t, kwargs))]
            st_t = stars[0][1]
            if st_t[0] in ("tuple", "list") and not any(x[0] == "star" for x in st_t[1]):
                spread = list(st_t[1])
            else:
                n = len(params) - (len(args_t) - 1) - len([k for k, _v in kwargs if k in params])
                if n < 0:
                    return [(s, ("call", f, args_t, kwargs))]
                spread = [("item", st_t, i) for i in range(n)]
            plain = []
            for x in args_t:
                plain.extend(spread if x[0] == "star" else [x])
        else:
            plain = list(args_t)
        for p, t in zip(params, plain):
            env[p] = t
        if a.vararg is not None:
            env[a.vararg.arg] = ("tuple", tuple(plain[len(params):]))
        elif len(plain) > len(params):
            return [(s, ("call", f, args_t, kwargs))]
        for k, v in kwargs:
            env[k] = v
        if a.kwarg is not None:
            env[a.kwarg.arg] = ("dict", ())
        for p in params + [x.arg for x in a.kwonlyargs]:
            if p not in env:
                d = callee.param_default(p)
                if d is None:
                    return [(s, ("call", f, args_t, kwargs))]
                saved_fi = self.fi
                self.fi = callee
                try:
                    env[p] = self.eval(d, State())[0][1]
                finally:
                    self.fi = saved_fi
        arg_names = {}
        pos = 0
        for ae in call_node.args:
            if isinstance(ae, ast.Starred):
                pos += len(plain) - (len(call_node.args) - 1)
                continue
            if isinstance(ae, ast.Name) and pos < len(params):
                arg_names[params[pos]] = ae.id
            pos += 1
        for kw in call_node.keywords:
            if kw.arg and isinstance(kw.value, ast.Name):
                arg_names[kw.arg] = kw.value.id
        q = callee.qual
        full = dict(s.env)
        full.update({f"{q}:{n}": t for n, t in env.items()})
        init = State(full, s.facts.copy(), dict(s.heap), s.ctx, s.trace)
        frame = {"qual": callee.qual, "returns": [], "names": arg_names}
        saved_fi, saved_globals = self.fi, self._global_names
        self.fi = callee
        self._frames.append(frame)
        global _METHOD_ALIASES
        saved_aliases = _METHOD_ALIASES
        _METHOD_ALIASES = method_aliases(callee.node)
        try:
            falls = self.exec_block(callee.node.body, [init], {"break": [], "continue": []})
        finally:
            _METHOD_ALIASES = saved_aliases
            self._frames.pop()
            self.fi, self._global_names = saved_fi, saved_globals
        outs = frame["returns"] + [(st, NONE) for st in falls]
        res = []
        for st_c, val in outs:
            new = State(dict(s.env), st_c.facts, st_c.heap, s.ctx, st_c.trace)
            for p, caller_name in arg_names.items():
                t = st_c.env.get(f"{q}:{p}")
                if t is not None and t != env.get(p) and t[0] in ("mut", "phi"):      # (a phi: mutated inside a loop of the helper)
                    new.env[self._k(caller_name)] = t        # the helper changed the caller's container in place
            res.append((new, val))
        return res

    def _comp_literal(self, e, s, kind, elt):
        """A comprehension with one generator over a literal tuple / list display (`for x in (host, port)`): evaluated
        element by element, so the conditions are about the actual values. -> ('ucomp', kind, ((conditions, value), ...))"""
        if len(e.generators) != 1 or e.generators[0].is_async:
            return None
        gen = e.generators[0]
        res = self.eval(gen.iter, s)
        if len(res) != 1:
            return None
        s1, it = res[0]
        if it[0] not in ("tuple", "list") or any(x[0] == "star" for x in it[1]) or not (0 < len(it[1]) <= 8):
            return None
        items = []
        for x in it[1]:
            s2 = self.assign(gen.target, x, s1.copy().with_ctx(("comp", 0)), e)
            conds, alive = [], True
            for cond in gen.ifs:
                r2 = self.eval(cond, s2)
                if len(r2) != 1:
                    return None
                s2, t = r2[0]
                self.event("cond", cond, s2, test=t, stmt=cond)
                conds.append(t)
                nxt = assume(s2, t, True)
                if nxt is None:
                    alive = False
                    break
                s2 = nxt
            if not alive:
                continue
            r3 = self.eval(elt, s2)
            if len(r3) != 1:
                return None
            decided = [c for c in conds if truth(c, s1.facts) is not True]
            items.append((tuple(decided), r3[0][1]))
        return [(s1, ("ucomp", kind, tuple(items)))]

    def _comp(self, e, s, kind, elt):
        lit = self._comp_literal(e, s, kind, elt)
        if lit is not None:
            return lit
        inner = s.copy()
        iters = []
        filters = []        # the `if` tests of the generators (as terms): elements satisfy all of them
        states = [inner]
        for gen in e.generators:
            nxt = []
            for s1 in states:
                for s2, it in self.eval(gen.iter, s1):
                    self._loop_n += 1
                    lid = self._loop_n
                    self.res.loops[lid] = gen
                    s3 = self.assign(gen.target, ("elem", it, lid), s2.with_ctx(("comp", lid)), e)
                    if it not in iters:
                        iters.append(it)
                    cur = [s3]
                    for cond in gen.ifs:
                        c2 = []
                        for s4 in cur:
                            for s5, t in self.eval(cond, s4):
                                self.event("cond", cond, s5, test=t, stmt=cond)
                                if t not in filters:
                                    filters.append(t)
                                s6 = assume(s5, t, True)
                                if s6 is not None:
                                    c2.append(s6)
                        cur = c2
                    nxt.extend(cur)
            states = nxt
        elts = []
        for s1 in states:
            for _, t in self.eval(elt, s1):
                if t not in elts:
                    elts.append(t)
        elts.sort(key=show)
        return [(s, ("comp", kind, tuple(elts), tuple(iters), tuple(sorted(filters, key=show))))]

    def e_ListComp(self, e, s):
        return self._comp(e, s, "list", e.elt)

    def e_SetComp(self, e, s):
        return self._comp(e, s, "set", e.elt)

    def e_GeneratorExp(self, e, s):
        return self._comp(e, s, "gen", e.elt)

    def e_DictComp(self, e, s):
        return self._comp(e, s, "dict", ast.Tuple(elts=[e.key, e.value], ctx=ast.Load()))


def _literal_collection(v):
    """frozenset / tuple value of a display (or frozenset(<display>) / tuple(<display>)) of str / int literals, else None."""
    wrap = None
    if isinstance(v, ast.Call) and isinstance(v.func, ast.Name) and v.func.id in ("frozenset", "tuple") and len(v.args) == 1 and not v.keywords:
        wrap, v = v.func.id, v.args[0]
    if wrap is None and isinstance(v, ast.Tuple) and v.elts and any(isinstance(x, ast.Tuple) for x in v.elts):
        # a table: tuple of tuples of literals (`_TEMPLATES = (("{0}", "{0}%{1}"), ("[{0}]", "[{0}%{1}]"))`)
        rows = [_literal_collection(x) if isinstance(x, ast.Tuple) else (x.value if isinstance(x, ast.Constant) and type(x.value) in (str, int) else None)
                for x in v.elts]
        return None if any(r is None for r in rows) else tuple(rows)
    if isinstance(v, (ast.Tuple, ast.Set, ast.List)) and v.elts and \
            all(isinstance(x, ast.Constant) and type(x.value) in (str, int) for x in v.elts):
        vals = [x.value for x in v.elts]
        if wrap == "frozenset" or (wrap is None and isinstance(v, ast.Set)):
            return frozenset(vals)
        if wrap == "tuple" or (wrap is None and isinstance(v, ast.Tuple)):
            return tuple(vals)
    return None


def _fold_int(op, l, r):
    """Integer arithmetic on two integer literals is the literal result (`0x41 - 10`, a constant loop counter)."""
    if l[0] == "const" and r[0] == "const" and type(l[1]) is int and type(r[1]) is int:
        a, b = l[1], r[1]
        try:
            v = {"Add": lambda: a + b, "Sub": lambda: a - b, "Mult": lambda: a * b, "BitOr": lambda: a | b, "BitAnd": lambda: a & b,
                 "LShift": lambda: a << b if 0 <= b < 64 else None, "RShift": lambda: a >> b if 0 <= b < 64 else None,
                 "FloorDiv": lambda: a // b if b else None, "Mod": lambda: a % b if b else None}.get(op, lambda: None)()
        except Exception:
            v = None
        if v is not None:
            return ("const", v)
    return ("binop", op, l, r)


_OPERATOR_CMP = {"lt": "Lt", "le": "LtE", "gt": "Gt", "ge": "GtE", "eq": "Eq", "ne": "NotEq", "is_": "Is", "is_not": "IsNot",
                 "__lt__": "Lt", "__le__": "LtE", "__gt__": "Gt", "__ge__": "GtE", "__eq__": "Eq", "__ne__": "NotEq"}


class _WrapJumps(dict):
    """break/continue out of a `with` body leave the context."""

    def __init__(self, outer, an, c):
        super().__init__()
        self["break"] = _Popper(outer["break"], an, c)
        self["continue"] = _Popper(outer["continue"], an, c)


class _Popper(list):
    def __init__(self, target, an, c):
        super().__init__()
        self.target, self.an, self.c = target, an, c

    def append(self, s):
        self.target.append(self.an._pop_ctx(s, self.c))

    def extend(self, ss):
        for s in ss:
            self.append(s)


def _as_load(t):
    t2 = ast.parse(unparse(t), mode="eval").body
    ast.copy_location(t2, t)
    for n in ast.walk(t2):
        if not hasattr(n, "lineno"):
            ast.copy_location(n, t)
    return t2


def _is_suppress(v):
    return v[0] == "call" and ((v[1][0] in ("ext", "global") and v[1][2] == "suppress") or
                               (v[1][0] == "attr" and v[1][2] == "suppress"))


def _immutable_recv(t):
    """`x.update(...)`-like names on clearly immutable receivers (str constants) are not mutations."""
    return t[0] in ("const", "fstr")


# ----------------------------------------------------------------------------
_CACHE: dict = {}


PRECISE_DEFAULT = False      # thorough tier: full path sensitivity wherever the state cap allows


def analyze(model: Model, fi: FuncInfo, bindings: dict | None = None, trace=None, trace_key=None, merge=True) -> Result:
    if PRECISE_DEFAULT and merge:
        try:
            return analyze(model, fi, bindings, trace, trace_key, merge=False)
        except AnalysisError:
            pass
    key = (id(model), fi.qual, fi.backend, tuple(sorted((bindings or {}).items())), trace_key, merge)
    if trace is not None and trace_key is None:
        return Analyzer(model, fi, bindings, trace, merge).run()
    if key not in _CACHE:
        _CACHE[key] = Analyzer(model, fi, bindings, trace, merge).run()
    return _CACHE[key]


_PRECISE_CAP = 1500


def analyze_precise(model: Model, fi: FuncInfo) -> Result:
    """Full path-sensitivity (no fact-intersection merging) when the function is small enough, else the merged analysis."""
    key = (id(model), fi.qual, fi.backend, "precise")
    if key not in _CACHE:
        global MAX_STATES
        saved = MAX_STATES
        MAX_STATES = _PRECISE_CAP
        try:
            _CACHE[key] = Analyzer(model, fi, None, None, False).run()
        except AnalysisError:
            _CACHE[key] = None
        finally:
            MAX_STATES = saved
    r = _CACHE[key]
    return r if r is not None else analyze(model, fi)
