"""Obligations, findings, known findings, evidence files and the exit protocol."""
from __future__ import annotations

import json
import os
import re
import sys
import time
from dataclasses import dataclass, field

VERIF = os.path.dirname(os.path.dirname(os.path.abspath(__file__)))
KNOWN_FILE = os.path.join(VERIF, "KNOWN_FINDINGS.txt")


@dataclass
class Finding:
    rule: str
    func: str
    construct: str
    message: str
    detail: dict = field(default_factory=dict)
    where: str = ""       # file:line (diagnostic only; never part of the key)

    @property
    def key(self):
        return f"{self.func}::{re.sub(r'\\s+', ' ', self.construct).strip()}"


class Known:
    """KNOWN_FINDINGS.txt:  known: property=<id> rule=<r> key=<func::construct> :: <what fails>
                            fixed: property=<id> <commit> <what failed>            (suppresses nothing)"""

    def __init__(self, path=KNOWN_FILE):
        self.entries = []
        if os.path.exists(path):
            for line in open(path, encoding="utf8"):
                line = line.rstrip("\n")
                m = re.match(r"known:\s+property=(\S+)\s+rule=(\S+)\s+key=(.*?)\s+::\s+(.*)$", line)
                if m:
                    self.entries.append((m.group(1), m.group(2), m.group(3).strip(), m.group(4)))

    def match(self, prop, f: Finding):
        for p, r, k, what in self.entries:
            if p == prop and r == f.rule and k == f.key:
                return what
        return None


class Ctx:
    def __init__(self, prop, tier, model):
        self.prop = prop
        self.tier = tier
        self.model = model
        self.t0 = time.time()
        self.findings: list[Finding] = []
        self.rules: dict = {}          # rule -> {"instances": n, "obligations": n, "discharged": n, "floor": n}
        self.samples: list = []
        self.notes: list = []
        self.functions: set = set()
        self.assumptions: list = []
        self.explanation = ""
        self.distinct: set = set()
        self.extra: dict = {}

    # ------------------------------------------------------------------
    def rule(self, rule, floor=0, what=""):
        r = self.rules.setdefault(rule, {"instances": 0, "obligations": 0, "discharged": 0, "floor": floor, "what": what})
        if floor:
            r["floor"] = floor
        if what:
            r["what"] = what
        return r

    def instance(self, rule, n=1):
        self.rule(rule)["instances"] += n

    def ob(self, rule, func, construct, ok, message="", where="", sample=None, nontrivial=True, **detail):
        """Record one obligation. ok=True: discharged. ok=False: a finding."""
        r = self.rule(rule)
        r["obligations"] += 1
        if nontrivial:
            self.distinct.add((rule, func, construct))
        if ok:
            r["discharged"] += 1
            if sample is not None and len([s for s in self.samples if s.get("rule") == rule]) < 3:
                self.samples.append({"rule": rule, "site": f"{func}: {construct}", "discharged_by": sample})
        elif rule in getattr(self, "scope", {}) and not self.scope[rule][0](func):
            # the rule runs package-wide, this property claims its findings only in the functions its statement is about
            r["obligations"] -= 1
            self.note(f"[{rule}] outside {self.prop} ({self.scope[rule][1]}): {func}: {message[:160]}")
        elif rule in getattr(self, "outside", {}):
            # a shared audit saw a defect that is not a necessary condition of THIS property (it is one of the property named
            # in `outside`): the obligation is not counted here, the observation is kept as a note
            r["obligations"] -= 1
            self.note(f"[{rule}] outside {self.prop} ({self.outside[rule]}): {func}: {message[:160]}")
        else:
            self.findings.append(Finding(rule, func, construct, message, detail, where))
        return ok

    def findings_unknown(self):
        """Findings that are not listed as known (i.e. would be reported as violations)."""
        known = Known()
        return [f for f in self.findings if known.match(self.prop, f) is None]

    def note(self, text):
        self.notes.append(text)

    def check_floors(self):
        from .model import AnalysisError
        for name, r in self.rules.items():
            # The confirmed count is what the rule matched on the tree it was written for. Restructuring legitimately
            # changes the number of sites (two returns merged into one, a pop() replaced by a guard), so the alarm
            # threshold is "lost sight of most of it": at least one site, and at least a third of the confirmed count.
            need = 0 if r["floor"] <= 0 else max(1, r["floor"] // 3)
            if r["instances"] < need:
                raise AnalysisError(f"rule {name} matched {r['instances']} instance(s), the confirmed count is {r['floor']} "
                                    f"(alarm threshold {need}): the rule no longer sees the code it was written for")

    # ------------------------------------------------------------------
    def finish(self):
        from .model import AnalysisError
        floor_error = None
        try:
            self.check_floors()
        except AnalysisError as e:
            floor_error = e
        helpers = sorted(self.model.transparent()) if getattr(self, "model", None) is not None else []
        if helpers:
            self.note("functions absent from sa/anchors.txt, analysed in place at their call sites: " + ", ".join(helpers))
        known = Known()
        out_dir = os.environ.get("YARL_VERIF_OUT") or os.path.join(VERIF, "evidence")
        vdir = os.path.join(out_dir, "violations")
        os.makedirs(vdir, exist_ok=True)
        for fn in os.listdir(vdir):
            if fn.startswith(self.prop + "-"):
                os.unlink(os.path.join(vdir, fn))
        violations = []
        known_hits = []
        seen = set()
        for f in self.findings:
            k = (f.rule, f.key)
            if k in seen:
                continue
            seen.add(k)
            what = known.match(self.prop, f)
            if what is not None:
                known_hits.append((f, what))
            else:
                violations.append(f)
        for f, what in known_hits:
            print(f"KNOWN-FINDING: property={self.prop} rule={f.rule} {f.key} :: {what}")
        for i, f in enumerate(violations, 1):
            rp = os.path.join("evidence", "violations", f"{self.prop}-{i}.json")
            with open(os.path.join(vdir, f"{self.prop}-{i}.json"), "w") as fh:
                json.dump({"property": self.prop, "rule": f.rule, "function": f.func, "construct": f.construct,
                           "key": f.key, "where": f.where, "message": f.message, "detail": _jsonable(f.detail)}, fh, indent=1)
            print(f"{f.where or f.func}: [{f.rule}] {f.message}\n    construct: {f.construct}")
            print(f"VIOLATION property={self.prop} replay={rp}")
        obligations = sum(r["obligations"] for r in self.rules.values())
        discharged = sum(r["discharged"] for r in self.rules.values())
        ev = {
            "property_id": self.prop,
            "tier": self.tier,
            "seed": int(os.environ.get("VERIF_SEED", "0") or 0),
            "level": "other",
            "coverage": {
                "explanation": self.explanation,
                "evaluations": obligations,
                "distinct_nontrivial": len(self.distinct),
                "rule": "one evaluation = one obligation (rule instance x site x reaching state class); distinct = "
                        "distinct (rule, function, normalised construct) triples with a non-empty requirement",
                "obligations": obligations,
                "discharged": discharged,
                "known_findings": [f"{f.rule} {f.key}" for f, _ in known_hits],
                "functions_analysed": sorted(self.functions),
                "rules": self.rules,
                "samples": self.samples[:40] or [{"note": "no obligations"}],
                "notes": self.notes,
                "exhaustive": False,
                **self.extra,
            },
            "assumptions": self.assumptions,
            "wall_s": round(time.time() - self.t0, 3),
            "violations": len(violations),
        }
        with open(os.path.join(out_dir, f"{self.prop}.json"), "w") as fh:
            json.dump(_jsonable(ev), fh, indent=1)
        print(f"{self.prop}: {obligations} obligations, {discharged} discharged, {len(known_hits)} known finding(s), "
              f"{len(violations)} violation(s); rules: " +
              ", ".join(f"{k}={v['discharged']}/{v['obligations']}" for k, v in sorted(self.rules.items())))
        if violations:
            return 1
        if floor_error is not None:
            raise floor_error       # nothing reported, but a rule lost sight of its code: exit 2, never a silent pass
        return 0


def _jsonable(x):
    if isinstance(x, dict):
        return {str(k): _jsonable(v) for k, v in x.items()}
    if isinstance(x, (list, tuple, set, frozenset)):
        return [_jsonable(v) for v in (sorted(x, key=repr) if isinstance(x, (set, frozenset)) else x)]
    if isinstance(x, (str, int, float, bool)) or x is None:
        return x
    return repr(x)


def where(fi, node):
    return f"yarl/{fi.module}.{'pyx' if fi.backend == 'pyx' else 'py'}:{getattr(node, 'lineno', 0)}"
