"""Driver: ./check <Cxx> [--tier quick|thorough]"""
from __future__ import annotations

import argparse
import importlib
import os
import sys
import traceback

from .model import AnalysisError, Model
from .report import Ctx


def controls(ctx, prop):
    """Thorough tier: replay the mutation corpus entries of this property (each is one edit on a scratch copy of the
    current tree): the quick check must report every one of them with the expected rule, and stay silent on the
    behaviour-preserving ones. A missed control means the check has lost its power: exit 2, never a silent pass."""
    import concurrent.futures as cf
    sys.path.insert(0, os.path.join(os.path.dirname(os.path.dirname(os.path.abspath(__file__))), "selftest"))
    import run as st
    from mutants import BENIGN, MUTANTS
    todo = [(m[0], [prop], m[2], m[3], m[4], m[5]) for m in MUTANTS + BENIGN + st.seeded_variants() if prop in m[1]]
    rule = "CONTROL"
    ctx.rule(rule, what="mutation controls: every seeded edit of this property's corpus is reported, benign edits are not")
    missed = []
    with cf.ThreadPoolExecutor(min(16, max(1, len(todo)))) as ex:
        for name, ok, msg in ex.map(st.run_variant, todo):
            if not ok and "stale" in msg:
                ctx.note(f"control {name} skipped: its anchor text is not in the current tree")
                continue
            ctx.instance(rule)
            ctx.ob(rule, "<selftest>", f"control {name}", True, sample="behaved as expected") if ok else missed.append((name, msg))
    if missed:
        raise AnalysisError("mutation controls not behaving as expected (the check would miss a known breaking edit or "
                            "alarm on a benign one): " + "; ".join(f"{n}: {m[:160]}" for n, m in missed))


def run_steps(mod, ctx):
    """Execute the property module's run() statement by statement. A rule family that meets an idiom it does not
    understand (AnalysisError) is recorded and the remaining families still run, so that a violation another rule can see
    is reported (exit 1) instead of being hidden behind exit 2. Steps that only fail because an earlier step produced no
    result are recorded as skipped."""
    import ast
    import inspect
    import textwrap
    src = textwrap.dedent(inspect.getsource(mod.run))
    fn = ast.parse(src).body[0]
    ns = dict(vars(mod))
    ns[fn.args.args[0].arg] = ctx
    errors = []
    for st in fn.body:
        code = compile(ast.Module(body=[st], type_ignores=[]), getattr(mod, "__file__", "<prop>"), "exec")
        try:
            exec(code, ns)
        except AnalysisError as e:
            errors.append(str(e))
        except (NameError, TypeError, AttributeError, KeyError) as e:
            if not errors:
                raise
            errors.append(f"step skipped, it depends on an undecided one ({type(e).__name__}: {e})")
    return errors


def main(argv=None):
    ap = argparse.ArgumentParser()
    ap.add_argument("prop")
    ap.add_argument("--tier", default=os.environ.get("VERIF_TIER", "quick"), choices=["quick", "thorough"])
    ap.add_argument("--explain")
    a = ap.parse_args(argv)
    prop = a.prop.upper()
    try:
        mod = importlib.import_module(f"sa.props.{prop}")
        model = Model()
        ctx = Ctx(prop, a.tier, model)
        if a.tier == "thorough":
            from . import interp
            interp.PRECISE_DEFAULT = True       # full path sensitivity (no fact-merging) wherever the state cap allows
            ctx.note("thorough tier: unmerged (fully path-sensitive) analysis; the property's mutation controls are replayed")
        errors = run_steps(mod, ctx)
        if a.tier == "thorough" and not ctx.findings_unknown() and not errors:
            controls(ctx, prop)
        for e in errors:
            ctx.note("analysis error (that rule family is undecided on this tree): " + e)
        try:
            code = ctx.finish()
        except AnalysisError as e:
            errors.append(str(e))
            code = 0
        if code == 0 and errors:
            # nothing this run could decide is violated, but part of the property went undecided: never a silent pass
            print(f"ANALYSIS-ERROR property={prop}: " + " || ".join(errors))
            return 2
        if code == 1 and errors:
            print(f"note: {len(errors)} rule famil{'y' if len(errors) == 1 else 'ies'} could not be decided on this tree: "
                  + " || ".join(x[:160] for x in errors))
    except AnalysisError as e:
        print(f"ANALYSIS-ERROR property={prop}: {e}")
        return 2
    except Exception:
        traceback.print_exc()
        print(f"ANALYSIS-ERROR property={prop}: internal error in the analyser (see traceback)")
        return 2
    return code


if __name__ == "__main__":
    sys.exit(main())
