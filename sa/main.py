"""Driver: ./check <Cxx> [--tier quick|thorough]"""
from __future__ import annotations

import argparse
import importlib
import os
import sys
import traceback

from .model import AnalysisError, Model
from .report import Ctx


def main(argv=None):
    ap = argparse.ArgumentParser()
    ap.add_argument("prop")
    ap.add_argument("--tier", default=os.environ.get("VERIF_TIER", "quick"), choices=["quick", "thorough"])
    ap.add_argument("--explain")
    a = ap.parse_args(argv)
    prop = a.prop.upper()
    try:
        mod = importlib.import_module(f"sa.props.{prop}")
        model = Model()
        ctx = Ctx(prop, a.tier, model)
        mod.run(ctx)
        code = ctx.finish()
    except AnalysisError as e:
        print(f"ANALYSIS-ERROR property={prop}: {e}")
        return 2
    except Exception:
        traceback.print_exc()
        print(f"ANALYSIS-ERROR property={prop}: internal error in the analyser (see traceback)")
        return 2
    return code


if __name__ == "__main__":
    sys.exit(main())
