"""Driver: ./check <Cxx> [--tier quick|thorough]"""
from __future__ import annotations

import argparse
import importlib
import os
import sys
import traceback

from .model import AnalysisError, Model
from .report import Ctx


def controls(ctx, prop):
    """Thorough tier: replay the mutation corpus entries of this property (each is one edit on a scratch copy of the
    current tree): the quick check must report every one of them with the expected rule, and stay silent on the
    behaviour-preserving ones. A missed control means the check has lost its power: exit 2, never a silent pass."""
    import concurrent.futures as cf
    sys.path.insert(0, os.path.join(os.path.dirname(os.path.dirname(os.path.abspath(__file__))), "selftest"))
    import run as st
    from mutants import BENIGN, MUTANTS
    todo = [(m[0], [prop], m[2], m[3], m[4], m[5]) for m in MUTANTS + BENIGN + st.seeded_variants() if prop in m[1]]
    rule = "CONTROL"
    ctx.rule(rule, what="mutation controls: every seeded edit of this property's corpus is reported, benign edits are not")
    missed = []
    with cf.ThreadPoolExecutor(min(16, max(1, len(todo)))) as ex:
        for name, ok, msg in ex.map(st.run_variant, todo):
            if not ok and "stale" in msg:
                ctx.note(f"control {name} skipped: its anchor text is not in the current tree")
                continue
            ctx.instance(rule)
            ctx.ob(rule, "<selftest>", f"control {name}", True, sample="behaved as expected") if ok else missed.append((name, msg))
    if missed:
        raise AnalysisError("mutation controls not behaving as expected (the check would miss a known breaking edit or "
                            "alarm on a benign one): " + "; ".join(f"{n}: {m[:160]}" for n, m in missed))


def main(argv=None):
    ap = argparse.ArgumentParser()
    ap.add_argument("prop")
    ap.add_argument("--tier", default=os.environ.get("VERIF_TIER", "quick"), choices=["quick", "thorough"])
    ap.add_argument("--explain")
    a = ap.parse_args(argv)
    prop = a.prop.upper()
    try:
        mod = importlib.import_module(f"sa.props.{prop}")
        model = Model()
        ctx = Ctx(prop, a.tier, model)
        if a.tier == "thorough":
            from . import interp
            interp.PRECISE_DEFAULT = True       # full path sensitivity (no fact-merging) wherever the state cap allows
            ctx.note("thorough tier: unmerged (fully path-sensitive) analysis; the property's mutation controls are replayed")
        mod.run(ctx)
        if a.tier == "thorough" and not ctx.findings_unknown():
            controls(ctx, prop)
        code = ctx.finish()
    except AnalysisError as e:
        print(f"ANALYSIS-ERROR property={prop}: {e}")
        return 2
    except Exception:
        traceback.print_exc()
        print(f"ANALYSIS-ERROR property={prop}: internal error in the analyser (see traceback)")
        return 2
    return code


if __name__ == "__main__":
    sys.exit(main())
