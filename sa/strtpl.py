"""String templates: the ways Python spells "these literal pieces around those values".

`flatten(term)` normalises f-strings, `+` concatenation, `"..." % x`, `"...".format(x)`, `"".join([...])`,
`str(x)`, `format(x, spec)` and the `hex(x)[2:].upper()` idiom into one list of parts

    ("lit", text) | ("val", term) | ("fmt", term, spec)

so that a rule about *what text is produced* does not depend on which spelling the code uses.
"""
from __future__ import annotations

import re
import string

from .terms import show

_PRINTF = re.compile(r"%(?:(%)|(0?\d*)([sdxX]))")


def _lit(s):
    return ("lit", s)


def _merge(parts):
    out = []
    for p in parts:
        if p[0] == "lit":
            if not p[1]:
                continue
            if out and out[-1][0] == "lit":
                out[-1] = ("lit", out[-1][1] + p[1])
                continue
        out.append(p)
    return out


def _spec(s):
    s = s or ""
    return "" if s in ("s", "d") else s


def _hex_idiom(t):
    """hex(x)[2:] / hex(x)[2:].upper() / hex(x).upper()[2:]  ->  (x, 'x' | 'X')"""
    upper = False
    sliced = False
    x = t
    for _ in range(3):
        if x[0] == "call" and x[1][0] == "attr" and x[1][2] in ("upper", "lower") and not x[2]:
            upper = x[1][2] == "upper"
            x = x[1][1]
        elif x[0] == "sub" and x[2][0] == "slice" and x[2][1] == ("const", 2) and x[2][2] == ("const", None):
            sliced = True
            x = x[1]
        else:
            break
    if sliced and x[0] == "call" and x[1] == ("builtin", "hex") and len(x[2]) == 1:
        return x[2][0], "X" if upper else "x"
    return None


def list_elements(t):
    """Elements of a list/tuple written as a literal, possibly followed by append / extend-with-a-literal updates."""
    if t[0] in ("tuple", "list"):
        return None if any(x[0] == "star" for x in t[1]) else list(t[1])
    if t[0] == "mut":
        base = list_elements(t[1])
        if base is None:
            return None
        if t[2] == "append" and len(t[3]) == 1:
            return base + [t[3][0]]
        if t[2] == "extend" and len(t[3]) == 1:
            more = list_elements(t[3][0])
            return None if more is None else base + more
        if t[2] == "insert" and len(t[3]) == 2 and t[3][0] == ("const", 0):
            return [t[3][1]] + base
    return None


def flatten(t):
    return _merge(_flat(t))


def _flat(t):
    tag = t[0]
    if tag == "const" and isinstance(t[1], str):
        return [_lit(t[1])]
    if tag == "fstr":
        out = []
        for p in t[1]:
            if p[0] == "const":
                out.append(_lit(str(p[1])))
            else:
                val, conv, spec = p[1], p[2], p[3]
                if conv in (None, "s") and not _spec(spec):
                    out.extend(_flat_val(val))
                elif conv is None:
                    out.append(("fmt", val, _spec(spec)))
                else:
                    out.append(("val", t))
        return out
    if tag == "binop" and t[1] == "Add":
        return _flat(t[2]) + _flat(t[3])
    if tag == "binop" and t[1] == "Mod" and t[2][0] == "const" and isinstance(t[2][1], str):
        args = list(t[3][1]) if t[3][0] == "tuple" else [t[3]]
        out, pos, fmt = [], 0, t[2][1]
        for m in _PRINTF.finditer(fmt):
            out.append(_lit(fmt[pos:m.start()]))
            pos = m.end()
            if m.group(1):
                out.append(_lit("%"))
                continue
            if not args:
                return [("val", t)]
            a = args.pop(0)
            spec = (m.group(2) or "") + (m.group(3) if m.group(3) in "xX" else "")
            out.extend(_flat_val(a) if not spec else [("fmt", a, spec)])
        out.append(_lit(fmt[pos:]))
        if args or "%" in fmt[pos:]:
            return [("val", t)]
        return out
    if tag == "call":
        f, args, kwargs = t[1], t[2], t[3]
        if f[0] == "attr" and f[2] == "format" and f[1][0] == "const" and isinstance(f[1][1], str) and not kwargs:
            out, auto = [], 0
            try:
                for lit, field, spec, conv in string.Formatter().parse(f[1][1]):
                    out.append(_lit(lit))
                    if field is None:
                        continue
                    if field == "":
                        i, auto = auto, auto + 1
                    elif field.isdigit():
                        i = int(field)
                    else:
                        return [("val", t)]
                    if i >= len(args) or conv not in (None, "s"):
                        return [("val", t)]
                    out.extend(_flat_val(args[i]) if not _spec(spec) else [("fmt", args[i], _spec(spec))])
            except ValueError:
                return [("val", t)]
            return out
        if f[0] == "attr" and f[2] == "join" and f[1] == ("const", "") and len(args) == 1:
            elts = list_elements(args[0])
            if elts is not None:
                out = []
                for x in elts:
                    out.extend(_flat(x))
                return out
        if f == ("builtin", "str") and len(args) == 1 and not kwargs:
            return _flat_val(args[0])
        if f == ("builtin", "format") and len(args) == 2 and args[1][0] == "const":
            return [("fmt", args[0], _spec(args[1][1]))] if _spec(args[1][1]) else _flat_val(args[0])
        h = _hex_idiom(t)
        if h:
            return [("fmt", h[0], h[1])]
    if tag == "sub":
        h = _hex_idiom(t)
        if h:
            return [("fmt", h[0], h[1])]
    return [("val", t)]


def _flat_val(v):
    """A value interpolated without a format spec: a nested template stays a template."""
    if v[0] in ("fstr",) or (v[0] == "const" and isinstance(v[1], str)) or (v[0] == "binop" and v[1] in ("Add",) and
                                                                             any(x[0] == "lit" for x in _flat(v))):
        return _flat(v)
    if v[0] == "call":
        inner = _flat(v)
        if inner != [("val", v)]:
            return inner
    return [("val", v)]


def show_parts(parts):
    return " ".join(repr(p[1]) if p[0] == "lit" else ("{" + show(p[1]) + (":" + p[2] if p[0] == "fmt" else "") + "}") for p in parts)
