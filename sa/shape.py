"""Shape domain: which of {None, Empty, NonEmpty, Zero, NonZero, Obj} a value can be.

Used for: constant subscripts on possibly-empty sequences (SH1), Optional dereference (SH2),
eager/lazy agreement (SH4), port zero-vs-absent discipline (SH5), kind-neutrality of empty values (K).
Interprocedural through summaries computed from the callee's own return paths.
"""
from __future__ import annotations

import ast

from .interp import analyze, analyze_precise, truth
from .model import AnalysisError, FuncInfo, Model, unparse
from .terms import NONE, show

N, E, NE, Z, NZ, OBJ = "None", "Empty", "NonEmpty", "Zero", "NonZero", "Obj"
TOP = frozenset({N, E, NE, Z, NZ, OBJ})
STR = frozenset({E, NE})
INT = frozenset({Z, NZ})
FALSY = frozenset({N, E, Z})
TRUTHY = frozenset({NE, NZ, OBJ})

SLOTS_STR = {"_scheme", "_netloc", "_path", "_query", "_fragment"}
PRESERVE = {"lower", "upper", "casefold", "encode", "decode", "title", "swapcase", "capitalize", "__str__"}
MAYBE_EMPTY = {"strip", "lstrip", "rstrip", "replace", "removeprefix", "removesuffix", "expandtabs", "translate"}


def ann_shape(a) -> frozenset:
    """Shape set from a (syntactic) annotation."""
    if a is None:
        return TOP
    if isinstance(a, ast.Constant) and isinstance(a.value, str):
        txt = a.value
    else:
        txt = unparse(a)
    txt = txt.replace(" ", "").strip("'\"")
    out = set()
    opt = False
    if txt.startswith("Union[") and txt.endswith("]"):
        parts = _split_top(txt[6:-1])
    elif txt.startswith("Optional[") and txt.endswith("]"):
        parts = _split_top(txt[9:-1]) + ["None"]
    else:
        parts = txt.split("|") if "[" not in txt else [txt]
    for p in parts:
        if p in ("None", "NoneType"):
            out.add(N)
        elif p in ("str", "bytes") or p.startswith("tuple[") or p.startswith("list[") or p in ("tuple", "list") \
                or p.startswith("Sequence[") or p == "SplitURLType":
            out |= STR
        elif p in ("int", "bool", "float", "bint", "Py_ssize_t"):
            out |= INT
        elif p in ("URL", '"URL"', "'URL'"):
            out.add(OBJ)
        else:
            return TOP
    return frozenset(out) or TOP


def _split_top(s):
    out, depth, cur = [], 0, ""
    for ch in s:
        if ch == "[":
            depth += 1
        elif ch == "]":
            depth -= 1
        if ch == "," and depth == 0:
            out.append(cur)
            cur = ""
        else:
            cur += ch
    if cur:
        out.append(cur)
    return out


def refine(shapes: frozenset, t, facts) -> frozenset:
    tv = truth(t, facts)
    if tv is True:
        shapes = shapes - FALSY
    elif tv is False:
        shapes = shapes & FALSY
    isn = truth(("cmp", "Is", t, NONE), facts)
    if isn is True:
        shapes = shapes & {N}
    elif isn is False:
        shapes = shapes - {N}
    if N in shapes and t[0] != "const":
        # a method of the value was called on this path (its result is a known fact): the value is not None
        for k in facts:
            if k[0] == "call" and k[1][0] == "attr" and k[1][1] == t:
                shapes = shapes - {N}
                break
    return frozenset(shapes)


class Shapes:
    def __init__(self, model: Model, unknown=TOP):
        self.model = model
        self.top = unknown       # what an unknown value may be (SH2 uses TOP - {None}: only *known* Optionals count)
        self._summ = {}
        self._active = set()
        self._inst = {}

    # -- context: (FuncInfo, param shape overrides) ---------------------------------
    def shape(self, t, facts, fi: FuncInfo | None, pshapes=None, res=None, depth=0) -> frozenset:
        s = self._struct(t, facts, fi, pshapes or {}, res, depth)
        return refine(s, t, facts)

    def _struct(self, t, facts, fi, ps, res, depth):
        if depth > 40:
            return self.top
        d = depth + 1
        sh = lambda x: self.shape(x, facts, fi, ps, res, d)
        tag = t[0]
        if tag == "const":
            v = t[1]
            if v is None:
                return frozenset({N})
            if isinstance(v, bool) or isinstance(v, (int, float)):
                return frozenset({NZ if v else Z})
            if isinstance(v, (str, bytes, tuple)):
                return frozenset({NE if len(v) else E})
            return frozenset({OBJ})
        if tag == "param":
            if t[1] in ps:
                return ps[t[1]]
            if fi is not None:
                if t[1] in ("self", "cls"):
                    return frozenset({OBJ})
                a = ann_shape(fi.param_annotation(t[1]))
                return self.top if a == TOP else a
            return self.top
        if tag == "fstr":
            shapes = []
            for p in t[1]:
                if p[0] == "const":
                    shapes.append(frozenset({NE if p[1] else E}))
                else:
                    x = sh(p[1])
                    if p[2] == "r":
                        shapes.append(frozenset({NE}))
                    elif x <= STR:
                        shapes.append(x)
                    elif not (x & STR):
                        shapes.append(frozenset({NE}))     # str(None), str(int), repr(obj) are non-empty
                    else:
                        shapes.append(frozenset({E, NE}))
            return _concat(shapes)
        if tag == "binop":
            if t[1] == "Add":
                a, b = sh(t[2]), sh(t[3])
                if a <= STR and b <= STR:
                    return _concat([a, b])
                if a <= INT and b <= INT:
                    return INT
                if (a | b) <= STR | INT:
                    return (STR if (a | b) & STR else frozenset()) | (INT if (a | b) & INT else frozenset())
                return self.top
            if t[1] in ("Sub", "Mult", "BitOr", "BitAnd", "LShift", "RShift", "FloorDiv", "Mod"):
                return INT if t[1] != "Mult" else INT | STR
            return self.top
        if tag in ("cmp", "unop"):
            return INT
        if tag in ("tuple", "list", "set"):
            if any(e[0] != "star" for e in t[1]):
                return frozenset({NE})
            if not t[1]:
                return frozenset({E})
            return STR
        if tag == "dict":
            return frozenset({NE if t[1] else E})
        if tag == "new":
            return frozenset({OBJ})
        if tag == "attr":
            return self._attr(t, facts, fi, ps, res, d)
        if tag == "sub":
            return self._sub(t, facts, fi, ps, res, d)
        if tag == "item":
            return self._item(t[1], t[2], facts, fi, ps, res, d)
        if tag == "call":
            return self._call(t, facts, fi, ps, res, d)
        if tag == "mut":
            if t[2] in ("append", "insert", "add", "setitem"):
                return frozenset({NE})
            if t[2] in ("reverse", "sort"):
                return sh(t[1])
            if t[2] == "extend":
                a, b = sh(t[1]), (sh(t[3][0]) if t[3] else frozenset({E}))
                return _concat([a & STR or STR, b & STR or STR])
            if t[2] == "clear":
                return frozenset({E})
            return STR
        if tag == "phi":
            if res is None:
                return self.top
            key = ("phi", id(res), t)
            if key in self._active:
                return frozenset()
            self._active.add(key)
            try:
                out = frozenset()
                for src in res.phis.get((t[1], t[2]), ()):
                    if src[0] == "unknown":
                        continue
                    # a source is evaluated under the facts that held where it was produced
                    for fcts in res.phi_facts.get((t[1], t[2], src), [{}]):
                        out |= self.shape(src, fcts, fi, ps, res, d)
                return out or self.top
            finally:
                self._active.discard(key)
        if tag == "elem":
            it = sh(t[1])
            src = t[1]
            if src[0] == "const" and isinstance(src[1], str):
                return frozenset({NE})
            # the elements of <mapping>.items() / enumerate(x) / zip(...) are pairs
            if src[0] == "call" and ((src[1][0] == "attr" and src[1][2] == "items" and not src[2]) or
                                     src[1] in (("builtin", "enumerate"), ("builtin", "zip"))):
                return frozenset({NE})
            return self.top
        if tag == "comp":
            return STR
        if tag == "ucomp":
            return frozenset({NE}) if any(not cs for cs, _v in t[2]) else (STR if t[2] else frozenset({E}))
        if tag == "global":
            r = self.model.resolve_global(t[1], t[2])
            if r and r[0] == "value":
                try:
                    from .fold import module_const
                    v = module_const(self.model, t[1], t[2])
                    if isinstance(v, (str, bytes, tuple, list, frozenset, set, dict)):
                        return frozenset({NE if len(v) else E})
                except Exception:
                    pass
            return frozenset({OBJ})
        if tag in ("builtin", "ext"):
            return frozenset({OBJ})
        return self.top

    # ------------------------------------------------------------------
    def _is_url_obj(self, obj, fi, facts):
        if obj == ("param", "self") and fi is not None and fi.cls == "URL":
            return True
        if obj[0] == "new" and "URL" in obj[1]:
            return True
        # a value established to be a URL by a `type(x) is URL` guard
        for k, v in facts.items():
            if v and k[0] == "cmp" and k[1] == "Is" and k[2] == ("call", ("builtin", "type"), (obj,), ()) \
                    and k[3][0] == "global" and k[3][2] == "URL":
                return True
        if obj[0] == "param" and fi is not None:
            a = fi.param_annotation(obj[1])
            if a is not None and unparse(a).strip("'\"") == "URL":
                return True
        return False

    def _attr(self, t, facts, fi, ps, res, d):
        obj, name = t[1], t[2]
        if self._is_url_obj(obj, fi, facts):
            if name in SLOTS_STR:
                return STR
            if name == "_cache":
                return frozenset({OBJ})
            if self.model.has_func(f"_url.URL.{name}"):
                pf = self.model.func(f"_url.URL.{name}")
                if pf.memo == "cached_property" or any(unparse(x) == "property" for x in pf.decorators):
                    return self.summary(pf, ())
                return frozenset({OBJ})
        if name == "compressed":
            return frozenset({NE})      # ipaddress: the compressed text form is never empty
        return self.top

    def _sub(self, t, facts, fi, ps, res, d):
        base, idx = t[1], t[2]
        if idx[0] == "slice":
            b = self.shape(base, facts, fi, ps, res, d)
            if b <= {E}:
                return frozenset({E})
            if idx[1] == ("const", None) and idx[2] == ("const", None) and b <= STR:
                return b        # x[:], x[::-1]: a copy / reversal has as many elements as x
            if b <= STR | {N}:
                return STR
            return STR
        if idx[0] == "const" and isinstance(idx[1], int):
            return self._item(base, idx[1], facts, fi, ps, res, d)
        if idx[0] == "const" and isinstance(idx[1], str):
            root = base
            while root[0] == "mut":
                root = root[1]
            if root[0] == "attr" and root[2] == "_cache" and self._is_url_obj(root[1], fi, facts):
                return self.cache_key_shape(idx[1])
            return self.top      # mapping lookup
        b = self.shape(base, facts, fi, ps, res, d)
        return self.top

    def _item(self, base, i, facts, fi, ps, res, d):
        """Shape of element i of a tuple-valued term."""
        if base[0] in ("tuple", "list") and isinstance(i, int) and all(e[0] != "star" for e in base[1]) \
                and -len(base[1]) <= i < len(base[1]):
            return self.shape(base[1][i], facts, fi, ps, res, d)
        if base[0] == "call":
            target = self.callee(base, fi)
            if target is not None and isinstance(i, int):
                args = self._argshapes(base, target, facts, fi, ps, res, d)
                s = self.summary(target, args)
                if isinstance(s, tuple):
                    if -len(s) <= i < len(s):
                        return s[i]
                    return self.top
            f = base[1]
            if f[0] == "attr" and f[2] in ("partition", "rpartition") and isinstance(i, int):
                return STR
            if f[0] == "attr" and f[2] in ("split", "rsplit"):
                return STR
        if base[0] == "sub" and base[2][0] == "slice" and base[1][0] == "call" and base[1][1][0] == "attr" and \
                base[1][1][2] in ("split", "rsplit"):
            return STR      # an element of a slice of a split() result is one of its pieces
        if base[0] == "elem":
            return self.top
        return self.top

    def cache_key_shape(self, key):
        """Union of the shapes of every value the package stores under _cache[key] (lazy fillers and the
        eager constructor)."""
        ck = ("cachekey", key)
        if ck in self._summ:
            return self._summ[ck]
        if ck in self._active:
            return self.top
        self._active.add(ck)
        try:
            out = frozenset()
            found = False
            for fi in self.model.all_funcs():
                if fi.module != "_url":
                    continue
                r = analyze(self.model, fi)
                for e in r.by_kind("store_sub"):
                    if e.index == ("const", key):
                        root = e.base
                        while root[0] == "mut":
                            root = root[1]
                        if root[0] == "dict" or (root[0] == "attr" and root[2] == "_cache"):
                            found = True
                            out |= self.shape(e.value, e.state.facts, fi, None, r)
            res = out if found else self.top
        finally:
            self._active.discard(ck)
        self._summ[ck] = res
        return res

    def callee(self, t, fi):
        """FuncInfo of the repository function / method / quoter instance a call term resolves to."""
        f = t[1]
        if f[0] == "global":
            r = self.model.resolve_global(f[1], f[2])
            if r and r[0] == "func":
                return r[1]
            if r and r[0] == "memo_alias":
                return r[1]
            if r and r[0] == "value":
                # module-level instance of a package class with __call__ (the quoters)
                sts = r[3]
                if len(sts) == 1 and isinstance(sts[0].value, ast.Call) and isinstance(sts[0].value.func, ast.Name):
                    c = self.model.resolve_global(r[1], sts[0].value.func.id)
                    if c and c[0] == "class" and self.model.has_func(f"{c[1]}.{c[2]}.__call__"):
                        return self.model.func(f"{c[1]}.{c[2]}.__call__")
                # ... built through a partial object, a factory or tuple unpacking (however the quoters module spells it)
                key = ("inst", r[1], r[2])
                if key not in self._inst:
                    self._inst[key] = None
                    try:
                        from .fold import CannotFold, module_value
                        from .rules.quoters import constructor_call
                        try:
                            cc = constructor_call(self.model, r[1], module_value(self.model, r[1], r[2]))
                        except (CannotFold, AnalysisError):
                            cc = None
                        if cc is not None:
                            for mod in ("_quoting_py",):
                                if self.model.has_func(f"{mod}.{cc[0]}.__call__"):
                                    self._inst[key] = self.model.func(f"{mod}.{cc[0]}.__call__")
                    except ImportError:
                        pass
                if self._inst[key] is not None:
                    return self._inst[key]
        if f[0] == "attr" and f[1] in (("param", "self"), ("param", "cls")) and fi is not None and fi.cls:
            q = f"{fi.module}.{fi.cls}.{f[2]}"
            if self.model.has_func(q):
                return self.model.func(q)
            # an instance attribute initialised in __init__ with an instance of a package class (self._quoter = _Quoter())
            key = (fi.module, fi.cls)
            if key not in self._inst:
                self._inst[key] = {}
                iq = f"{fi.module}.{fi.cls}.__init__"
                if self.model.has_func(iq):
                    for e in analyze(self.model, self.model.func(iq)).by_kind("store_attr"):
                        v = e.value
                        if e.obj == ("param", "self") and v[0] == "call" and v[1][0] == "global":
                            c = self.model.resolve_global(v[1][1], v[1][2])
                            if c and c[0] == "class" and self.model.has_func(f"{c[1]}.{c[2]}.__call__"):
                                self._inst[key][e.attr] = self.model.func(f"{c[1]}.{c[2]}.__call__")
            return self._inst[key].get(f[2])
        return None

    def _argshapes(self, t, target, facts, fi, ps, res, d):
        params = [p for p in target.params if p not in ("self", "cls")]
        out = {}
        pos = [a for a in t[2] if a[0] != "star"]
        for p, a in zip(params, pos):
            out[p] = self.shape(a, facts, fi, ps, res, d)
        for k, v in t[3]:
            if k in params:
                out[k] = self.shape(v, facts, fi, ps, res, d)
        for p in params:
            if p not in out:
                dflt = target.param_default(p)
                if isinstance(dflt, ast.Constant):
                    out[p] = self.shape(("const", dflt.value), {}, None)
        return tuple(sorted(out.items()))

    def _call(self, t, facts, fi, ps, res, d):
        f = t[1]
        sh = lambda x: self.shape(x, facts, fi, ps, res, d)
        if f[0] == "builtin":
            n = f[1]
            if n == "str":
                if t[2]:
                    a = sh(t[2][0])
                    if a <= STR:
                        return a
                    if not (a & STR):
                        return frozenset({NE})
                return STR
            if n in ("int", "ord", "hash", "float"):
                return INT
            if n == "len":
                a = sh(t[2][0]) if t[2] else TOP
                if a <= {E}:
                    return frozenset({Z})
                if a <= {NE}:
                    return frozenset({NZ})
                return INT
            if n in ("bool", "isinstance", "issubclass"):
                return INT
            if n in ("tuple", "list", "reversed", "set", "frozenset", "sorted"):
                if t[2]:
                    a = sh(t[2][0])
                    if a <= STR:
                        return a
                return STR
            if n in ("chr", "repr", "hex"):
                return frozenset({NE})
            if n in ("enumerate", "type", "object"):
                return frozenset({OBJ})
            return self.top
        if f[0] == "attr":
            m = f[2]
            if m in PRESERVE:
                r = sh(f[1])
                return (r & STR) or STR
            if m in MAYBE_EMPTY:
                r = sh(f[1])
                return frozenset({E}) if r <= {E} else STR
            if m in ("split", "rsplit", "partition", "rpartition"):
                return frozenset({NE})
            if m == "join":
                a = sh(t[2][0]) if t[2] else STR
                if a <= {E}:
                    return frozenset({E})
                return STR
            if m in ("find", "rfind", "index", "rindex", "count"):
                return INT
            if m in ("isascii", "isdigit", "isprintable", "startswith", "endswith", "isalpha"):
                return INT
            if m == "format":
                # a template in any spelling: literal text makes it non-empty, otherwise the pieces decide
                from .strtpl import flatten
                parts = flatten(t)
                if parts != [("val", t)]:
                    shapes = []
                    for p_ in parts:
                        if p_[0] == "lit":
                            shapes.append(frozenset({NE if p_[1] else E}))
                        elif p_[0] == "fmt":
                            shapes.append(frozenset({NE}))
                        else:
                            x = sh(p_[1])
                            shapes.append(x if x <= STR else (frozenset({NE}) if not (x & STR) else frozenset({E, NE})))
                    return _concat(shapes)
                return STR
            if m == "compressed":
                return frozenset({NE})
            if m == "pop":
                return self.top
            if m == "get":
                return self.top
        target = self.callee(t, fi)
        if target is not None:
            s = self.summary(target, self._argshapes(t, target, facts, fi, ps, res, d))
            if isinstance(s, tuple):
                return frozenset({NE})
            return s
        return self.top

    # ------------------------------------------------------------------
    def summary(self, target: FuncInfo, argshapes: tuple):
        """Shape of the return value of a repository function for the given argument shapes.
        Returns a frozenset, or a tuple of frozensets when every return value is a tuple display of one length."""
        key = (target.qual, target.backend, argshapes)
        if key in self._summ:
            return self._summ[key]
        if key in self._active:
            return self.top
        self._active.add(key)
        try:
            r = analyze_precise(self.model, target)
            ps = dict(argshapes)
            outs = []
            for s, v, _node in r.returns:
                if not self._compatible(s.facts, ps, target):
                    continue
                if v[0] == "tuple" and all(e[0] != "star" for e in v[1]):
                    outs.append(tuple(self.shape(e, s.facts, target, ps, r) for e in v[1]))
                else:
                    outs.append(self.shape(v, s.facts, target, ps, r))
            if r.falls and any(self._compatible(s.facts, ps, target) for s in r.falls):
                outs.append(frozenset({N}))
            if not outs:
                res = frozenset()       # never returns normally
            elif all(isinstance(o, tuple) for o in outs) and len({len(o) for o in outs}) == 1:
                res = tuple(frozenset().union(*[o[i] for o in outs]) for i in range(len(outs[0])))
            else:
                res = frozenset()
                for o in outs:
                    res |= frozenset({NE}) if isinstance(o, tuple) else o
        finally:
            self._active.discard(key)
        # unknown leaves are narrowed by the declared return annotation (read syntactically)
        if isinstance(res, frozenset) and target.node.returns is not None:
            ann = ann_shape(target.node.returns)
            if ann != TOP and (res & ann):
                res = res & ann
        self._summ[key] = res
        return res

    def _compatible(self, facts, ps, target):
        for p, shp in ps.items():
            t = ("param", p)
            tv = truth(t, facts)
            if tv is True and shp <= FALSY:
                return False
            if tv is False and shp <= TRUTHY:
                return False
            isn = truth(("cmp", "Is", t, NONE), facts)
            if isn is True and N not in shp:
                return False
            if isn is False and shp <= {N}:
                return False
        return True


def _concat(shapes):
    if any(s == frozenset({NE}) for s in shapes):
        return frozenset({NE})
    if all(s <= {E} for s in shapes):
        return frozenset({E})
    return frozenset({E, NE})
