"""Encodedness typestate (K): which kind of text a value is.

  DEC        decoded / user text (public str parameters, unquoter results, decoded accessors)
  RAW        text cut out of a URL string by the splitter in auto-encoding mode (may contain escapes)
  ENC:<role> output of a quoter of that role, a stored slot, a raw accessor, and anything built from those
  OPQ        caller-asserted encoded (a public text parameter on a path where the documented `encoded` flag is truthy)
  CONST NUM NONE  neutral
  UNK        cannot be classified (reported at sinks: never silently accepted)

A value whose shape is within {None, Empty} is kind-neutral. Kinds are sets; compound values take the union.
"""
from __future__ import annotations

import ast

from .interp import analyze, analyze_precise, truth
from .model import FuncInfo, Model, unparse
from .shape import E, N, Shapes
from .terms import NONE, show, walk

DEC, RAW, OPQ, CONST, NUM, NONE_K, UNK = "DEC", "RAW", "OPQ", "CONST", "NUM", "NONE", "UNK"
NEUTRAL = frozenset({CONST, NUM, NONE_K})

SLOT_KIND = {"_scheme": "ENC:scheme", "_netloc": "ENC:netloc", "_path": "ENC:path", "_query": "ENC:query",
             "_fragment": "ENC:fragment"}
# documented entry points whose `encoded` flag makes the caller responsible for the text (B7 / K5)
ENCODED_FLAG = {"_url.URL.__new__", "_url.URL.build", "_url.URL.with_path", "_url.URL.joinpath", "_url.URL._make_child"}
PASS_THROUGH = {"normalize_path", "normalize_path_segments", "query_var", "human_quote"}
STR_PASS = {"split", "rsplit", "partition", "rpartition", "lower", "upper", "replace", "strip", "lstrip", "rstrip", "join",
            "format", "items", "keys", "values", "copy", "removeprefix", "removesuffix", "__str__", "casefold"}
BOOLISH = {"find", "rfind", "index", "startswith", "endswith", "isascii", "isdigit", "isprintable", "count", "__len__"}


def k(*atoms):
    return frozenset(atoms)


class Kinds:
    def __init__(self, model: Model, quoter_info, shapes: Shapes | None = None):
        """quoter_info(name) -> (role, escapes: bool) for a module-level quoter, ('unquoter', cfg) for an unquoter, None."""
        self.model = model
        self.qinfo = quoter_info
        self.shapes = shapes or Shapes(model)
        self._summ = {}
        self._active = set()
        self._index = None
        self.observations = []        # (rule, fi, node-ish, construct, ok, message)

    # ------------------------------------------------------------------
    def kind(self, t, facts, fi: FuncInfo, pk=None, res=None, depth=0) -> frozenset:
        pk = pk or {}
        if depth > 40:
            return k(UNK)
        # kind-neutral: known empty / None
        tag = t[0]
        if tag == "const":
            if t[1] is None:
                return k(NONE_K)
            if isinstance(t[1], (int, float)) and not isinstance(t[1], bool):
                return k(NUM)
            return k(CONST)
        if tag not in ("phi",):
            shp = self.shapes.shape(t, facts, fi, None, res)
            if shp <= {E, N}:
                return k(CONST)     # known empty / None: kind-neutral (an empty shape set = infeasible path condition)
        d = depth + 1
        kd = lambda x: self.kind(x, facts, fi, pk, res, d)
        if tag == "param":
            return self.param_kind(t[1], facts, fi, pk)
        if tag == "attr":
            return self._attr(t, facts, fi, pk, res, d)
        if tag == "call":
            return self._call(t, facts, fi, pk, res, d)
        if tag in ("fstr",):
            out = frozenset()
            for p in t[1]:
                if p[0] == "fmt":
                    out |= kd(p[1])
            return self._norm(out)
        if tag == "binop":
            if t[1] in ("Add", "Mod", "Mult"):
                return self._norm(kd(t[2]) | kd(t[3]))
            return k(NUM)
        if tag in ("cmp", "unop"):
            return k(CONST)
        if tag in ("tuple", "list", "set"):
            out = frozenset()
            for e in t[1]:
                out |= kd(e[1] if e[0] == "star" else e)
            return self._norm(out) if t[1] else k(CONST)
        if tag == "dict":
            out = frozenset()
            for a, b in t[1]:
                out |= kd(a) | kd(b)
            return self._norm(out) if t[1] else k(CONST)
        if tag == "sub":
            base, idx = t[1], t[2]
            if idx[0] == "const" and isinstance(idx[1], int):
                return self._item(base, idx[1], facts, fi, pk, res, d)
            if idx[0] == "const" and isinstance(idx[1], str):
                root = base
                while root[0] == "mut":
                    root = root[1]
                if root[0] == "attr" and root[2] == "_cache" and self._is_url(root[1], facts, fi, pk):
                    return self.cache_key_kind(idx[1])      # what the package stores under that key
            return kd(base)
        if tag == "item":
            return self._item(t[1], t[2], facts, fi, pk, res, d)
        if tag == "elem":
            return kd(t[1])
        if tag == "mut":
            out = kd(t[1])
            # what an in-place update adds to a container is its content arguments, not the index / position
            content = t[3]
            if t[2] in ("setitem", "insert"):
                content = t[3][1:]
            elif t[2] in ("delitem", "pop", "remove", "clear", "reverse", "sort"):
                content = ()
            for a in content:
                out |= kd(a)
            # an update of a loop-carried container inside its own cycle adds nothing: let the other sources decide
            return self._norm(out) if out else frozenset()
        if tag == "slice":
            return k(CONST)
        if tag == "phi":
            key = ("phi", id(res), t)
            if res is None or key in self._active:
                return frozenset()
            self._active.add(key)
            try:
                out = frozenset()
                for src in res.phis.get((t[1], t[2]), ()):
                    if src[0] == "unknown":
                        continue
                    for fcts in res.phi_facts.get((t[1], t[2], src), [{}]):
                        out |= self.kind(src, fcts, fi, pk, res, d)
                return self._norm(out) or k(CONST)
            finally:
                self._active.discard(key)
        if tag == "comp":
            out = frozenset()
            for e in t[2]:
                out |= kd(e)
            return self._norm(out) or k(CONST)
        if tag == "ucomp":
            out = frozenset()
            for _cs, v in t[2]:
                out |= kd(v)
            return self._norm(out) or k(CONST)
        if tag == "new":
            return k("URL")
        if tag in ("global", "builtin", "ext"):
            return k(CONST)
        return k(UNK)

    def _norm(self, s):
        s = frozenset(s)
        rest = s - NEUTRAL
        return rest if rest else (s or k(UNK))

    # ------------------------------------------------------------------
    def param_kind(self, name, facts, fi, pk):
        if name in pk:
            return pk[name]
        if name in ("self", "cls"):
            return k("URL")
        if not self.is_entry(fi) and fi.qual not in ENCODED_FLAG:
            ctxk = self.caller_kinds(fi)
            if ctxk is not None and name in ctxk:
                return ctxk[name]
        ann = fi.param_annotation(name)
        atxt = unparse(ann).replace(" ", "") if ann is not None else ""
        if fi.qual in ENCODED_FLAG and name not in ("encoded", "query"):
            enc = truth(("param", "encoded"), facts) if "encoded" in fi.params else False
            textual = self._textual(fi, name, atxt)
            if textual:
                if enc is True:
                    return k(OPQ)
                if enc is None:
                    return k(OPQ, RAW if fi.name == "__new__" else DEC)
                return k(RAW) if fi.name == "__new__" else k(DEC)
        if name in ("port",) or atxt in ("int", "Union[int,None]"):
            return k(NUM)
        if atxt in ("bool",) or name in ("encoded", "keep_query", "keep_fragment", "validate_host", "encode", "strict"):
            return k(CONST)
        if "URL" in atxt and "str" not in atxt:
            return k("URL")
        if self._textual(fi, name, atxt):
            return k(DEC)
        return k(UNK)

    def is_entry(self, fi):
        """Entry points callers use directly: their parameters are what the API documents, not what the package passes."""
        if fi.cls == "URL":
            return not fi.name.startswith("_") or (fi.name.startswith("__") and fi.name.endswith("__"))
        return fi.cls is None and fi.module == "_url" and fi.name.startswith("cache_")

    def caller_kinds(self, fi):
        """Join of the argument kinds over every call site of a package-internal function (context for its body)."""
        key = ("callers", fi.qual)
        if key in self._summ:
            return self._summ[key]
        if key in self._active:
            return None
        self._active.add(key)
        try:
            if self._index is None:
                self._index = {}
                for cf in self.model.all_funcs():
                    if cf.module not in ("_url", "_query", "_parse"):
                        continue
                    r = analyze(self.model, cf)
                    for e in r.by_kind("call"):
                        t = self.callee(e.value, cf)
                        if t is not None and not (t.cls and t.name == "__call__"):
                            self._index.setdefault(t.qual, []).append((cf, r, e))
            sites = self._index.get(fi.qual, [])
            if not sites:
                out = None
            else:
                out = {}
                for cf, r, e in sites:
                    for p, kd in self._argkinds(e.value, fi, e.state.facts, cf, {}, r, 0):
                        out[p] = self._norm(out.get(p, frozenset()) | kd)
        finally:
            self._active.discard(key)
        self._summ[key] = out
        return out

    def contexts(self, fi):
        """[(bindings, param kinds)] under which an internal function is called: call sites grouped by their boolean
        literal arguments. Entry points have the single context ({}, {})."""
        if self.is_entry(fi) or fi.qual in ENCODED_FLAG:
            return [({}, {})]
        self.caller_kinds(fi)       # builds the call-site index
        sites = (self._index or {}).get(fi.qual, [])
        if not sites:
            return [({}, {})]
        groups = {}
        for cf, r, e in sites:
            b = self.const_bindings(e.value, fi)
            g = groups.setdefault(b, {})
            for p, kd in self._argkinds(e.value, fi, e.state.facts, cf, {}, r, 0):
                g[p] = self._norm(g.get(p, frozenset()) | kd)
        return [(dict(b), g) for b, g in groups.items()]

    def _textual(self, fi, name, atxt):
        if atxt in ("str", "Union[str,None]", "Query", "Union[Query,None]", "QueryVariable", "Any", "'Sequence[str]'", "Sequence[str]") \
                or atxt.startswith("Union[str"):
            return True
        a = fi.node.args
        if (a.vararg and a.vararg.arg == name) or (a.kwarg and a.kwarg.arg == name):
            return True
        return False

    def _is_url(self, obj, facts, fi, pk):
        if obj[0] == "new":
            return True
        if obj[0] == "param":
            if obj[1] == "self" and fi.cls == "URL":
                return True
            if pk.get(obj[1]) == k("URL"):
                return True
            ann = fi.param_annotation(obj[1])
            if ann is not None and unparse(ann).strip("'\"") == "URL":
                return True
            for kk, v in facts.items():
                if v and kk[0] == "cmp" and kk[1] == "Is" and kk[2] == ("call", ("builtin", "type"), (obj,), ()) \
                        and kk[3][0] == "global" and kk[3][2] == "URL":
                    return True
        return False

    def _attr(self, t, facts, fi, pk, res, d):
        obj, name = t[1], t[2]
        if self._is_url(obj, facts, fi, pk):
            if name in SLOT_KIND:
                return k(SLOT_KIND[name])
            if name == "_cache":
                return k(CONST)
            q = f"_url.URL.{name}"
            if self.model.has_func(q):
                pf = self.model.func(q)
                if pf.memo == "cached_property" or any(unparse(x) == "property" for x in pf.decorators):
                    return self.summary(pf, ())
        if obj[0] == "attr" and obj[2] == "_cache":
            return k(CONST)
        base = self.kind(obj, facts, fi, pk, res, d)
        if name in ("compressed", "version"):
            return k("ENC:host")
        return base if base - NEUTRAL else k(UNK)

    def _item(self, base, i, facts, fi, pk, res, d):
        if base[0] in ("tuple", "list") and isinstance(i, int) and all(e[0] != "star" for e in base[1]) \
                and -len(base[1]) <= i < len(base[1]):
            return self.kind(base[1][i], facts, fi, pk, res, d)
        if base[0] == "call":
            name = self._fname(base)
            if name == "split_netloc" and i == 3:
                return k(NUM)
            if name == "split_netloc" and i in (0, 1, 2) and base[2]:
                # pieces of an authority: userinfo / host text of the same standing (encoded authority -> encoded pieces)
                a = self.kind(base[2][0], facts, fi, pk, res, d)
                role = "ENC:userinfo" if i in (0, 1) else "ENC:host"
                out = frozenset(role if x.startswith("ENC") else x for x in a)
                return self._norm(out | k(NONE_K))
            if name == "split_url" and i == 0:
                a = self.kind(base[2][0], facts, fi, pk, res, d) if base[2] else k(UNK)
                return k("ENC:scheme") if a <= {RAW, OPQ, CONST} else a
            target = self.callee(base, fi)
            if target is not None and name not in ("split_netloc", "split_url"):
                s = self.summary(target, self._argkinds(base, target, facts, fi, pk, res, d))
                if isinstance(s, tuple) and isinstance(i, int) and -len(s) <= i < len(s):
                    return s[i]
        return self.kind(base, facts, fi, pk, res, d)

    def cache_key_kind(self, key):
        """Union of the kinds of every value the package stores under _cache[key] of a URL (lazy fillers and the parsing
        constructor): `raw_user` is userinfo text, not a constant."""
        ck = ("cachekeykind", key)
        if ck in self._summ:
            return self._summ[ck]
        if ck in self._active:
            return k(CONST)
        self._active.add(ck)
        try:
            out = frozenset()
            for fi in self.model.all_funcs():
                if fi.module != "_url":
                    continue
                r = analyze(self.model, fi)
                for e in r.by_kind("store_sub"):
                    if e.index != ("const", key):
                        continue
                    root = e.base
                    while root[0] == "mut":
                        root = root[1]
                    if root[0] == "dict" or (root[0] == "attr" and root[2] == "_cache") or (root[0] == "param" and "cache" in root[1]):
                        out |= self.kind(e.value, e.state.facts, fi, None, r)
            res = self._norm(out) if out else k(CONST)
        finally:
            self._active.discard(ck)
        self._summ[ck] = res
        return res

    def _fname(self, t):
        f = t[1]
        if f[0] in ("global", "ext", "builtin"):
            return f[-1]
        if f[0] == "attr":
            return f[2]
        return None

    def callee(self, t, fi):
        return self.shapes.callee(t, fi)

    def quoter_of(self, f):
        """(name, info) when the callee term is a module-level quoter/unquoter instance."""
        if f[0] == "global" and f[1] == "_quoters":
            info = self.qinfo(f[2])
            if info is not None:
                return f[2], info
        return None

    def _argkinds(self, t, target, facts, fi, pk, res, d):
        params = [p for p in target.params if p not in ("self", "cls")]
        out = {}
        pos = [a for a in t[2] if a[0] != "star"]
        for p, a in zip(params, pos):
            out[p] = self.kind(a, facts, fi, pk, res, d)
        for kw, v in t[3]:
            if kw in params:
                out[kw] = self.kind(v, facts, fi, pk, res, d)
        va = target.node.args.vararg
        if va is not None and len(pos) >= len([p for p in params if p != va.arg]) - len(target.node.args.kwonlyargs):
            npos = len(target.node.args.args) - (1 if target.cls else 0)
            extra = pos[npos:]
            if extra:
                out[va.arg] = self._norm(frozenset().union(*[self.kind(a, facts, fi, pk, res, d) for a in extra]))
        for a in t[2]:
            if a[0] == "star" and va is not None:
                out[va.arg] = self.kind(a[1], facts, fi, pk, res, d)
        for kw, v in t[3]:
            if kw is None and target.node.args.kwarg is not None:
                out[target.node.args.kwarg.arg] = self.kind(v, facts, fi, pk, res, d)
        return tuple(sorted(out.items()))

    def _call(self, t, facts, fi, pk, res, d):
        f, args = t[1], t[2]
        kd = lambda x: self.kind(x, facts, fi, pk, res, d)
        q = self.quoter_of(f)
        if q is not None:
            name, info = q
            if info[0] == "unquoter":
                return k(DEC)
            return k(f"ENC:{info[0]}")
        name = self._fname(t)
        if f[0] == "builtin":
            if name in ("str", "list", "tuple", "reversed", "enumerate", "sorted", "set", "frozenset", "dict", "iter"):
                return self._norm(frozenset().union(*[kd(a) for a in args])) if args else k(CONST)
            if name in ("int", "len", "ord", "hash", "float"):
                return k(NUM)
            if name in ("bool", "isinstance", "issubclass", "type"):
                return k(CONST)
            return k(UNK)
        if f[0] == "attr":
            m = f[2]
            if m in STR_PASS:
                out = kd(f[1])
                for a in args:
                    out |= kd(a)
                return self._norm(out)
            if m in BOOLISH:
                return k(CONST)
            if m in ("encode", "decode"):
                return kd(f[1])
            if m == "get":
                return kd(f[1])
        if name in PASS_THROUGH:
            return self._norm(frozenset().union(*[kd(a) for a in args])) if args else k(CONST)
        if name == "_encode_host":
            return k("ENC:host")
        if name in ("_idna_decode",):
            return k(DEC)
        if name in ("parse_qsl",):
            return k(DEC)
        if name in ("MultiDict", "MultiDictProxy", "CIMultiDict"):
            return self._norm(frozenset().union(*[kd(a) for a in args])) if args else k(CONST)
        if name in ("split_url",):
            return kd(args[0]) if args else k(UNK)
        if name in ("split_netloc",):
            return kd(args[0]) if args else k(UNK)
        if name == "unsplit_result":
            return self._norm(frozenset().union(*[kd(a) for a in args]))
        target = self.callee(t, fi)
        if target is not None:
            s = self.summary(target, self._argkinds(t, target, facts, fi, pk, res, d), self.const_bindings(t, target))
            if isinstance(s, tuple):
                return self._norm(frozenset().union(*s))
            return s
        if name in ("ip_address",):
            return k("ENC:host")
        return k(UNK)

    # ------------------------------------------------------------------
    def const_bindings(self, t, target):
        """Boolean / None literal arguments are propagated into the callee (make_netloc(..., True) vs encode=False)."""
        params = [p for p in target.params if p not in ("self", "cls")]
        out = {}
        for p, a in zip(params, [x for x in t[2] if x[0] != "star"]):
            if a[0] == "const" and isinstance(a[1], bool):
                out[p] = a
        for kw, v in t[3]:
            if kw in params and v[0] == "const" and isinstance(v[1], bool):
                out[kw] = v
        for p in params:
            if p not in out and p not in dict(zip(params, [x for x in t[2] if x[0] != "star"])) and p not in dict(t[3]):
                dflt = target.param_default(p)
                if isinstance(dflt, ast.Constant) and isinstance(dflt.value, bool):
                    out[p] = ("const", dflt.value)
        return tuple(sorted(out.items()))

    def summary(self, target: FuncInfo, argkinds: tuple, bindings: tuple = ()):
        key = (target.qual, argkinds, bindings)
        if key in self._summ:
            return self._summ[key]
        if key in self._active:
            return frozenset()
        self._active.add(key)
        try:
            r = analyze(self.model, target, dict(bindings) or None)
            pk = dict(argkinds)
            outs = []
            for s, v, _n in r.returns:
                if v[0] == "tuple" and all(e[0] != "star" for e in v[1]) and target.memo != "cached_property":
                    outs.append(tuple(self.kind(e, s.facts, target, pk, r) for e in v[1]))
                else:
                    outs.append(self.kind(v, s.facts, target, pk, r))
            if not outs:
                res = frozenset()
            elif all(isinstance(o, tuple) for o in outs) and len({len(o) for o in outs}) == 1:
                res = tuple(self._norm(frozenset().union(*[o[i] for o in outs])) for i in range(len(outs[0])))
            else:
                acc = frozenset()
                for o in outs:
                    acc |= frozenset().union(*o) if isinstance(o, tuple) else o
                res = self._norm(acc)
        finally:
            self._active.discard(key)
        self._summ[key] = res
        return res
